"""C04 R-DAA.value -- the plain double-and-add paths compute k*P, decided in the exponent domain.

The group is a Z-module: the base is the symbol P, `zero()` is 0, `double_in_place` doubles, `+=` adds; the scalar limbs are
concrete, so the bit iterator, the leading-zero skip and the loop unroll along the MIR, and the result is an integer
multiple of P.  It must be k*P for every k of the range, for zero in every encoding ([], [0], [0, 0]) and for multi-limb
scalars -- for each of: sw_double_and_add_affine / _projective, the twisted-Edwards mul_projective / mul_affine defaults,
and PrimeGroup::mul_bits_be (fed the big-endian bits, with leading zeros).  The structural rule R-DAA (loop-recurrence
typing) stays; this clause adds the value, independently of how the loop is written.  Supplementary: no verdict when the
body cannot be followed; a missing anchor fails closed."""
from arklib import symex as SX
from arklib.poly import Q
from rules import c07_dft, c08_arith


def _exps(top):
    return [[]] + [[k] for k in range(0, top + 1)] + [[0, 0], [0, 1], [5, 3], [(1 << 63) + 1], [(1 << 64) - 1], [(1 << 64) - 1, (1 << 64) - 1], [1, 0, 0]]


def check_daa_value(res, facts, tier):
    rule = res.rule("R-DAA.value", "double-and-add paths return k*P for all k <= 64 (thorough 300), zero in every encoding and multi-limb scalars [evaluation in the exponent domain: P a symbol, scalar limbs concrete]", 0)
    top = 300 if tier == "thorough" else 64
    P = Q.var("P")
    targets = []
    for f in facts.fns(unit="ws", crate="ark_ec"):
        if f.kind == "Closure" or "::tests::" in f.id:
            continue
        if f.name in ("sw_double_and_add_affine", "sw_double_and_add_projective") and f.id.startswith("ark_ec::scalar_mul::"):
            targets.append((f, "limbs", "ark_ec|%s" % f.name))
        elif f.name in ("mul_projective", "mul_affine") and (f.default_of or "").endswith("twisted_edwards::TECurveConfig"):
            targets.append((f, "limbs", "ark_ec|TECurveConfig::%s(default)" % f.name))
        elif f.name == "mul_bits_be" and (f.default_of or "").endswith("ark_ec::PrimeGroup"):
            targets.append((f, "bits", "ark_ec|PrimeGroup::mul_bits_be(default)"))
    want_names = {"ark_ec|sw_double_and_add_affine", "ark_ec|sw_double_and_add_projective", "ark_ec|TECurveConfig::mul_projective(default)",
                  "ark_ec|TECurveConfig::mul_affine(default)", "ark_ec|PrimeGroup::mul_bits_be(default)"}
    for missing in sorted(want_names - {k for _, _, k in targets}):
        rule.bad(missing + "|value", "anchor missing")
    # Field::pow (square-and-multiply): the same loop in multiplicative notation
    from arklib.poly import Poly
    pw = [f for f in facts.fns(unit="ws", crate="ark_ff") if f.kind != "Closure" and f.name == "pow" and (f.default_of or "").endswith("ark_ff::fields::Field")]
    if not pw:
        rule.bad("ark_ff|Field::pow(default)|value", "anchor missing")
    else:
        targets.append((pw[0], "pow", "ark_ff|Field::pow(default)"))
    for fn, mode, key in targets:
        verdict = None
        n = 0
        for limbs in _exps(top):
            k = sum(v << (64 * i) for i, v in enumerate(limbs))
            ex = SX.Engine(facts, "ws", c07_dft._models(c08_arith._first), max_paths=4, max_depth=8, inline_limit=600, max_visits=60000)
            ex.strict_flow = True
            if mode in ("limbs", "pow"):
                arg = SX.Ref(SX.Cell(SX.Obj(adt="array", fields={i: v for i, v in enumerate(limbs)})))
            else:
                bits = []
                for v in reversed(limbs):
                    bits += [bool((v >> j) & 1) for j in range(63, -1, -1)]
                arg = SX.Obj(adt="pyiter", fields={"items": bits})
            if fn.d["argc"] != 2:
                verdict = ("noverdict", "signature changed")
                break
            try:
                paths = [p for p in ex.run(fn, [SX.Ref(SX.Cell(P)), arg]) if "panic" not in p.flags]
            except RecursionError:
                verdict = ("noverdict", "recursion limit")
                break
            if len(paths) != 1 or paths[0].flags:
                verdict = ("noverdict", "k = %s: not evaluable (%s)" % (limbs, sorted(paths[0].flags)[:4] if paths else "no path"))
                break
            got = SX.q_of(paths[0].ret)
            if got is None:
                verdict = ("noverdict", "k = %s: result is not a module value" % limbs)
                break
            want = Q.const(k) * P if mode != "pow" else (Q(Poly({(("P", k),): 1})) if k else Q.const(1))
            if not got.equals(want):
                verdict = ("bad", "scalar %d (limbs %s): the result is %s, not %s" % (k, limbs, str(got)[:60], ("%d*P" % k) if mode != "pow" else ("x^%d" % k)))
                break
            n += 1
        if verdict is None:
            rule.ok(key + "|value", "%d scalars: result = %s" % (n, "k*P" if mode != "pow" else "x^k"), fn.loc)
        elif verdict[0] == "bad":
            rule.bad(key + "|value", verdict[1], fn.loc)
        else:
            rule.noverdict(key + "|value", "shape not modelled (%s)" % verdict[1], fn.loc)
