import sys; sys.path.insert(0,'/verif')
from arklib import extract, facts as FA, configs, numth as N
from rules import c16_curves as CC
import rules.c16 as C16
root,st = extract.extract(['ws'])
facts = FA.Facts(root, ['ws'])
reg = configs.Registry(facts, units=('ws',))
# polynomial arithmetic over a field object F with add/sub/mul/inv/is_zero, zero/one
def trim(F,a):
    while a and F.is_zero(a[-1]): a=a[:-1]
    return a
def pmod(F,a,m):
    a=list(a); m=trim(F,m); inv=F.inv(m[-1])
    while len(a)>=len(m):
        c=F.mul(a[-1],inv)
        if not F.is_zero(c):
            off=len(a)-len(m)
            for i,mi in enumerate(m): a[off+i]=F.sub(a[off+i],F.mul(c,mi))
        a.pop()
    return trim(F,a)
def pmul(F,a,b,m):
    if not a or not b: return []
    r=[F.zero()]*(len(a)+len(b)-1)
    for i,x in enumerate(a):
        if F.is_zero(x): continue
        for j,y in enumerate(b): r[i+j]=F.add(r[i+j],F.mul(x,y))
    return pmod(F,r,m)
def pgcd(F,a,b):
    a,b=trim(F,a),trim(F,b)
    while b:
        a,b=b,pmod(F,a,b)
    return a
def ppow_x(F,e,m):
    r=[F.one()]; base=pmod(F,[F.zero(),F.one()],m)
    while e:
        if e&1: r=pmul(F,r,base,m)
        base=pmul(F,base,base,m); e>>=1
    return r
for im in reg.impls_of("WBConfig","ISOGENY_MAP"):
    owner=im['owner']; print(owner)
    fty = reg.const(owner, "COEFF_A", "SWCurveConfig")["ty"]
    F=reg.field(fty)
    v=im['val']
    for nm in ('x_map_denominator','y_map_denominator'):
        den=[reg.decode(c,fty) for c in v[nm]]
        if not hasattr(F,'zero'):
            print('  field API lacks zero/one', type(F)); break
        q=F.order
        print('  ',nm,'deg',len(den)-1, 'q bits', q.bit_length() if q else None)
        xq=ppow_x(F,q,den)
        # x^q - x
        d=list(xq)+[F.zero()]*(max(0,2-len(xq)))
        d[1]=F.sub(d[1],F.one())
        g=pgcd(F,den,trim(F,d))
        print('   gcd degree (number of rational roots):', len(g)-1)

print("---- explicit roots and SWU preimages (G1)")
import random
im=[i for i in reg.impls_of("WBConfig","ISOGENY_MAP") if i['owner'].endswith('g1::Config')][0]
owner=im['owner']
fty = reg.const(owner, "COEFF_A", "SWCurveConfig")["ty"]
F=reg.field(fty); q=F.order
den=[reg.decode(c,fty) for c in im['val']['x_map_denominator']]
xq=ppow_x(F,q,den); d=list(xq)+[0]*(max(0,2-len(xq))); d[1]=F.sub(d[1],1)
g=pgcd(F,den,trim(F,d))
def roots(F,g):
    g=trim(F,g)
    if len(g)<=1: return []
    if len(g)==2: return [F.mul(F.neg(g[0]),F.inv(g[1]))]
    while True:
        a=random.randrange(q)
        # (x+a)^((q-1)/2) mod g
        r=[1]; base=pmod(F,[a,1],g); e=(q-1)//2
        while e:
            if e&1: r=pmul(F,r,base,g)
            base=pmul(F,base,base,g); e>>=1
        r=list(r)+[0]*(1-len(r)) if not r else list(r)
        r[0]=F.sub(r[0],1)
        h=pgcd(F,g,trim(F,r))
        if 1<len(h)<len(g):
            # quotient
            def pdiv(a,b):
                a=list(a); out=[0]*(len(a)-len(b)+1); inv=F.inv(b[-1])
                for k in range(len(a)-len(b),-1,-1):
                    c=F.mul(a[k+len(b)-1],inv); out[k]=c
                    for i,bi in enumerate(b): a[k+i]=F.sub(a[k+i],F.mul(c,bi))
                return out
            return roots(F,h)+roots(F,pdiv(g,h))
rs=roots(F,g)
# the isogenous curve E': find SWU config in same crate
iso=[r for r in reg.impls_of("SWUConfig","ZETA") if 'g1_swu_iso' in r['owner']][0]
A=reg.decode(reg.const(iso['owner'],"COEFF_A","SWCurveConfig")['val'],fty); B=reg.decode(reg.const(iso['owner'],"COEFF_B","SWCurveConfig")['val'],fty); Z=reg.decode(iso['val'],fty)
print('A,B,Z bits',A.bit_length(),B.bit_length(),Z)
import json
found=[]
for x in rs:
    gx=(x*x*x+A*x+B)%q
    sq=F.is_square(gx)
    print(' root x =',hex(x)[:20],'... g(x) square (rational kernel point):',sq)
    if not sq: continue
    # invert SWU: x = x1(u): 1/(w^2+w) = -A x / B - 1
    c=(F.mul(F.neg(A),F.mul(x,F.inv(B)))-1)%q
    cands=[]
    if c%q:
        disc=(1+4*F.inv(c))%q
        if F.is_square(disc):
            s=N.f_sqrt(F,disc) if hasattr(N,'f_sqrt') else None
            for sg in (s,(-s)%q):
                w=F.mul((sg-1)%q,F.inv(2)); cands.append(('x1',w))
    # x = x2(u) = w * x1: x1 = x / w, with x1 = (-B/A)(1+1/(w^2+w)) => x (w^2+w) = w(-B/A)(w^2+w+1) ... solve cubic? skip
    for kind,w in cands:
        u2=F.mul(w,F.inv(Z))
        if F.is_square(u2):
            u=N.f_sqrt(F,u2)
            found.append((x,u))
            print('   preimage: u =',hex(u)[:24],'... (via',kind,')')
json.dump([(hex(x),hex(u)) for x,u in found],open('/tmp/iso_preimages.json','w'))
print(len(found),'preimages')
