"""C16 — every shipped field and curve configuration is internally consistent.

R-CONST over the compiler-evaluated constant table of every crate (workspace, test-curves, all curve
crates through the shadow workspace, /verif/witness/shapes): each constant is recomputed from its
defining relation with independent Python arithmetic (arklib/numth.py).  Nothing from /repo is
executed; values are what rustc's const evaluation of the sources yields.
"""
from arklib import numth as N
from arklib.configs import Registry, parse_ty, ty_str, FP, QUAD, CUBIC, BIGINT, SW_AFFINE, TE_AFFINE
from rules import c16_curves, c16_pairing

UNITS = ["ws", "curves", "shapes"]


def loc(r):
    return "%s:%s" % (r.get("file"), r.get("line"))


def opt(v):
    """decoded Option -> value or None"""
    if v is None:
        return None
    if isinstance(v, tuple) and v and v[0] == "Some":
        return v[1]
    return v


class Ctx:
    def __init__(self, res, reg):
        self.res, self.reg = res, reg

    def get(self, owner, name, trait=None):
        return self.reg.const(owner, name, trait)

    def val(self, owner, name, trait=None):
        r = self.reg.const(owner, name, trait)
        if r is None:
            return None, None
        return self.reg.decode(r["val"], r["ty"]), r


def check_prime_fields(cx):
    res, reg = cx.res, cx.reg
    rule = res.rule("R-CONST.prime", "Montgomery and derived constants of every prime field equal their recomputation from the modulus", 400)
    fields = reg.impls_of("MontConfig", "MODULUS")
    n_fields = 0
    for m in fields:
        owner = m["owner"]
        limbs = m["val"]["0"]
        nl = len(limbs)
        p = N.limbs_to_int(limbs)
        tag = "%s|%s" % (m["crate"], owner)
        n_fields += 1
        where = loc(m)

        def ck(name, ok, msg=""):
            if ok is None:
                rule.undecided("%s|%s" % (tag, name), msg or "constant not found", where)
            elif ok:
                rule.ok("%s|%s" % (tag, name), msg, where)
            else:
                rule.bad("%s|%s" % (tag, name), "%s::%s is inconsistent with the modulus: %s" % (owner, name, msg), where)
        ck("MODULUS.prime", N.is_probable_prime(p), "modulus is not prime")
        ck("MODULUS.limbs", p >> (64 * (nl - 1)) != 0 or nl == 1, "top limb of the modulus is zero (limb count too large)")
        Rm = pow(2, 64 * nl, p)
        fty = "%s<ark_ff::fields::models::fp::montgomery_backend::MontBackend<%s, %d>, %d>" % (FP, owner, nl, nl)
        F = reg.field(fty)
        for name, want in (("R", Rm), ("R2", Rm * Rm % p)):
            r = reg.const(owner, name, "MontConfig")
            got = N.limbs_to_int(r["val"]["0"]) if r else None
            ck(name, None if got is None else got == want, "expected %#x, found %#x" % (want, got or 0))
        r = reg.const(owner, "INV", "MontConfig")
        if r is not None:
            ck("INV", (r["val"] * p + 1) % (1 << 64) == 0, "INV * p != -1 mod 2^64")
        # derived (per field type)
        s2 = N.two_adicity(p - 1)
        t = (p - 1) >> s2
        dv = lambda name, tr=None: cx.val(fty, name, tr)
        bits, _ = dv("MODULUS_BIT_SIZE")
        ck("MODULUS_BIT_SIZE", None if bits is None else bits == p.bit_length(), "expected %d found %s" % (p.bit_length(), bits))
        v, _ = dv("MODULUS_MINUS_ONE_DIV_TWO")
        ck("MODULUS_MINUS_ONE_DIV_TWO", None if v is None else v == (p - 1) // 2)
        v, _ = dv("TWO_ADICITY", "FftField")
        ck("TWO_ADICITY", None if v is None else v == s2, "expected %d found %s" % (s2, v))
        v, _ = dv("TRACE")
        ck("TRACE", None if v is None else v == t)
        v, _ = dv("TRACE_MINUS_ONE_DIV_TWO")
        ck("TRACE_MINUS_ONE_DIV_TWO", None if v is None else v == (t - 1) // 2)
        z, _ = dv("ZERO")
        o, _ = dv("ONE")
        ck("ZERO/ONE", None if z is None or o is None else (z == 0 and o == 1 % p), "ZERO/ONE decode to %s/%s" % (z, o))
        # generator and roots of unity
        g, gr = cx.val(owner, "GENERATOR", "MontConfig")
        if g is not None and p > 2:
            ck("GENERATOR.qnr", pow(g, (p - 1) // 2, p) == p - 1, "GENERATOR is a quadratic residue (2-adic root of unity g^t would have smaller order)")
        w, wr = cx.val(owner, "TWO_ADIC_ROOT_OF_UNITY", "MontConfig")
        if w is not None and p > 2:
            exact = pow(w, 1 << s2, p) == 1 and (s2 == 0 or pow(w, 1 << (s2 - 1), p) == p - 1)
            ck("TWO_ADIC_ROOT_OF_UNITY.order", exact, "does not have order exactly 2^%d" % s2)
            if g is not None:
                ck("TWO_ADIC_ROOT_OF_UNITY=g^t", pow(g, t, p) == w, "is not GENERATOR^TRACE")
        b, _ = cx.val(owner, "SMALL_SUBGROUP_BASE", "MontConfig")
        k, _ = cx.val(owner, "SMALL_SUBGROUP_BASE_ADICITY", "MontConfig")
        L, _ = cx.val(owner, "LARGE_SUBGROUP_ROOT_OF_UNITY", "MontConfig")
        b, k, L = opt(b), opt(k), opt(L)
        if b is not None and k is not None:
            ck("SMALL_SUBGROUP", (p - 1) % (b ** k) == 0, "%d^%d does not divide p-1" % (b, k))
            if L is not None:
                order = (1 << s2) * b ** k
                ok = pow(L, order, p) == 1 and pow(L, order // 2, p) != 1 and pow(L, order // b, p) != 1
                ck("LARGE_SUBGROUP_ROOT_OF_UNITY.order", ok, "does not have order exactly 2^%d * %d^%d" % (s2, b, k))
                if g is not None:
                    ck("LARGE_SUBGROUP_ROOT_OF_UNITY=g^((p-1)/order)", pow(g, (p - 1) // order, p) == L, "is not GENERATOR^((p-1)/(2^s b^k))")
            else:
                ck("LARGE_SUBGROUP_ROOT_OF_UNITY", False, "SMALL_SUBGROUP_BASE is set but LARGE_SUBGROUP_ROOT_OF_UNITY is None")
        elif L is not None:
            ck("LARGE_SUBGROUP_ROOT_OF_UNITY", False, "set without SMALL_SUBGROUP_BASE/ADICITY")
        # square-root material
        v, _ = cx.val(owner, "MODULUS_PLUS_ONE_DIV_FOUR", "MontConfig")
        v = opt(v)
        if p % 4 == 3:
            ck("MODULUS_PLUS_ONE_DIV_FOUR", v == (p + 1) // 4, "expected (p+1)/4")
        else:
            ck("MODULUS_PLUS_ONE_DIV_FOUR", v is None, "set although p != 3 mod 4")
        r = reg.const(owner, "SQRT_PRECOMP", "MontConfig")
        if r is not None and p > 2:
            sv = r["val"]
            if sv.get("$variant") == "None":
                ck("SQRT_PRECOMP", False, "no square-root algorithm configured")
            else:
                inner = sv["0"]
                var = inner.get("$variant")
                if p % 4 == 3:
                    want = (p + 1) // 4
                    got = N.limbs_to_int(inner["modulus_plus_one_div_four"]) if var == "Case3Mod4" else None
                    ck("SQRT_PRECOMP", var == "Case3Mod4" and got == want, "p = 3 mod 4 needs Case3Mod4 with (p+1)/4; found %s" % var)
                else:
                    if var != "TonelliShanks":
                        ck("SQRT_PRECOMP", False, "p = 1 mod 4 needs Tonelli-Shanks; found %s" % var)
                    else:
                        qn = reg.decode(inner["quadratic_nonresidue_to_trace"], fty)
                        ok = inner["two_adicity"] == s2 and N.limbs_to_int(inner["trace_of_modulus_minus_one_div_two"]) == (t - 1) // 2 \
                            and pow(qn, 1 << s2, p) == 1 and pow(qn, 1 << (s2 - 1), p) == p - 1
                        ck("SQRT_PRECOMP", ok, "Tonelli-Shanks parameters (two_adicity / (t-1)/2 / nonresidue^t of exact order 2^s) are wrong")
    return n_fields


def embed(Fsrc, Fdst, x):
    """embed an element of a subfield into an extension along the tower"""
    if Fsrc is Fdst or Fsrc.ty == Fdst.ty:
        return x
    if isinstance(Fdst, N.Ext):
        return Fdst.embed_base(embed(Fsrc, Fdst.base, x))
    raise ValueError("cannot embed %r into %r" % (Fsrc, Fdst))


EXT_TRAITS = {
    # trait suffix -> (wrapper head, degree, list of (table const, multiplier of (p^i-1)/d))
    "fp2::Fp2Config": ("ark_ff::fields::models::fp2::Fp2ConfigWrapper", QUAD, 2, [("FROBENIUS_COEFF_FP2_C1", 1)]),
    "fp3::Fp3Config": ("ark_ff::fields::models::fp3::Fp3ConfigWrapper", CUBIC, 3, [("FROBENIUS_COEFF_FP3_C1", 1), ("FROBENIUS_COEFF_FP3_C2", 2)]),
    "fp4::Fp4Config": ("ark_ff::fields::models::fp4::Fp4ConfigWrapper", QUAD, 2, [("FROBENIUS_COEFF_FP4_C1", 1)]),
    "fp6_2over3::Fp6Config": ("ark_ff::fields::models::fp6_2over3::Fp6ConfigWrapper", QUAD, 2, [("FROBENIUS_COEFF_FP6_C1", 1)]),
    "fp6_3over2::Fp6Config": ("ark_ff::fields::models::fp6_3over2::Fp6ConfigWrapper", CUBIC, 3, [("FROBENIUS_COEFF_FP6_C1", 1), ("FROBENIUS_COEFF_FP6_C2", 2)]),
    "fp12_2over3over2::Fp12Config": ("ark_ff::fields::models::fp12_2over3over2::Fp12ConfigWrapper", QUAD, 2, [("FROBENIUS_COEFF_FP12_C1", 1)]),
}
# towers whose default "multiply by non-residue" code assumes the non-residue is the generator of the level below
NR_IS_GENERATOR = {"fp4::Fp4Config": (0, 1), "fp6_2over3::Fp6Config": (0, 1, 0), "fp12_2over3over2::Fp12Config": (0, 1, 0)}


def check_extensions(cx):
    res, reg = cx.res, cx.reg
    rule = res.rule("R-CONST.tower", "extension non-residues are non-residues of the right degree and every Frobenius table entry is the corresponding power", 80)
    n = 0
    for tsuf, (wrapper, adt, d, tables) in EXT_TRAITS.items():
        for nr in reg.impls_of(tsuf, "NONRESIDUE"):
            owner = nr["owner"]
            tag = "%s|%s" % (nr["crate"], owner)
            n += 1
            try:
                E = reg.field("%s<%s<%s>>" % (adt, wrapper, owner))
            except KeyError as e:
                rule.undecided(tag + "|field", str(e), loc(nr))
                continue
            B = E.base
            beta = E.beta
            p = E.char
            qb = B.order
            # non-residue of degree d in the base field  <=>  X^d - beta irreducible (d prime, d | q-1)
            if (qb - 1) % d != 0:
                rule.bad(tag + "|NONRESIDUE.degree", "%d does not divide |base field| - 1: X^%d - beta cannot be irreducible for this reason alone" % (d, d), loc(nr))
            else:
                is_res = B.eq(B.pow(beta, (qb - 1) // d), B.one())
                if is_res:
                    rule.bad(tag + "|NONRESIDUE", "%s::NONRESIDUE is a %s in the base field: X^%d - NONRESIDUE is reducible, the 'extension' is not a field" % (owner, "square" if d == 2 else "cube", d), loc(nr))
                else:
                    rule.ok(tag + "|NONRESIDUE", "non-%s of %r" % ("square" if d == 2 else "cube", B), loc(nr))
            if tsuf in NR_IS_GENERATOR:
                want = NR_IS_GENERATOR[tsuf]
                flat = tuple(0 if B.base.is_zero(x) else (1 if B.base.eq(x, B.base.one()) else 2) for x in beta)
                if flat == want:
                    rule.ok(tag + "|NONRESIDUE.shape", "non-residue is the generator of the level below, as the fixed multiply-by-nonresidue code assumes", loc(nr))
                else:
                    rule.bad(tag + "|NONRESIDUE.shape", "the tower's multiply-by-nonresidue code shifts coordinates (assumes NONRESIDUE = %s) but the configured value has shape %s" % (want, flat), loc(nr))
            # Frobenius tables
            deg_over_prime = E.degree
            for tname, mult in tables:
                tr = reg.const(owner, tname)
                if tr is None:
                    rule.undecided(tag + "|" + tname, "table not found", loc(nr))
                    continue
                tty = parse_ty(tr["ty"])
                elem_ty = tty[1][0] if tty[0] == "&" else tty
                elem_ty = elem_ty[1][0]
                Ft = reg.field(elem_ty)
                tab = reg.decode(tr["val"], tr["ty"])
                if len(tab) != deg_over_prime:
                    rule.bad(tag + "|" + tname + ".len", "table has %d entries but frobenius_map indexes it modulo the extension degree %d" % (len(tab), deg_over_prime), loc(tr))
                    continue
                badi = []
                for i, c in enumerate(tab):
                    e = mult * (p ** i - 1)
                    if e % d != 0:
                        badi.append(i)
                        continue
                    want = B.pow(beta, e // d)
                    try:
                        got = embed(Ft, B, c)
                    except ValueError:
                        badi.append(i)
                        continue
                    if not B.eq(got, want):
                        badi.append(i)
                if badi:
                    rule.bad(tag + "|" + tname, "entries %s differ from NONRESIDUE^(%s(p^i - 1)/%d): frobenius_map would not be x -> x^(p^i)" % (badi, "" if mult == 1 else "%d*" % mult, d), loc(tr))
                else:
                    rule.ok(tag + "|" + tname, "%d entries" % len(tab), loc(tr))
            if tsuf == "fp3::Fp3Config":
                check_fp3_sqrt(rule, reg, owner, E, tag, nr)
    return n


def check_fp3_sqrt(rule, reg, owner, E, tag, nr):
    q = E.order
    s = N.two_adicity(q - 1)
    t = (q - 1) >> s
    r = reg.const(owner, "TWO_ADICITY", "Fp3Config")
    if r is not None:
        (rule.ok if r["val"] == s else rule.bad)(tag + "|Fp3.TWO_ADICITY", "expected v2(p^3-1) = %d, found %s" % (s, r["val"]), loc(r))
    r = reg.const(owner, "TRACE_MINUS_ONE_DIV_TWO", "Fp3Config")
    if r is not None:
        got = N.limbs_to_int(r["val"])
        (rule.ok if got == (t - 1) // 2 else rule.bad)(tag + "|Fp3.TRACE_MINUS_ONE_DIV_TWO", "expected ((p^3-1)/2^s - 1)/2", loc(r))
    r = reg.const(owner, "QUADRATIC_NONRESIDUE_TO_T", "Fp3Config")
    if r is not None:
        x = reg.decode(r["val"], r["ty"])
        minus_one = E.neg(E.one())
        ok = E.eq(E.pow(x, 1 << s), E.one()) and E.eq(E.pow(x, 1 << (s - 1)), minus_one)
        (rule.ok if ok else rule.bad)(tag + "|Fp3.QUADRATIC_NONRESIDUE_TO_T", "must have order exactly 2^%d in Fp3 (it is nonresidue^t)" % s, loc(r))


def check_ext_derived(cx):
    """derived constants of extension field types (two-adicity and 2-adic root of unity)"""
    res, reg = cx.res, cx.reg
    rule = res.rule("R-CONST.ext-derived", "TWO_ADICITY / TWO_ADIC_ROOT_OF_UNITY / ONE / ZERO of every extension field type", 28)
    seen = set()
    for r in reg.recs:
        if not r.get("derived_for_type") or r["name"] != "TWO_ADIC_ROOT_OF_UNITY":
            continue
        t = parse_ty(r["owner"])
        if t[0] not in (QUAD, CUBIC) or r["owner"] in seen:
            continue
        seen.add(r["owner"])
        try:
            E = reg.field(t)
        except KeyError as e:
            rule.undecided(r["owner"][-80:], str(e))
            continue
        tag = "%s|%s" % (r["crate"], r["owner"][-90:])
        w = reg.decode(r["val"], r["ty"])
        s_rec = reg.const(r["owner"], "TWO_ADICITY", "FftField")
        s = s_rec["val"] if s_rec else None
        q = E.order
        s_true = N.two_adicity(q - 1)
        if s is None:
            rule.undecided(tag + "|TWO_ADICITY", "missing")
            continue
        # the tower reports a two-adicity that may be smaller than v2(q-1) (it lifts the base field's root);
        # what must hold: w has exact order 2^s
        ok = E.eq(E.pow(w, 1 << s), E.one()) and (s == 0 or not E.eq(E.pow(w, 1 << (s - 1)), E.one()))
        (rule.ok if ok else rule.bad)(tag + "|TWO_ADIC_ROOT_OF_UNITY.order", "root of unity must have order exactly 2^TWO_ADICITY (= 2^%d; v2(q-1) = %d)" % (s, s_true))
        # mixed-radix constants lifted from the base field: if a small subgroup is declared, the large-subgroup root
        # must have order exactly 2^s * b^k in the extension field as well
        sb = reg.const(r["owner"], "SMALL_SUBGROUP_BASE", "FftField")
        sk = reg.const(r["owner"], "SMALL_SUBGROUP_BASE_ADICITY", "FftField")
        lr = reg.const(r["owner"], "LARGE_SUBGROUP_ROOT_OF_UNITY", "FftField")
        if sb and sk and lr:
            def opt(v):
                return v.get("0") if isinstance(v, dict) and v.get("$variant") == "Some" else None
            b_, k_, L_ = opt(sb["val"]), opt(sk["val"]), opt(lr["val"])
            if b_ is not None and k_ is not None:
                if L_ is None:
                    rule.bad(tag + "|LARGE_SUBGROUP_ROOT_OF_UNITY", "SMALL_SUBGROUP_BASE is set but LARGE_SUBGROUP_ROOT_OF_UNITY is None")
                else:
                    inner_ty = r["ty"]
                    try:
                        Lv = reg.decode(L_, inner_ty)
                        order = (1 << s) * b_ ** k_
                        ok = E.eq(E.pow(Lv, order), E.one()) and not E.eq(E.pow(Lv, order // b_), E.one()) and (s == 0 or not E.eq(E.pow(Lv, order // 2), E.one()))
                        (rule.ok if ok else rule.bad)(tag + "|LARGE_SUBGROUP_ROOT_OF_UNITY.order", "large-subgroup root of unity must have order exactly 2^%d * %d^%d: get_root_of_unity(n) for n divisible by %d would return an element of smaller order" % (s, b_, k_, b_))
                    except Exception as e:
                        rule.undecided(tag + "|LARGE_SUBGROUP_ROOT_OF_UNITY", "not decodable: %s" % e)
        one = reg.const(r["owner"], "ONE")
        zero = reg.const(r["owner"], "ZERO")
        if one and zero:
            o, z = reg.decode(one["val"], one["ty"]), reg.decode(zero["val"], zero["ty"])
            (rule.ok if E.eq(o, E.one()) and E.is_zero(z) else rule.bad)(tag + "|ZERO/ONE", "ZERO/ONE constants")


def run(ctx, res):
    facts = ctx.facts(UNITS)
    res.analysed = facts.stats()
    reg = Registry(facts, UNITS)
    cx = Ctx(res, reg)
    cx.facts = facts
    nf = check_prime_fields(cx)
    ne = check_extensions(cx)
    check_ext_derived(cx)
    nc = c16_curves.check_curves(cx)
    npair = c16_pairing.check_pairing(cx)
    res.notes.append("configurations: %d prime fields, %d extension configs, %d curves, %d pairing configs; constant records: %d" % (nf, ne, nc, npair, len(reg.recs)))
    return {
        "level": "other",
        "explanation": "Exhaustive over the shipped configurations: every constant of every MontConfig / FpkConfig / CurveConfig / SW / TE / Montgomery / GLV / SWU / WB / Elligator / pairing configuration in the workspace, test-curves and all 27 curve crates (plus our own modulus-shape grid) is decoded from rustc's const evaluation and recomputed from its defining relation with independent integer / tower / curve arithmetic. Primality is a strong probable-prime test; full multiplicative order of GENERATOR is checked only as far as quadratic non-residuosity and the stated subgroup orders.",
        "assumptions": ["Miller-Rabin with 36 bases for primality", "constants not covered by a relation are listed in the evidence as unchecked"],
    }
