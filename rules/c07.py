"""C07 — evaluation domains and FFT wiring: the clauses whose truth is in the shape of the code.

  R-DERIVED  every derived field of Radix2EvaluationDomain / MixedRadixEvaluationDomain is computed from
             the right source, in `new` and in `get_coset` (expression reconstruction over MIR):
             size_inv = (F::from(size))^-1, group_gen = get_root_of_unity(size), group_gen_inv = group_gen^-1,
             offset_inv = offset^-1, offset_pow_size = offset^size, untouched fields copied from the same field.
  R-BOUND    construction / compute_size_of_domain fail exactly on the two-adicity (mixed: size != q^a 2^b)
             condition, and the reported size is the rounding function of the request.
  R-ACCESS   every accessor returns its own field; GeneralEvaluationDomain forwards each trait method to
             the same method of the variant it holds.
  R-WIRE     forward transforms run with group_gen, inverse transforms with group_gen_inv; the coset
             offset is distributed before the forward transform exactly on the !is_one arm; every path of
             the inverse multiplies by size_inv, with powers of offset_inv on the coset arm.
  R-BFLY     the two butterfly kernels are (lo+hi, (lo-hi)*w) and (lo+hi*w, lo-hi*w)  [proof: symbolic
             evaluation over a commutative ring].
  R-POWERS   distribute_powers_and_mul_by_const multiplies coefficient i by c*g^i: the loop body multiplies by
             the running power *before* advancing it, the running power starts at c (parallel: at
             c*g^(i*chunk) with `chunk` the very chunk length handed to chunks_mut), compute_powers likewise.
  R-ROOT     get_root_of_unity: start value, number of q-th powerings / squarings = configured adicity minus
             requested adicity, and the three rejection conditions.
  R-VANISH   evaluate_vanishing_polynomial = tau^size - offset^size, vanishing_polynomial = x^size - offset^size,
             element(i) = offset * group_gen^i, Elements yields cur_elem and advances by group_gen, size times.

  Not decided: that butterflies / permutations / degree-aware duplication / mixed-radix passes compose to
  the DFT for every size (index arithmetic over run-time sizes), Lagrange coefficients.
"""
from arklib import dataflow as DF, symex as SX
from arklib.poly import Q
from arklib.facts import op_local, op_place, place_parts, closure_args

R2 = "ark_poly::domain::radix2::Radix2EvaluationDomain"
MR = "ark_poly::domain::mixed_radix::MixedRadixEvaluationDomain"
GEN = "ark_poly::domain::general::GeneralEvaluationDomain"
DOM = "ark_poly::domain::EvaluationDomain"
SHORT = {R2: "Radix2", MR: "MixedRadix", GEN: "General"}


# ---- normal form of reconstructed expressions ------------------------------------------------------------

def _nsel(fs):
    return tuple((f[0], norm(f[1])) + tuple(f[2:]) if isinstance(f, tuple) and f and f[0] == "idx" else f for f in fs)


def norm(t):
    """semantic normal form: one()/ONE -> 1, from(x) -> x, inverse(x) -> ('inv', x), pow(x, [n]) -> ('pow', x, n),
    casts and `as` are already transparent; overflow-checked operators are the plain ones"""
    if not isinstance(t, tuple) or not t:
        return t
    h = t[0]
    if h == "const":
        return 1 if t[1] in ("ONE",) else (0 if t[1] == "ZERO" else t[1])
    if h in ("arg", "phi"):
        return (h, t[1], _nsel(t[2]))
    if h in ("iter", "iter="):
        return (h, norm(t[1]), norm(t[2]))
    if h == "call":
        name, args, fields = t[1], tuple(norm(a) for a in t[2]), _nsel(t[3])
        # `for (i, x) in xs.iter().enumerate()` is `for i in 0..xs.len()` with x = xs[i]
        if name == "next" and len(args) == 1 and len(fields) >= 2 and fields[0] == "0" and fields[1] in ("0", "1") \
                and isinstance(args[0], tuple) and args[0][:2] == ("call", "enumerate") and len(args[0]) == 3 \
                and isinstance(args[0][2][0], tuple) and args[0][2][0][:2] in (("call", "iter"), ("call", "iter_mut")) and len(args[0][2][0]) == 3:
            xs = args[0][2][0][2][0]
            var = ("iter", 0, ("call", "len", (xs,)))
            out = var if fields[1] == "0" else ("call", "index", (xs, var))
            rest = fields[2:]
            if not rest:
                return out
            return ("proj", out, rest) if fields[1] == "0" else ("call", "index", (xs, var), rest)
        if fields:
            return ("call", name, args, fields)
        if name == "one" and not args:
            return 1
        if name == "zero" and not args:
            return 0
        if name in ("from", "try_into", "try_from") and len(args) == 1:
            return args[0]
        if name == "inverse" and len(args) == 1:
            return ("inv", args[0])
        if name == "pow" and len(args) == 2:
            e = args[1]
            if isinstance(e, tuple) and e[0] == "agg" and len(e[2]) == 1:
                e = e[2][0]
            return ("pow", args[0], e)
        return ("call", name, args)
    if h == "agg":
        return ("agg", t[1], tuple(norm(a) for a in t[2]))
    if h == "bin":
        op = t[1].replace("WithOverflow", "").replace("Unchecked", "")
        return ("bin", op, norm(t[2]), norm(t[3]))
    if h == "un":
        return ("un", t[1], norm(t[2]))
    if h == "proj":
        inner = norm(t[1])
        if isinstance(t[1], tuple) and t[1][0] == "bin" and "WithOverflow" in t[1][1] and t[2][:1] == ("0",):
            return inner if len(t[2]) == 1 else ("proj", inner, _nsel(t[2][1:]))
        return ("proj", inner, _nsel(t[2]))
    return t


def E(fn, o):
    return norm(DF.expr(fn, o, depth=40))


def qeq(a, b):
    return a is not None and b is not None and a.equals(b)


def show(t):
    if not isinstance(t, tuple):
        return str(t)
    h = t[0]
    if h == "inv":
        return "inv(%s)" % show(t[1])
    if h == "pow":
        return "pow(%s, %s)" % (show(t[1]), show(t[2]))
    if h == "call":
        return "%s(%s)%s" % (t[1], ", ".join(show(a) for a in t[2]), _ssel(t[3] if len(t) > 3 else ()))
    if h in ("arg", "phi"):
        return "%s%d%s" % (h, t[1], _ssel(t[2]))
    if h in ("iter", "iter="):
        return "i<%s..%s%s>" % (show(t[1]), "=" if h == "iter=" else "", show(t[2]))
    if h == "agg":
        return "%s{%s}" % (t[1], ", ".join(show(a) for a in t[2]))
    if h == "bin":
        return "(%s %s %s)" % (show(t[2]), t[1], show(t[3]))
    if h == "un":
        return "%s(%s)" % (t[1], show(t[2]))
    if h == "proj":
        return "%s%s" % (show(t[1]), _ssel(t[2]))
    return DF.show(t)


def _ssel(fs):
    out = ""
    for f in fs:
        if isinstance(f, str):
            out += "." + f
        elif isinstance(f, tuple) and f and f[0] == "idx":
            out += "[%s]" % show(f[1])
        elif isinstance(f, tuple) and f and f[0] == "cidx":
            out += "[%s%d]" % ("-" if f[2] else "", f[1])
        else:
            out += "[%s]" % (f,)
    return out


def A(n, *fields):
    return ("arg", n, tuple(fields))


def C(name, *args):
    return ("call", name, tuple(args))


def dom_fns(facts, head, unit="ws"):
    out = {}
    for f in facts.fns(unit=unit, crate="ark_poly"):
        if f.kind == "Closure" or "::tests::" in f.id:
            continue
        if f.self_head == head:
            out.setdefault(f.name, f)
    return out


def domain_agg(fn, head):
    for bi, si, s in fn.stmts():
        r = s.get("r")
        if r and r["k"] == "agg" and r.get("adt") == head:
            return bi, dict(zip(r.get("fields") or [], r["ops"]))
    return None, None


# ---- R-DERIVED ------------------------------------------------------------------------------------------

def check_derived(res, facts):
    rule = res.rule("R-DERIVED", "derived fields of a domain are computed from the right source in new / get_coset", 36)
    for head, rounding in ((R2, "next_power_of_two"), (MR, "best_mixed_domain_size")):
        fns = dom_fns(facts, head)
        for ctor in ("new", "get_coset"):
            fn = fns.get(ctor)
            tag = "ark_poly|%s::%s" % (SHORT[head], ctor)
            if fn is None:
                rule.bad(tag, "anchor missing")
                continue
            bb, fields = domain_agg(fn, head)
            if fields is None:
                rule.bad(tag, "no construction of the domain struct found", fn.loc)
                continue
            size = C(rounding, A(1))
            if head == R2 and fn is not None and "checked_next_power_of_two" in [t["f"].get("name") for _, t in fn.calls()]:
                size = C("checked_next_power_of_two", A(1))      # same rounding, overflow-safe form
            if ctor == "new":
                gen = C("get_root_of_unity", size)
                want = {
                    "size": [size],
                    "log_size_of_group": [C("trailing_zeros", size), C("k_adicity", 2, size), C("log2", size)],
                    "size_as_field_element": [size],
                    "size_inv": [("inv", size)],
                    "group_gen": [gen],
                    "group_gen_inv": [("inv", gen)],
                    "offset": [1], "offset_inv": [1], "offset_pow_size": [1],
                }
            else:
                want = {f: [A(1, f)] for f in ("size", "log_size_of_group", "size_as_field_element", "size_inv", "group_gen", "group_gen_inv")}
                want.update({"offset": [A(2)], "offset_inv": [("inv", A(2))], "offset_pow_size": [("pow", A(2), A(1, "size"))]})
            for f, alts in want.items():
                key = "%s|%s" % (tag, f)
                if f not in fields:
                    rule.bad(key, "field is not initialised by this constructor", fn.loc)
                    continue
                got = E(fn, fields[f])
                if got in alts:
                    rule.ok(key, "%s = %s" % (f, show(got)), fn.loc)
                else:
                    rule.bad(key, "%s is computed as %s; the domain's arithmetic needs %s" % (f, show(got), " or ".join(show(a) for a in alts)), fn.loc)


# ---- R-BOUND ---------------------------------------------------------------------------------------------

def reaches_avoiding(fn, start, targets, avoid):
    succ = fn.succ()
    seen, st = set(), [start]
    while st:
        x = st.pop()
        if x in seen or x in avoid:
            continue
        seen.add(x)
        if x in targets:
            return True
        st.extend(succ[x])
    return False


def none_returns(fn):
    """blocks that produce the None result (aggregate None assigned to _0 or from_residual into _0)"""
    out = set()
    for bi, si, s in fn.stmts():
        r = s.get("r")
        if s.get("d") == 0 and r and r["k"] == "agg" and r.get("variant") == "None":
            out.add(bi)
    return out


def check_bound(res, facts):
    rule = res.rule("R-BOUND", "construction fails exactly on the subgroup-size condition; reported size is the rounding of the request", 9)
    # Radix2::new: a comparison trailing_zeros(size) > TWO_ADICITY whose true arm returns None before the struct is built
    fns = dom_fns(facts, R2)
    fn = fns.get("new")
    key = "ark_poly|Radix2::new|two-adicity"
    if fn is None:
        rule.bad(key, "anchor missing")
    else:
        size = C("checked_next_power_of_two" if "checked_next_power_of_two" in [t["f"].get("name") for _, t in fn.calls()] else "next_power_of_two", A(1))
        logs = [C("trailing_zeros", size), C("log2", size)]
        bb_agg, _ = domain_agg(fn, R2)
        nones = none_returns(fn)
        ok = False
        seen = []
        for bi, b in enumerate(fn.bbs):
            t = b["t"]
            if t["k"] != "switch":
                continue
            c = E(fn, t["o"])
            seen.append(show(c))
            if isinstance(c, tuple) and c[0] == "bin" and c[1] in ("Gt", "Lt", "Ge", "Le"):
                a, bb_ = c[2], c[3]
                pair = None
                if a in logs and bb_ == "TWO_ADICITY":
                    pair = c[1]
                elif bb_ in logs and a == "TWO_ADICITY":
                    pair = {"Gt": "Lt", "Lt": "Gt", "Ge": "Le", "Le": "Ge"}[c[1]]
                if pair not in ("Gt", "Le"):
                    continue
                # MIR switchInt on a bool: target for value 0 (false) is tgts[0], otherwise -> else
                false_t, true_t = t["tgts"][0], t["else"]
                reject = true_t if pair == "Gt" else false_t
                accept = false_t if pair == "Gt" else true_t
                if reaches_avoiding(fn, reject, nones, {bb_agg}) and not reaches_avoiding(fn, reject, {bb_agg}, set()) and reaches_avoiding(fn, accept, {bb_agg}, set()):
                    ok = True
        (rule.ok if ok else rule.bad)(key, "log2(size) > TWO_ADICITY returns None before construction" if ok else "no guard `log2(size) > F::TWO_ADICITY => None` dominates the construction (conditions seen: %s): a domain larger than the field's 2-adic subgroup could be built" % seen[:4], fn.loc)
    # the rounding itself must not overflow (a request above 2^63 has no power of two in usize): sibling agreement with
    # compute_size_of_domain, which uses the checked form
    fn = fns.get("new")
    key = "ark_poly|Radix2::new|rounding-overflow"
    if fn is not None:
        names = [t["f"].get("name") for _, t in fn.calls()]
        if "next_power_of_two" in names and "checked_next_power_of_two" not in names:
            rule.bad(key, "the request is rounded with usize::next_power_of_two, which overflows (panics in debug builds, yields 0 in release) for requests above 2^63, while compute_size_of_domain answers None for the same request: construction must fail with None", fn.loc)
        elif "checked_next_power_of_two" in names:
            rule.ok(key, "checked_next_power_of_two: an unrepresentable size yields None", fn.loc)
        else:
            rule.undecided(key, "rounding function not recognised (%s)" % names[:6], fn.loc)
    # compute_size_of_domain
    fn = fns.get("compute_size_of_domain")
    key = "ark_poly|Radix2::compute_size_of_domain"
    if fn is None:
        rule.bad(key, "anchor missing")
    else:
        ts = [t for _, t in fn.calls() if t["f"].get("name") == "then_some"]
        good = False
        got = None
        for t in ts:
            got = tuple(E(fn, a) for a in t["args"])
            s = C("checked_next_power_of_two", A(1))
            if got == (("bin", "Le", C("trailing_zeros", s), "TWO_ADICITY"), s):
                good = True
        (rule.ok if good else rule.bad)(key, "(size.trailing_zeros() <= TWO_ADICITY).then_some(size), size = next power of two" if good else "size / bound expression is %s" % (tuple(show(g) for g in got) if got else None), fn.loc)
    # Mixed radix: a field without a small subgroup makes construction fail with None: the configured base is tested
    # (F::SMALL_SUBGROUP_BASE?) before anything unwraps it (best_mixed_domain_size unwraps both small-subgroup constants)
    mfns = dom_fns(facts, MR)
    for name in ("new", "compute_size_of_domain"):
        fn = mfns.get(name)
        key = "ark_poly|MixedRadix::%s|no-small-subgroup" % name
        if fn is None:
            rule.bad(key, "anchor missing")
            continue
        dom = DF.dominators(fn) if hasattr(DF, "dominators") else None
        best = [bb for bb, t in fn.calls() if t["f"].get("name") == "best_mixed_domain_size"]
        tests = [bi for bi, b in enumerate(fn.bbs) if b["t"]["k"] == "switch" and show(E(fn, b["t"]["o"])).find("SMALL_SUBGROUP_BASE") >= 0]
        # `?` on the constant: a branch on its discriminant; accept discriminant reads of the constant as well
        for bi, si, st_ in fn.stmts():
            r = st_.get("r")
            if r and r["k"] == "discr":
                e = E(fn, {"c": place_parts(r["p"])[0]})
                if show(e).find("SMALL_SUBGROUP_BASE") >= 0:
                    tests.append(bi)
        if not best:
            rule.undecided(key, "size computation not found", fn.loc)
        elif not tests:
            rule.bad(key, "F::SMALL_SUBGROUP_BASE is never tested: a field without a small subgroup panics in best_mixed_domain_size", fn.loc)
        elif all(any(_reaches_before(fn, tb, bb) for tb in tests) for bb in best):
            rule.ok(key, "F::SMALL_SUBGROUP_BASE? precedes best_mixed_domain_size", fn.loc)
        else:
            rule.bad(key, "best_mixed_domain_size (which unwraps SMALL_SUBGROUP_BASE and SMALL_SUBGROUP_BASE_ADICITY) runs before the `F::SMALL_SUBGROUP_BASE?` test: for a field without a small subgroup construction panics instead of returning None (compute_size_of_domain tests first)", fn.loc)
    # the doubling loop of best_mixed_domain_size must not overflow for large requests
    bfn = [f for f in facts.fns(unit="ws", crate="ark_poly") if f.kind != "Closure" and f.id.endswith("mixed_radix::best_mixed_domain_size")]
    key = "ark_poly|best_mixed_domain_size|doubling-overflow"
    if not bfn:
        rule.bad(key, "anchor missing")
    else:
        fn = bfn[0]
        loops = DF.sccs(fn)
        inloop = set().union(*loops) if loops else set()
        raw = [bi for bi, si, st_ in fn.stmts() if bi in inloop and st_.get("r", {}).get("k") == "bin" and st_["r"]["op"].startswith("Mul") and 2 in (E(fn, st_["r"]["a"]), E(fn, st_["r"]["b"]))]
        checked = [bb for bb, t in fn.calls() if bb in inloop and t["f"].get("name") in ("checked_mul", "saturating_mul", "checked_shl")]
        if raw and not checked:
            rule.bad(key, "the size is doubled with an unchecked `r *= 2` until it reaches the request: for requests above 2^63 (or 3*2^62, ...) the multiplication overflows (panic in debug builds; in release builds r wraps to 0 and the loop never terminates)", fn.loc)
        elif checked:
            rule.ok(key, "doubling is overflow-checked", fn.loc)
        else:
            rule.undecided(key, "doubling loop not recognised", fn.loc)
    # minimality of the mixed-radix size: every shape q^b * 2^a with 0 <= b <= ADICITY and a <= TWO_ADICITY is a candidate
    # (non-strict bounds), and the smallest admissible one is kept
    key = "ark_poly|best_mixed_domain_size|minimal"
    if bfn:
        fn = bfn[0]
        problems = []
        succ = fn.succ()

        def reaches_update(b0):
            seen, st = set(), [b0]
            while st:
                x = st.pop()
                if x in seen:
                    continue
                seen.add(x)
                tt = fn.bbs[x]["t"]
                if tt["k"] == "call" and tt["f"].get("name") == "min":
                    return True
                if tt["k"] == "switch" and x != b0:
                    continue
                st.extend(succ[x])
            return False
        for bi, b in enumerate(fn.bbs):
            t = b["t"]
            if t["k"] != "switch":
                continue
            c = E(fn, t["o"])
            if isinstance(c, tuple) and c[0] == "bin" and c[3] == "TWO_ADICITY" and c[1] in ("Lt", "Le", "Gt", "Ge"):
                false_t, true_t = t["tgts"][0], t["else"]
                if c[1] == "Lt":
                    problems.append("a candidate is accepted only if its two-adicity is strictly below TWO_ADICITY (%s): sizes with the full 2^TWO_ADICITY factor are admissible and may be the minimal ones" % show(c))
                if c[1] == "Ge" and not reaches_update(true_t):
                    problems.append("a candidate with two-adicity == TWO_ADICITY is rejected (%s)" % show(c))
        starts = []
        for bb, t in fn.calls():
            if t["f"].get("name") == "next":
                r = E(fn, t["args"][0])
                if isinstance(r, tuple) and r[0] == "agg" and "Range" in str(r[1]) and len(r[2]) >= 2 and show(r[2][1]).find("SMALL_SUBGROUP_BASE_ADICITY") >= 0:
                    starts.append((r[1], r[2][0]))
                elif isinstance(r, tuple) and r[0] == "call" and r[1] == "new" and len(r[2]) == 2 and show(r[2][1]).find("SMALL_SUBGROUP_BASE_ADICITY") >= 0:
                    starts.append(("RangeInclusive", r[2][0]))      # `a..=b` is RangeInclusive::new(a, b)
        if not starts:
            problems.append("loop over the small-subgroup exponent not found")
        else:
            kind, st0 = starts[0]
            if "Inclusive" not in str(kind) and not (isinstance(kind, str) and kind == "RangeInclusive"):
                # `0..=k` is lowered to RangeInclusive::new(0, k)
                pass
            if st0 != 0:
                problems.append("the search over q^b starts at b = %s: the pure power-of-two shape (b = 0) must be a candidate under the same bounds" % show(st0))
        (rule.bad if problems else rule.ok)(key, "; ".join(problems) if problems else "b ranges over 0..=ADICITY, a candidate is admitted iff two_adicity <= TWO_ADICITY, the minimum is kept", fn.loc)
    # Mixed radix: new and compute_size_of_domain reject when size != q^a * 2^b
    fns = dom_fns(facts, MR)
    for name in ("new", "compute_size_of_domain"):
        fn = fns.get(name)
        key = "ark_poly|MixedRadix::%s|smooth-size" % name
        if fn is None:
            rule.bad(key, "anchor missing")
            continue
        size = C("best_mixed_domain_size", A(1))
        q = "SMALL_SUBGROUP_BASE"
        qpart = C("checked_pow", q, C("k_adicity", q, size))
        tpart = C("checked_pow", 2, C("k_adicity", 2, size))
        prods = [("bin", "Mul", qpart, tpart), ("bin", "Mul", tpart, qpart)]
        found = False
        seen = []
        cands = [E(fn, b["t"]["o"]) for b in fn.bbs if b["t"]["k"] == "switch"] + [E(fn, t["args"][0]) for _, t in fn.calls() if t["f"].get("name") == "then_some"]
        for c in cands:
            if isinstance(c, tuple) and c[0] == "bin" and c[1] in ("Ne", "Eq"):
                seen.append(show(c)[:120])
                sides = (_shallow(c[2]), _shallow(c[3]))
                if (sides[0] == size and _shallow(c[3]) in [_shallow(p) for p in prods]) or (sides[1] == size and _shallow(c[2]) in [_shallow(p) for p in prods]):
                    found = True
        (rule.ok if found else rule.bad)(key, "size compared with q^adicity_q(size) * 2^adicity_2(size)" if found else "no comparison of the size with q^a * 2^b found (seen %s)" % seen[:3], fn.loc)


def _reaches_before(fn, a, b):
    """block a is executed before block b on every path to b (a dominates b), or a == b"""
    if a == b:
        return True
    # b not reachable from entry when a is removed
    succ = fn.succ()
    seen, st = set(), [0]
    while st:
        x = st.pop()
        if x in seen or x == a:
            continue
        seen.add(x)
        if x == b:
            return False
        st.extend(succ[x])
    return True


def _derives(fn, l, src, depth=6):
    """local l is a copy / borrow / into_iter of local src"""
    defs = fn.defs()
    for _ in range(depth):
        if l == src:
            return True
        ds = defs.get(l, [])
        if len(ds) != 1:
            return False
        d = ds[0]
        if d[2] == "call":
            t = d[3]
            if t["f"].get("name") in ("into_iter", "iter", "iter_mut", "enumerate", "rev", "by_ref") and t["args"] and op_local(t["args"][0]) is not None:
                l = op_local(t["args"][0])
                continue
            return False
        r = d[3]["r"]
        if r["k"] in ("use", "cast") and op_local(r["o"]) is not None:
            l = op_local(r["o"])
        elif r["k"] in ("ref", "raw"):
            l = place_parts(r["p"])[0]
        else:
            return False
    return False


def _shallow(t):
    """replace ('deep',) leaves produced by the depth bound inside duplicated sub-terms: compare up to them"""
    if not isinstance(t, tuple):
        return t
    if t == ("deep",):
        return "*"
    return tuple(_shallow(x) for x in t)


# ---- R-ACCESS --------------------------------------------------------------------------------------------

ACCESSORS = {"size_inv": "size_inv", "group_gen": "group_gen", "group_gen_inv": "group_gen_inv", "coset_offset": "offset",
             "coset_offset_inv": "offset_inv", "coset_offset_pow_size": "offset_pow_size", "log_size_of_group": "log_size_of_group",
             "size": "size"}


def check_access(res, facts):
    rule = res.rule("R-ACCESS", "accessors return their own field; GeneralEvaluationDomain forwards every method to its variant", 16 + 14)
    for head in (R2, MR):
        fns = dom_fns(facts, head)
        for name, field in ACCESSORS.items():
            fn = fns.get(name)
            key = "ark_poly|%s::%s" % (SHORT[head], name)
            if fn is None:
                rule.bad(key, "anchor missing")
                continue
            got = E(fn, {"c": 0})
            if isinstance(got, tuple) and got[0] == "call" and got[1] in ("unwrap",):
                got = got[2][0]
            if got == A(1, field):
                rule.ok(key, "returns self.%s" % field, fn.loc)
            else:
                rule.bad(key, "returns %s instead of self.%s" % (show(got), field), fn.loc)
        # elements(): Elements { cur_elem: offset, cur_pow: 0, size, group_gen }
    fns = dom_fns(facts, GEN)
    for name, fn in sorted(fns.items()):
        if fn.trait_impl != DOM or name in ("new", "compute_size_of_domain", "elements"):
            continue
        key = "ark_poly|General::%s" % name
        calls = [t for _, t in fn.calls() if t["f"].get("name") not in DF.TRANSPARENT]
        names = [t["f"].get("name") for t in calls]
        selfs = sorted({(t["f"].get("self_head") or t["f"].get("self") or "").rsplit("::", 1)[-1].split("<")[0] for t in calls if t["f"].get("name") == name})
        inner = [n for n in names if n not in (name,)]
        if names.count(name) == 2 and selfs == ["MixedRadixEvaluationDomain", "Radix2EvaluationDomain"] and all(n in ("Radix2", "MixedRadix", "from_residual") or n == name for n in names):
            # argument forwarding: every forwarded call receives the variant payload and the remaining arguments in order
            okargs = True
            for t in calls:
                if t["f"].get("name") != name:
                    continue
                args = [E(fn, a) for a in t["args"]]
                for i, a in enumerate(args):
                    if i == 0:
                        okargs &= (isinstance(a, tuple) and a[0] == "arg" and a[1] == 1)
                    else:
                        exp = A(i + 1)
                        if name == "get_coset":
                            okargs &= (a == exp)
                        else:
                            okargs &= (a == exp) or (isinstance(a, tuple) and a[0] == "arg" and a[1] == i + 1)
            (rule.ok if okargs else rule.bad)(key, "match self { Radix2(d) => d.%s(..), MixedRadix(d) => d.%s(..) }" % (name, name) if okargs else "arguments are not forwarded in order", fn.loc)
        else:
            rule.bad(key, "does not forward to the same method of both variants (calls %s on %s)" % (names, selfs), fn.loc)


# ---- R-WIRE ----------------------------------------------------------------------------------------------

FORWARD_ROOT = {"oi_helper": 2, "io_helper": 2, "best_fft": 1}


def scaling_closure_ok(facts, fn, t, field):
    """for_each closure multiplies each element by the captured domain's `field`"""
    for cid in closure_args(fn, t):
        clo = facts.get(cid, fn.unit)
        if clo is None:
            continue
        for _, ct in clo.calls():
            if ct["f"].get("name") == "mul_assign" and len(ct["args"]) == 2:
                a, b = E(clo, ct["args"][0]), E(clo, ct["args"][1])
                if a == A(2) and isinstance(b, tuple) and b[0] == "arg" and b[1] == 1 and b[2][-1:] == (field,):
                    return True
    return False


def check_wire(res, facts):
    rule = res.rule("R-WIRE", "forward transforms use group_gen after distributing offset powers on the coset arm; inverse transforms use group_gen_inv and scale by size_inv (and offset_inv powers on the coset arm)", 9)
    r2 = dom_fns(facts, R2)
    mr = dom_fns(facts, MR)
    plan = [
        (R2, r2.get("degree_aware_fft_in_place"), "fwd", True),
        (R2, r2.get("in_order_fft_in_place"), "fwd", True),
        (R2, r2.get("fft_helper_in_place"), "fwd", False),
        (R2, r2.get("ifft_helper_in_place"), "inv", False),
        (R2, r2.get("in_order_ifft_in_place"), "inv", True),
        (MR, mr.get("fft_in_place"), "fwd", True),
        (MR, mr.get("ifft_in_place"), "inv", True),
    ]
    names = ["degree_aware_fft_in_place", "in_order_fft_in_place", "fft_helper_in_place", "ifft_helper_in_place", "in_order_ifft_in_place", "fft_in_place", "ifft_in_place"]
    for (head, fn, direction, coset), nm in zip(plan, names):
        key = "ark_poly|%s::%s" % (SHORT[head], nm)
        if fn is None:
            rule.bad(key, "anchor missing")
            continue
        calls = list(fn.calls())
        want_root = A(1, "group_gen") if direction == "fwd" else A(1, "group_gen_inv")
        transforms = [(bb, t) for bb, t in calls if t["f"].get("name") in FORWARD_ROOT or t["f"].get("name") in ("fft_helper_in_place", "ifft_helper_in_place")]
        problems = []
        if not transforms:
            problems.append("no transform call")
        for bb, t in transforms:
            n = t["f"].get("name")
            if n in FORWARD_ROOT:
                got = E(fn, t["args"][FORWARD_ROOT[n]])
                if got != want_root:
                    problems.append("%s runs with root %s, the %s transform needs %s" % (n, show(got), "forward" if direction == "fwd" else "inverse", show(want_root)))
            elif (n == "fft_helper_in_place") != (direction == "fwd"):
                problems.append("calls %s in the %s transform" % (n, direction))
        if coset and not problems:
            # the is_one(offset) test
            sw = None
            for bi, b in enumerate(fn.bbs):
                t = b["t"]
                if t["k"] == "switch":
                    c = E(fn, t["o"])
                    neg = False
                    if isinstance(c, tuple) and c[0] == "un" and c[1] == "Not":
                        c, neg = c[2], True
                    if c == C("is_one", A(1, "offset")):
                        false_t, true_t = t["tgts"][0], t["else"]
                        # switch operates on (possibly negated) value: value 0 -> tgts[0]
                        one_arm, coset_arm = (false_t, true_t) if neg else (true_t, false_t)
                        sw = (bi, one_arm, coset_arm)
            if sw is None:
                problems.append("no test of self.offset.is_one()")
            else:
                bi, one_arm, coset_arm = sw
                tb = {bb for bb, _ in transforms}
                if direction == "fwd":
                    dist = {bb for bb, t in calls if t["f"].get("name") in ("distribute_powers",) and E(fn, t["args"][1]) == A(1, "offset")}
                    dist |= {bb for bb, t in calls if t["f"].get("name") == "distribute_powers_and_mul_by_const" and E(fn, t["args"][1]) == A(1, "offset") and E(fn, t["args"][2]) == 1}
                    if not dist:
                        problems.append("coefficients are never multiplied by powers of self.offset")
                    elif reaches_avoiding(fn, coset_arm, tb, dist):
                        problems.append("on the coset arm the transform is reachable without distributing powers of the offset")
                    elif any(reaches_avoiding(fn, one_arm, {d}, set()) and not reaches_avoiding(fn, coset_arm, {d}, set()) for d in dist):
                        problems.append("offset powers are distributed on the offset = 1 arm instead of the coset arm")
                    elif any(reaches_avoiding(fn, tbb, dist, set()) for tbb in tb):
                        problems.append("offset powers are distributed after the transform")
                else:
                    scal = {bb for bb, t in calls if t["f"].get("name") == "distribute_powers_and_mul_by_const" and E(fn, t["args"][1]) == A(1, "offset_inv") and E(fn, t["args"][2]) == A(1, "size_inv")}
                    plain = {bb for bb, t in calls if t["f"].get("name") == "for_each" and scaling_closure_ok(facts, fn, t, "size_inv")}
                    rets = {i for i, b in enumerate(fn.bbs) if b["t"]["k"] == "return"}
                    if not scal:
                        problems.append("coset arm does not call distribute_powers_and_mul_by_const(.., offset_inv, size_inv)")
                    elif not plain:
                        problems.append("offset = 1 arm does not multiply every value by size_inv")
                    elif reaches_avoiding(fn, coset_arm, rets, scal):
                        problems.append("a path of the coset arm returns without un-shifting by offset_inv and scaling by size_inv")
                    elif reaches_avoiding(fn, one_arm, rets, plain | scal):
                        problems.append("a path of the offset = 1 arm returns without scaling by size_inv")
                    elif any(reaches_avoiding(fn, s, tb, set()) for s in scal | plain):
                        problems.append("scaling happens before the inverse transform")
        if problems:
            rule.bad(key, "; ".join(problems), fn.loc)
        else:
            rule.ok(key, "%s transform with %s%s" % ("forward" if direction == "fwd" else "inverse", show(want_root), ", coset handling checked on both arms" if coset else ""), fn.loc)
    # entry points delegate
    for nm, targets in (("fft_in_place", {"degree_aware_fft_in_place", "in_order_fft_in_place"}), ("ifft_in_place", {"in_order_ifft_in_place"})):
        fn = r2.get(nm)
        key = "ark_poly|Radix2::%s|entry" % nm
        if fn is None:
            rule.bad(key, "anchor missing")
            continue
        got = {t["f"].get("name") for _, t in fn.calls()} & {"degree_aware_fft_in_place", "in_order_fft_in_place", "in_order_ifft_in_place", "in_order_fft_in_place"}
        ok = got == targets and all(E(fn, t["args"][0]) == A(1) and E(fn, t["args"][1]) == A(2) for _, t in fn.calls() if t["f"].get("name") in targets)
        # resize to the domain size before the in-order transforms
        for bb, t in fn.calls():
            if t["f"].get("name") == "resize":
                ok &= E(fn, t["args"][1]) in (C("size", A(1)), A(1, "size")) and E(fn, t["args"][2]) == 0
        (rule.ok if ok else rule.bad)(key, "delegates to %s on (self, coeffs), padding with zeros to size()" % sorted(targets) if ok else "entry point calls %s" % sorted(got), fn.loc)


# ---- R-BFLY (proof) --------------------------------------------------------------------------------------

def check_bfly(res, facts):
    rule = res.rule("R-BFLY", "butterfly kernels compute (lo+hi, (lo-hi)w) and (lo+hi*w, lo-hi*w) [polynomial identity]", 2)
    r2 = dom_fns(facts, R2)
    lo, hi, w = Q.var("lo"), Q.var("hi"), Q.var("w")
    want = {"butterfly_fn_io": (lo + hi, (lo - hi) * w), "butterfly_fn_oi": (lo + hi * w, lo - hi * w)}
    for nm, (wlo, whi) in want.items():
        fn = r2.get(nm)
        key = "ark_poly|Radix2::%s" % nm
        if fn is None:
            rule.bad(key, "anchor missing")
            continue
        ex = SX.Engine(facts, fn.unit, SX.ring_models(), max_paths=8, max_depth=3, inline_limit=0)
        clo, chi, cw = SX.Cell(SX.Obj(name="lo")), SX.Cell(SX.Obj(name="hi")), SX.Cell(SX.Obj(name="w"))
        arg = SX.Obj(adt="tuple", fields={0: SX.Obj(adt="tuple", fields={0: SX.Ref(clo), 1: SX.Ref(chi)}), 1: SX.Ref(cw)})
        paths = ex.run(fn, [arg])
        if len(paths) != 1 or paths[0].args is None or paths[0].flags & {"cut"}:
            rule.undecided(key, "symbolic evaluation did not produce a single path (%d)" % len(paths), fn.loc)
            continue
        a = paths[0].args.cell(1).v
        try:
            glo = SX.q_of(ex.deref(a.fields[0].fields[0]))
            ghi = SX.q_of(ex.deref(a.fields[0].fields[1]))
        except Exception as e:
            rule.undecided(key, "could not read back results: %s" % e, fn.loc)
            continue
        if glo is None or ghi is None:
            rule.undecided(key, "results are not ring expressions", fn.loc)
        elif qeq(glo, wlo) and qeq(ghi, whi):
            rule.ok(key, "lo' = %s, hi' = %s" % (glo, ghi), fn.loc)
        else:
            rule.bad(key, "kernel computes lo' = %s, hi' = %s; the decimation step needs lo' = %s, hi' = %s" % (glo, ghi, wlo, whi), fn.loc)


# ---- R-POWERS (proof of the loop body + wiring) ----------------------------------------------------------

def run_step_closure(facts, clo_fn, elem_is_arg=True):
    """symbolically run a `|x| { *x *= pow; pow *= g }`-style closure once; returns (x', pow', g', ret)"""
    ex = SX.Engine(facts, clo_fn.unit, SX.ring_models(), max_paths=8, max_depth=3, inline_limit=0)
    cp, cg, cx = SX.Cell(SX.Obj(name="pow")), SX.Cell(SX.Obj(name="g")), SX.Cell(SX.Obj(name="x"))
    ups = clo_fn.d.get("upvars") or []
    fields = {}
    for i, u in enumerate(ups):
        cell = cp if i == 0 else cg
        fields[i] = SX.Ref(cell) if u.get("by") in ("mut", "ref") else cell.v
    env = SX.Obj(adt="closure", variant=clo_fn.id, fields=fields)
    a1 = SX.Ref(SX.Cell(env)) if clo_fn.local_ty(1).startswith("&") else env
    a2 = SX.Ref(cx) if elem_is_arg else 0
    paths = ex.run(clo_fn, [a1, a2])
    if len(paths) != 1 or paths[0].args is None:
        return None
    p = paths[0]
    envv = ex.deref(p.args.cell(1).v)
    try:
        np_ = SX.q_of(ex.deref(envv.fields[0]))
        ng = SX.q_of(ex.deref(envv.fields[1]))
    except Exception:
        return None
    nx = SX.q_of(ex.deref(p.args.cell(2).v)) if elem_is_arg else None
    ret = SX.q_of(ex.deref(p.ret)) if p.ret is not None and not isinstance(p.ret, SX.Top) else None
    return nx, np_, ng, ret


def _ref_local(fn, o, depth=6, chain=None):
    """the local a `&x` / `&mut x` / copy-of-reference operand points at (chain: every local passed on the way)"""
    defs = fn.defs()
    for _ in range(depth):
        l = op_local(o)
        if l is None:
            return None
        if chain is not None:
            chain.add(l)
        ds = defs.get(l, [])
        if len(ds) != 1 or ds[0][2] != "assign":
            return l
        r = ds[0][3]["r"]
        if r["k"] in ("ref", "raw"):
            pl, pp = place_parts(r["p"])
            if chain is not None and not pp:
                chain.add(pl)
            return pl if not pp else None
        if r["k"] == "use" and op_local(r["o"]) is not None:
            o = r["o"]
            continue
        return l
    return None


def loop_step(fn):
    """`for x in xs.iter_mut() { *x *= pow; pow *= g }` written as a plain loop: returns
    {'iter': term of the iterator, 'init': initial value of pow, 'g': advance factor, 'ordered': elem multiply before the
    advance, 'same': the factor of the element multiply is the local that is advanced} for the (single) such loop"""
    out = []
    for scc in DF.sccs(fn):
        nexts = [(bb, t) for bb, t in fn.calls() if bb in scc and t["f"].get("name") == "next"]
        muls = [(bb, t) for bb, t in fn.calls() if bb in scc and t["f"].get("name") == "mul_assign" and len(t["args"]) == 2]
        if len(nexts) != 1 or len(muls) != 2:
            continue
        it = E(fn, nexts[0][1]["args"][0])
        elem = [m for m in muls if isinstance(E(fn, m[1]["args"][0]), tuple) and E(fn, m[1]["args"][0])[:2] == ("call", "next")]
        adv = [m for m in muls if m not in elem]
        if len(elem) != 1 or len(adv) != 1:
            continue
        (eb, et), (ab, at) = elem[0], adv[0]
        fchain = set()
        p_fac, p_adv = _ref_local(fn, et["args"][1], chain=fchain), _ref_local(fn, at["args"][0])
        out.append({"iter": it, "init": E(fn, at["args"][0]), "g": E(fn, at["args"][1]), "ordered": fn.dominates(eb, ab) and eb != ab,
                    "same": p_adv is not None and p_adv in fchain, "elem_factor": E(fn, et["args"][1])})
    return out[0] if len(out) == 1 else None


def check_powers(res, facts, units):
    rule = res.rule("R-POWERS", "coefficient i is multiplied by c*g^i: multiply by the running power, then advance it; start at c (parallel: c*g^(i*chunk), chunk = the chunks_mut length)", 3)
    x, pw, g = Q.var("x"), Q.var("pow"), Q.var("g")
    for unit in units:
        for f in facts.fns(unit=unit, crate="ark_poly"):
            if f.kind == "Closure" or "::tests::" in f.id:
                continue
            if f.id == DOM + "::distribute_powers_and_mul_by_const":
                key = "ark_poly|%s|distribute_powers_and_mul_by_const" % unit
                fes = [(bb, t) for bb, t in f.calls() if t["f"].get("name") == "for_each"]
                if not fes:
                    # serial form written as a plain loop
                    ls = loop_step(f)
                    if ls is None:
                        rule.bad(key, "no loop / for_each over the coefficients that multiplies by a running power", f.loc)
                    else:
                        problems = []
                        if ls["iter"] != C("iter_mut", A(1)):
                            problems.append("the loop runs over %s, not the coefficient slice" % show(ls["iter"])[:80])
                        if not ls["same"]:
                            problems.append("the factor applied to the element is not the running power that is advanced")
                        if not ls["ordered"]:
                            problems.append("the running power is advanced before it is applied (coefficient i would get c*g^(i+1))")
                        if ls["init"] != A(3):
                            problems.append("the running power starts at %s instead of c" % show(ls["init"])[:80])
                        if ls["g"] != A(2):
                            problems.append("the running power is advanced by %s instead of g" % show(ls["g"])[:80])
                        (rule.bad if problems else rule.ok)(key, "; ".join(problems) if problems else "loop: x' = x*pow, pow' = pow*g, pow_0 = c over coeffs.iter_mut()", f.loc)
                    continue
                if len(fes) != 1:
                    rule.bad(key, "expected one for_each over the coefficients", f.loc)
                    continue
                bb, t = fes[0]
                cids = closure_args(f, t)
                clo = facts.get(cids[0], unit) if cids else None
                if clo is None:
                    rule.bad(key, "closure not found", f.loc)
                    continue
                inner_calls = [ct for _, ct in clo.calls() if ct["f"].get("name") == "for_each"]
                chunked = [tt for _, tt in f.calls() if tt["f"].get("name") in ("par_chunks_mut", "chunks_mut")]
                if not inner_calls and chunked:
                    # parallel form whose per-chunk body is a plain loop
                    ls = loop_step(clo)
                    outer_ups = E(f, t["args"][1])
                    problems = []
                    if ls is None:
                        problems.append("no loop over the chunk that multiplies by a running power")
                    elif not (isinstance(outer_ups, tuple) and outer_ups[0] == "agg" and len(outer_ups[2]) == 3):
                        problems.append("outer closure captures %s" % show(outer_ups))
                    else:
                        caps = list(outer_ups[2])
                        try:
                            ic, ig = caps.index(A(3)), caps.index(A(2))
                        except ValueError:
                            ic = ig = None
                        if ic is None:
                            problems.append("captures %s do not include c and g" % show(outer_ups))
                        else:
                            ich = [k for k in range(3) if k not in (ic, ig)][0]
                            if E(f, chunked[0]["args"][1]) != caps[ich]:
                                problems.append("the exponent stride %s is not the chunk length %s handed to chunks_mut" % (show(caps[ich]), show(E(f, chunked[0]["args"][1]))))
                            if E(f, chunked[0]["args"][0]) != A(1):
                                problems.append("chunks are not taken over the coefficient slice")
                            cc, gg, ch = A(1, str(ic)), A(1, str(ig)), A(1, str(ich))
                            pws = [("pow", gg, ("bin", "Mul", A(2, "0"), ch)), ("pow", gg, ("bin", "Mul", ch, A(2, "0")))]
                            starts = [("call", "mul", (cc, p_)) for p_ in pws] + [("call", "mul", (p_, cc)) for p_ in pws]
                            if ls["init"] not in starts:
                                problems.append("chunk i starts at %s instead of c*g^(i*chunk)" % show(ls["init"])[:120])
                            if ls["g"] != gg:
                                problems.append("the running power is advanced by %s instead of g" % show(ls["g"])[:80])
                            if ls["iter"] != C("iter_mut", A(2, "1")):
                                problems.append("inner loop does not run over the chunk")
                            if not ls["same"]:
                                problems.append("the factor applied to the element is not the running power that is advanced")
                            if not ls["ordered"]:
                                problems.append("the running power is advanced before it is applied")
                            if "enumerate" not in [tt["f"].get("name") for _, tt in f.calls()]:
                                problems.append("chunks are not enumerated")
                    (rule.bad if problems else rule.ok)(key, "; ".join(problems) if problems else "chunk i starts at c*g^(i*chunk) with the chunks_mut length; loop body x' = x*pow, pow' = pow*g", f.loc)
                    continue
                if not inner_calls:
                    # serial form: closure captures (pow, g); pow initialised to c (arg3)
                    r = run_step_closure(facts, clo)
                    ups = E(f, t["args"][1])
                    init_ok = isinstance(ups, tuple) and ups[0] == "agg" and len(ups[2]) == 2 and ups[2][0] == A(3) and ups[2][1] == A(2)
                    if r is None:
                        rule.undecided(key, "closure body not evaluable", clo.loc)
                    elif qeq(r[0], x * pw) and qeq(r[1], pw * g) and qeq(r[2], g) and init_ok and E(f, t["args"][0]) == C("iter_mut", A(1)):
                        rule.ok(key, "x' = x*pow, pow' = pow*g, pow_0 = c over coeffs.iter_mut()", f.loc)
                    else:
                        rule.bad(key, "loop body computes x' = %s, pow' = %s with captures %s: coefficient i would not be multiplied by c*g^i" % (r[0], r[1], show(ups)), clo.loc)
                else:
                    # parallel form: outer closure per (i, chunk)
                    chunk_calls = [tt for _, tt in f.calls() if tt["f"].get("name") in ("par_chunks_mut", "chunks_mut")]
                    it = inner_calls[0]
                    icids = closure_args(clo, it)
                    pass
                    iclo = facts.get(icids[0], unit) if icids else None
                    r = run_step_closure(facts, iclo) if iclo is not None else None
                    ups = E(clo, it["args"][1])
                    outer_ups = E(f, t["args"][1])
                    # outer captures: (c, g, chunk) by position as listed in upvars
                    problems = []
                    if r is None or not (qeq(r[0], x * pw) and qeq(r[1], pw * g) and qeq(r[2], g)):
                        problems.append("inner loop body is x' = %s, pow' = %s" % ((r[0], r[1]) if r else ("?", "?")))
                    if not (isinstance(outer_ups, tuple) and outer_ups[0] == "agg" and len(outer_ups[2]) == 3):
                        problems.append("outer closure captures %s" % show(outer_ups))
                    else:
                        cap_c, cap_g, cap_chunk = outer_ups[2]
                        if cap_c != A(3) or cap_g != A(2):
                            problems.append("captures (c, g) = (%s, %s)" % (show(cap_c), show(cap_g)))
                        if not chunk_calls or E(f, chunk_calls[0]["args"][1]) != cap_chunk:
                            problems.append("the exponent stride %s is not the chunk length %s handed to chunks_mut" % (show(cap_chunk), show(E(f, chunk_calls[0]["args"][1])) if chunk_calls else None))
                        if chunk_calls and E(f, chunk_calls[0]["args"][0]) != A(1):
                            problems.append("chunks are not taken over the coefficient slice")
                    start = ("call", "mul", (A(1, "0"), ("pow", A(1, "1"), ("bin", "Mul", A(2, "0"), A(1, "2")))))
                    start2 = ("call", "mul", (A(1, "0"), ("pow", A(1, "1"), ("bin", "Mul", A(1, "2"), A(2, "0")))))
                    if not (isinstance(ups, tuple) and ups[0] == "agg" and len(ups[2]) == 2 and ups[2][0] in (start, start2) and ups[2][1] == A(1, "1")):
                        problems.append("chunk i starts at %s instead of c*g^(i*chunk)" % show(ups))
                    if E(clo, it["args"][0]) != C("iter_mut", A(2, "1")):
                        problems.append("inner loop does not run over the chunk")
                    if "enumerate" not in [tt["f"].get("name") for _, tt in f.calls()]:
                        problems.append("chunks are not enumerated")
                    (rule.bad if problems else rule.ok)(key, "; ".join(problems) if problems else "chunk i starts at c*g^(i*chunk) with the chunks_mut length; body x' = x*pow, pow' = pow*g", f.loc)
            if f.id.endswith("utils::compute_powers_and_mul_by_const_serial"):
                key = "ark_poly|%s|compute_powers_and_mul_by_const_serial" % unit
                maps = [(bb, t) for bb, t in f.calls() if t["f"].get("name") == "map"]
                cids = closure_args(f, maps[0][1]) if maps else []
                clo = facts.get(cids[0], unit) if cids else None
                if clo is None:
                    rule.bad(key, "map closure not found", f.loc)
                    continue
                r = run_step_closure(facts, clo, elem_is_arg=False)
                ups = E(f, maps[0][1]["args"][1])
                rng = E(f, maps[0][1]["args"][0])
                init_ok = isinstance(ups, tuple) and ups[0] == "agg" and len(ups[2]) == 2 and ups[2][0] == A(3) and ups[2][1] == A(2)
                rng_ok = rng == ("agg", "Range", (0, A(1)))
                if r is None:
                    rule.undecided(key, "closure body not evaluable", clo.loc)
                elif qeq(r[3], pw) and qeq(r[1], pw * g) and init_ok and rng_ok:
                    rule.ok(key, "yields pow then pow' = pow*root, pow_0 = c, over 0..size", f.loc)
                else:
                    rule.bad(key, "element i is %s, next power %s, captures %s over %s: the table would not be c, c*g, c*g^2, ..." % (r[3], r[1], show(ups), show(rng)), f.loc)


# ---- R-ROOT ----------------------------------------------------------------------------------------------

def check_root(res, facts, semantic=False):
    """`semantic`: R-ROOT.order evaluated the body for every n of its range (both configurations).  Then a body that does
    not match the loop template below is not a violation here -- its result is decided by that evaluation, whatever the
    shape (one exponentiation instead of a loop, merged arms) -- and the template clauses only document the pinned shape."""
    rule = res.rule("R-ROOT", "get_root_of_unity: start value, (configured - requested) adicity many q-th powerings / squarings, rejection conditions", 5)
    _bad = rule.bad

    def shape_bad(key, msg, loc=""):
        if semantic and "anchor missing" not in msg:
            rule.ok(key, "loop template not matched (%s); the order of the returned element is decided by evaluation under R-ROOT.order" % msg[:120], loc)
        else:
            _bad(key, msg, loc)
    rule.bad = shape_bad
    fns = [f for f in facts.fns(unit="ws", crate="ark_ff") if f.id == "ark_ff::fields::fft_friendly::FftField::get_root_of_unity"]
    if not fns:
        rule.bad("ark_ff|FftField::get_root_of_unity", "anchor missing")
        return
    fn = fns[0]
    loops = DF.sccs(fn)
    q = C("expect", "SMALL_SUBGROUP_BASE")
    found = {}
    for bb, t in fn.calls():
        if t["f"].get("name") != "next":
            continue
        rng = E(fn, t["args"][0])
        body = None
        for scc in loops:
            if bb in scc:
                body = scc
        if body is None or not (isinstance(rng, tuple) and rng[0] == "agg" and rng[1] == "Range"):
            continue
        ops = sorted({tt["f"].get("name") for b2, tt in fn.calls() if b2 in body and tt["f"].get("name") not in ("next",) and tt["f"].get("name") not in DF.TRANSPARENT})
        pow_exp = [E(fn, tt["args"][1]) for b2, tt in fn.calls() if b2 in body and tt["f"].get("name") == "pow"]
        found[(rng[2], tuple(ops))] = pow_exp
    n = A(1)

    def strip(t):
        # expect(...)/unwrap wrappers around Option constants are transparent in DF.expr; constants appear by name
        return t
    want = [
        ("q-powering", (C("k_adicity", "SMALL_SUBGROUP_BASE", n), "SMALL_SUBGROUP_BASE_ADICITY"), ("pow",)),
        ("squaring (mixed)", (C("k_adicity", 2, n), "TWO_ADICITY"), ("square_in_place",)),
        ("squaring (radix-2)", (C("log2", C("next_power_of_two", n)), "TWO_ADICITY"), ("square_in_place",)),
    ]
    def roots(t, seen=None, depth=0):
        """named constants the value may originate from, following merges (phi) through their definitions"""
        seen = set() if seen is None else seen
        out = set()
        if isinstance(t, str):
            return {t}
        if not isinstance(t, tuple) or depth > 12:
            return out
        if t and t[0] == "phi":
            if (t[1], t[2]) in seen:
                return out
            seen.add((t[1], t[2]))
            for a in DF.phi_alts(fn, t) or []:
                out |= roots(norm(a), seen, depth + 1)
            return out
        for x in t:
            if isinstance(x, (tuple, str)):
                out |= roots(x, seen, depth + 1)
        return out

    # a loop whose lower bound is a merge of the two arms' adicities (`let (omega, two_adicity) = if .. {..} else {..}`)
    # stands for one loop per arm: expand it, and pair each bound with the start value of the same arm
    expanded = {}
    for (rng, ops), pw in found.items():
        alts = DF.phi_alts(fn, rng[0]) if isinstance(rng[0], tuple) and rng[0][0] == "phi" else None
        if alts and len(alts) > 1:
            l, sel = rng[0][1], rng[0][2]
            for d, a in zip(fn.defs().get(l, []), alts):
                a = norm(a)
                expanded[((a, rng[1]), ops)] = pw
                if d[2] == "assign" and d[3]["r"]["k"] == "agg" and len(sel) == 1:
                    others = [norm(E(fn, o)) for i, o in enumerate(d[3]["r"]["ops"]) if str(i) != sel[0]]
                    rs = set().union(*[roots(o) for o in others]) & {"TWO_ADIC_ROOT_OF_UNITY", "LARGE_SUBGROUP_ROOT_OF_UNITY"}
                    wantr = {"LARGE_SUBGROUP_ROOT_OF_UNITY"} if a == C("k_adicity", 2, n) else {"TWO_ADIC_ROOT_OF_UNITY"} if a == C("log2", C("next_power_of_two", n)) else None
                    if wantr is not None and rs and rs != wantr:
                        rule.bad("ark_ff|FftField::get_root_of_unity|pairing", "the arm that squares %s..TWO_ADICITY times starts from %s instead of %s" % (show(a), sorted(rs), sorted(wantr)), fn.loc)
        else:
            expanded[(rng, ops)] = pw
    found = expanded
    for label, rng, ops in want:
        key = "ark_ff|FftField::get_root_of_unity|%s" % label
        hit = [(k, v) for k, v in found.items() if k[0] == rng and k[1] == ops]
        if hit:
            if ops == ("pow",) and hit[0][1] != [("agg", "array", ("SMALL_SUBGROUP_BASE",))] and hit[0][1] != ["SMALL_SUBGROUP_BASE"]:
                rule.bad(key, "the loop raises to %s instead of the small-subgroup base q" % [show(x) for x in hit[0][1]], fn.loc)
            else:
                rule.ok(key, "for _ in %s..%s { %s }" % (show(rng[0]), show(rng[1]), ops[0]), fn.loc)
        else:
            rule.bad(key, "no loop `for _ in %s..%s` performing %s (loops found: %s): the returned element would not have order n" % (show(rng[0]), show(rng[1]), ops[0], [(show(k[0][0]), show(k[0][1]), k[1]) for k in found]), fn.loc)
    extra = [k for k in found if k[1] in (("pow",), ("square_in_place",)) and not any(k[0] == rng and k[1] == ops for _, rng, ops in want)]
    if extra:
        rule.bad("ark_ff|FftField::get_root_of_unity|extra", "additional powering loop(s) %s" % [(show(k[0][0]), show(k[0][1]), k[1]) for k in extra], fn.loc)
    # rejection conditions
    conds = []
    for b in fn.bbs:
        t = b["t"]
        if t["k"] == "switch":
            c = E(fn, t["o"])
            if isinstance(c, tuple) and c[0] == "bin":
                conds.append(_shallow(c))
    qpart = C("checked_pow", "SMALL_SUBGROUP_BASE", C("k_adicity", "SMALL_SUBGROUP_BASE", n))
    tpart = C("checked_pow", 2, C("k_adicity", 2, n))
    need = {
        "n != 2^a * q^b": [("bin", "Ne", n, ("bin", "Mul", tpart, qpart)), ("bin", "Ne", n, ("bin", "Mul", qpart, tpart))],
        "two_adicity > TWO_ADICITY": [("bin", "Gt", C("k_adicity", 2, n), "TWO_ADICITY")],
        "q_adicity > SMALL_SUBGROUP_BASE_ADICITY": [("bin", "Gt", C("k_adicity", "SMALL_SUBGROUP_BASE", n), "SMALL_SUBGROUP_BASE_ADICITY")],
        "n != next_power_of_two(n)": [("bin", "Ne", n, C("next_power_of_two", n))],
        "log2(n) > TWO_ADICITY": [("bin", "Gt", C("log2", C("next_power_of_two", n)), "TWO_ADICITY")],
    }
    missing = [k for k, alts in need.items() if not any(_shallow(a) in conds for a in alts)]
    key = "ark_ff|FftField::get_root_of_unity|rejections"
    (rule.bad if missing else rule.ok)(key, "missing rejection condition(s): %s (conditions present: %s)" % (missing, [show(c)[:80] for c in conds]) if missing else "all five rejection conditions present", fn.loc)
    # start values
    key = "ark_ff|FftField::get_root_of_unity|start"
    starts = roots(norm(E(fn, {"c": 0}))) & {"TWO_ADIC_ROOT_OF_UNITY", "LARGE_SUBGROUP_ROOT_OF_UNITY"}
    (rule.ok if starts == {"TWO_ADIC_ROOT_OF_UNITY", "LARGE_SUBGROUP_ROOT_OF_UNITY"} else rule.bad)(key, "omega starts at %s" % sorted(starts), fn.loc)


# ---- R-VANISH --------------------------------------------------------------------------------------------

def check_vanish(res, facts):
    rule = res.rule("R-VANISH", "vanishing polynomial x^size - offset^size (both forms), element(i) = offset*g^i, Elements iterator", 6)
    tfns = {}
    for f in facts.fns(unit="ws", crate="ark_poly"):
        if f.kind != "Closure" and f.id.startswith(DOM + "::"):
            tfns[f.name] = f
    # evaluate_vanishing_polynomial
    fn = tfns.get("evaluate_vanishing_polynomial")
    key = "ark_poly|EvaluationDomain::evaluate_vanishing_polynomial"
    if fn is None:
        rule.bad(key, "anchor missing")
    else:
        got = E(fn, {"c": 0})
        want = C("sub", ("pow", A(2), C("size", A(1))), C("coset_offset_pow_size", A(1)))
        (rule.ok if got == want else rule.bad)(key, "tau^size - offset^size" if got == want else "returns %s; Z_H(tau) = tau^size - offset^size" % show(got), fn.loc)
    fn = tfns.get("vanishing_polynomial")
    key = "ark_poly|EvaluationDomain::vanishing_polynomial"
    if fn is None:
        rule.bad(key, "anchor missing")
    else:
        terms = []
        for bi, si, s in fn.stmts():
            r = s.get("r")
            if r and r["k"] == "agg" and r.get("ak") == "array" and len(r["ops"]) == 2:
                terms = [E(fn, o) for o in r["ops"]]
        want = [("agg", "tuple", (0, C("neg", C("coset_offset_pow_size", A(1))))), ("agg", "tuple", (C("size", A(1)), 1))]
        ok = terms == want and any(t["f"].get("name") == "from_coefficients_vec" for _, t in fn.calls())
        (rule.ok if ok else rule.bad)(key, "[(0, -offset^size), (size, 1)]" if ok else "terms are %s; expected [(0, -offset^size), (size, 1)]" % [show(t) for t in terms], fn.loc)
    fn = tfns.get("element")
    key = "ark_poly|EvaluationDomain::element"
    if fn is None:
        rule.bad(key, "anchor missing")
    else:
        base = ("pow", C("group_gen", A(1)), A(2))
        muls = [(bb, t) for bb, t in fn.calls() if t["f"].get("name") == "mul_assign"]
        ok = len(muls) == 1 and E(fn, muls[0][1]["args"][0]) == base and E(fn, muls[0][1]["args"][1]) == C("coset_offset", A(1))
        # the multiplication is skipped only when the offset is one
        if ok:
            cd = DF.control_deps(fn)
            guards = [E(fn, fn.bbs[sw]["t"]["o"]) for (sw, succ) in cd.get(muls[0][0], ())]
            ok = all(g in (C("is_one", C("coset_offset", A(1))), ("un", "Not", C("is_one", C("coset_offset", A(1))))) for g in guards)
        ret = E(fn, {"c": 0})
        ok = ok and ret == base
        (rule.ok if ok else rule.bad)(key, "group_gen^i, times coset_offset unless it is one" if ok else "element(i) is built as %s with multiplications %s" % (show(ret), [(show(E(fn, t["args"][0])), show(E(fn, t["args"][1]))) for _, t in muls]), fn.loc)
    # elements() constructors
    for head in (R2, MR):
        fn = dom_fns(facts, head).get("elements")
        key = "ark_poly|%s::elements" % SHORT[head]
        if fn is None:
            rule.bad(key, "anchor missing")
            continue
        got = E(fn, {"c": 0})
        want = ("agg", "Elements", (A(1, "offset"), 0, A(1, "size"), A(1, "group_gen")))
        (rule.ok if got == want else rule.bad)(key, "Elements { cur_elem: offset, cur_pow: 0, size, group_gen }" if got == want else "iterator starts as %s" % show(got), fn.loc)
    # Elements::next
    nx = [f for f in facts.fns(unit="ws", crate="ark_poly") if f.name == "next" and f.self_head == "ark_poly::domain::utils::Elements" and f.kind != "Closure"]
    key = "ark_poly|Elements::next"
    if not nx:
        rule.bad(key, "anchor missing")
    else:
        fn = nx[0]
        ex = SX.Engine(facts, "ws", SX.ring_models(), max_paths=8, max_depth=3, inline_limit=0)
        it = SX.Obj(adt="ark_poly::domain::utils::Elements", fields={0: SX.Obj(name="cur"), 1: SX.Obj(name="k"), 2: SX.Obj(name="n"), 3: SX.Obj(name="g")})
        paths = ex.run(fn, [SX.Ref(SX.Cell(it))])
        outcomes = []
        for p in paths:
            if p.args is None:
                continue
            o = ex.deref(p.args.cell(1).v)
            rv = p.ret
            kind = rv.variant if isinstance(rv, SX.Obj) else None
            payload = SX.q_of(ex.deref(rv.fields[0])) if kind == "Some" and rv.fields else None
            cur = SX.q_of(o.fields[0])
            k = SX.q_of(o.fields[1])
            conds = [(c.kind, c.neg, str(c.a), str(c.b)) for c in p.assume]
            outcomes.append((kind, payload, cur, k, conds))
        cur, g, k, n = Q.var("cur"), Q.var("g"), Q.var("k"), Q.var("n")
        somes = [o for o in outcomes if o[0] == "Some"]
        nones = [o for o in outcomes if o[0] == "None"]
        ok = len(somes) == 1 and len(nones) == 1 and qeq(somes[0][1], cur) and qeq(somes[0][2], cur * g) and qeq(nones[0][2], cur)
        # the counter: switch on cur_pow == size, cur_pow += 1 on the Some arm only
        conds = [E(fn, b["t"]["o"]) for b in fn.bbs if b["t"]["k"] == "switch"]
        cmp_ok = any(c in (("bin", "Eq", A(1, "cur_pow"), A(1, "size")), ("bin", "Eq", A(1, "size"), A(1, "cur_pow")), ("bin", "Ge", A(1, "cur_pow"), A(1, "size"))) for c in conds)
        incs = []
        for bi, si, st_ in fn.stmts():
            if "d" in st_:
                l, projs = place_parts(st_["d"])
                if l == 1 and DF._fields(projs) == ("cur_pow",) and st_["r"]["k"] == "use":
                    incs.append(E(fn, st_["r"]["o"]))
        inc_ok = incs == [("bin", "Add", A(1, "cur_pow"), 1)]
        if ok and not (cmp_ok and inc_ok):
            outcomes.append(("counter", conds, incs))
        ok = ok and cmp_ok and inc_ok
        (rule.ok if ok else rule.bad)(key, "None when cur_pow == size; else yields cur_elem, cur_elem *= group_gen, cur_pow += 1" if ok else "iterator step outcomes: %s" % [(o[0], str(o[1]), str(o[2]), str(o[3]), o[4]) for o in outcomes], fn.loc)


# ---- R-PASS ----------------------------------------------------------------------------------------------

def check_pass(res, facts):
    """each merge pass of serial_mixed_radix_fft has one radix r, visible in three places that must agree with each
    other and with the loop's trip count: twiddle base omega^(n/(r*m)), block stride k += r*m, and m *= r"""
    rule = res.rule("R-PASS", "mixed-radix merge passes: twiddle base omega^(n/(r*m)), block stride r*m and m *= r use the pass's own radix (q for the q_adicity passes, 2 for the two_adicity passes)", 2)
    fns = [f for f in facts.fns(unit="ws", crate="ark_poly") if f.id.endswith("mixed_radix::serial_mixed_radix_fft") and f.kind != "Closure"]
    if not fns:
        rule.bad("ark_poly|serial_mixed_radix_fft", "anchor missing")
        return
    fn = fns[0]
    n = C("len", A(1))
    Qn = "SMALL_SUBGROUP_BASE"
    expect = {C("k_adicity", Qn, n): Qn, A(3): 2}
    loops = DF.sccs(fn)
    seen = 0
    for scc in loops:
        ends = []
        for bb, t in fn.calls():
            if bb in scc and t["f"].get("name") == "next":
                r = E(fn, t["args"][0])
                if isinstance(r, tuple) and r[0] == "agg" and r[1] == "Range" and r[2][0] == 0 and r[2][1] in expect:
                    ends.append(r[2][1])
        if len(ends) != 1:
            continue
        radix = expect[ends[0]]
        label = "q-passes" if radix == Qn else "2-passes"
        key = "ark_poly|serial_mixed_radix_fft|%s" % label
        seen += 1
        problems = []
        tw = []
        for bb, t in fn.calls():
            if bb in scc and t["f"].get("name") == "pow" and E(fn, t["args"][0]) == A(2):
                e = E(fn, t["args"][1])
                if isinstance(e, tuple) and e[0] == "agg":
                    e = e[2][0]
                tw.append(e)
        m_local = None
        tw_r = []
        for e in tw:
            # pow(omega, [n / (r*m)]) normalises to ('pow', omega, Div(n, Mul(r, phi m)))
            ex = e[2] if isinstance(e, tuple) and e[0] == "pow" else e
            if isinstance(ex, tuple) and ex[0] == "bin" and ex[1] == "Div" and ex[2] == n and isinstance(ex[3], tuple) and ex[3][0] == "bin" and ex[3][1] == "Mul":
                a, b = ex[3][2], ex[3][3]
                for r_, m_ in ((a, b), (b, a)):
                    if isinstance(m_, tuple) and m_[0] == "phi":
                        tw_r.append(r_)
                        m_local = m_[1]
        if len(tw_r) != 1:
            problems.append("twiddle base is not of the form omega^(n/(r*m)) (found %s)" % [show(x) for x in tw])
        else:
            if tw_r[0] != radix:
                problems.append("twiddle base is omega^(n/(%s*m)) but this loop runs the radix-%s passes: w_m would not be a primitive (%s*m)-th root of unity" % (show(tw_r[0]), show(radix), show(radix)))
            upd, strides = [], []
            for bi, si, st_ in fn.stmts():
                if bi not in scc or "d" not in st_ or st_["r"]["k"] != "use":
                    continue
                l, projs = place_parts(st_["d"])
                if projs:
                    continue
                e = E(fn, st_["r"]["o"])
                if isinstance(e, tuple) and e[0] == "bin" and e[1] == "Mul" and l == m_local:
                    other = e[3] if e[2] == ("phi", m_local, ()) else (e[2] if e[3] == ("phi", m_local, ()) else None)
                    upd.append(other)
                if isinstance(e, tuple) and e[0] == "bin" and e[1] == "Add" and e[2] == ("phi", l, ()) and isinstance(e[3], tuple) and e[3][0] == "bin" and e[3][1] == "Mul" and ("phi", m_local, ()) in (e[3][2], e[3][3]):
                    strides.append(e[3][2] if e[3][3] == ("phi", m_local, ()) else e[3][3])
            # the block stride may also be expressed through an iterator: (0..n).step_by(r*m) or a.chunks_mut(r*m)
            for bb, t in fn.calls():
                if t["f"].get("name") in ("step_by", "chunks", "chunks_mut", "chunks_exact", "chunks_exact_mut") and len(t["args"]) == 2:
                    e = E(fn, t["args"][1])
                    if isinstance(e, tuple) and e[0] == "bin" and e[1] == "Mul" and ("phi", m_local, ()) in (e[2], e[3]):
                        # attribute the call to this pass when its result is consumed inside the pass's loop
                        dl = place_parts(t["d"])[0]
                        used_in = any(b2 in scc for b2, t2 in fn.calls() if any(op_local(a) == dl or (op_local(a) is not None and _derives(fn, op_local(a), dl)) for a in t2["args"]))
                        if bb in scc or used_in:
                            strides.append(e[2] if e[3] == ("phi", m_local, ()) else e[3])
            if upd != [radix]:
                problems.append("m is advanced by %s instead of %s" % ([show(u) for u in upd], show(radix)))
            if strides != [radix]:
                problems.append("block stride is %s*m instead of %s*m" % ([show(u) for u in strides], show(radix)))
        (rule.bad if problems else rule.ok)(key, "; ".join(problems) if problems else "r = %s in twiddle base, block stride and m update" % show(radix), fn.loc)
    if seen != 2:
        rule.bad("ark_poly|serial_mixed_radix_fft|passes", "expected two pass loops (0..q_adicity and 0..two_adicity), found %d" % seen, fn.loc)


# ---- R-PARFFT ---------------------------------------------------------------------------------------------

def _expo(t, names):
    """exponent of `base` in a term built from pow(base, e) / pow(pow(base, a), b): returns (base term, exponent polynomial)"""
    from rules.c17 import to_q, NotPoly

    def leaf(x):
        if x in names:
            return names[x]
        return "<%s>" % show(x)
    e = Q.const(1)
    while isinstance(t, tuple) and t[0] == "pow":
        e = e * to_q(t[2], leaf)
        t = t[1]
    return t, e


def check_parfft(res, facts):
    """parallel_fft splits the transform into num_cosets sub-transforms: coset k uses the polynomial
    sum_c a[i + c*coset_size] * omega^(k*(i + c*coset_size)); visible in the code as omega_k = omega^k (per i),
    omega_step = omega^(k*coset_size) (per c), sub-transform root omega^num_cosets, and the final interleave
    a[i] = tmp[i mod num_cosets][i / num_cosets]."""
    rule = res.rule("R-PARFFT", "parallel_fft: twiddles omega^k and omega^(k*coset_size), sub-root omega^num_cosets, gather index i + c*coset_size, interleave i -> (i mod cosets, i / cosets)", 3)
    fns = {}
    for f in facts.fns(unit="par", crate="ark_poly"):
        if "domain::utils::parallel_fft" in f.id:
            fns[f.id.split("parallel_fft", 1)[1]] = f
    par, c0, c00, c1 = fns.get(""), fns.get("::{closure#0}"), fns.get("::{closure#0}::{closure#0}"), fns.get("::{closure#1}")
    if not all((par, c0, c00, c1)):
        rule.bad("ark_poly|parallel_fft", "anchor missing (found %s)" % sorted(fns))
        return
    key = "ark_poly|parallel_fft|split"
    problems = []
    fe = [t for _, t in par.calls() if t["f"].get("name") == "for_each"]
    env0 = E(par, fe[0]["args"][1]) if fe else None
    omega, m = A(2), C("len", A(1))
    nt = ("bin", "Shl", 1, A(4))
    cs = ("bin", "Div", m, nt)
    if not (isinstance(env0, tuple) and env0[0] == "agg"):
        problems.append("outer closure environment is %s" % (show(env0) if env0 else None))
    else:
        ops = env0[2]
        idx = {}
        for i, op in enumerate(ops):
            if op == omega:
                idx["omega"] = i
            elif op == cs:
                idx["cs"] = i
            elif op == nt:
                idx["nt"] = i
            elif op == A(1):
                idx["a"] = i
            elif op == A(5):
                idx["fft"] = i
            elif isinstance(op, tuple) and op[0] == "pow" and op[1] == omega and op[2] == nt:
                idx["new_omega"] = i
            elif isinstance(op, tuple) and op[0] == "call" and op[1] == "k_adicity":
                idx["adic"] = i

        def sub(t):
            """replace captured values (arg1.<i>) by the parent's expressions"""
            if not isinstance(t, tuple) or not t:
                return t
            if t[0] == "arg" and t[1] == 1 and t[2] and isinstance(t[2][0], str) and t[2][0].isdigit() and int(t[2][0]) < len(ops):
                base = ops[int(t[2][0])]
                return base if len(t[2]) == 1 else ("proj", base, t[2][1:])
            return tuple(sub(x) for x in t)
        if len(idx) != 7:
            problems.append("could not identify the captures omega, coset_size, num_threads, a, serial_fft, omega^num_cosets, k_adicity(2, coset_size) (found %s in %s)" % (sorted(idx), show(env0)[:300]))
        else:
            b, e = _expo(ops[idx["new_omega"]], {nt: "nt"})
            if b != omega or not qeq(e, Q.var("nt")):
                problems.append("sub-transform root is %s, expected omega^num_cosets" % show(ops[idx["new_omega"]]))
            if ops[idx["adic"]] != C("k_adicity", 2, cs):
                problems.append("sub-transform two-adicity is %s, expected k_adicity(2, coset_size)" % show(ops[idx["adic"]]))
            U = lambda n: A(1, str(idx[n]))
            k = A(2, "0")
            names = {k: "k", U("cs"): "cs", U("nt"): "nt", cs: "cs", nt: "nt"}
            pows = [sub(E(c0, {"c": place_parts(t["d"])[0]})) for _, t in c0.calls() if t["f"].get("name") == "pow"]
            U_omega = omega
            exps = []
            for p_ in pows:
                b, e = _expo(p_, names)
                exps.append((b, e))
            want_k = any(b == omega and qeq(e, Q.var("k")) for b, e in exps)
            want_step = any(b == omega and qeq(e, Q.var("k") * Q.var("cs")) for b, e in exps)
            if not want_k:
                problems.append("no twiddle omega^k per coset (found %s)" % [show(p_) for p_ in pows])
            if not want_step:
                problems.append("the per-block twiddle is %s (exponent %s); coset k needs omega^(k*coset_size), which differs unless coset_size is a power of two" % ([show(p_)[:120] for p_ in pows if not (_expo(p_, names)[0] == omega and qeq(_expo(p_, names)[1], Q.var("k")))], [str(_expo(p_, names)[1]) for p_ in pows if not qeq(_expo(p_, names)[1], Q.var("k"))]))
            # the indirect call to the serial transform receives (chunk, new_omega, new_two_adicity)
            ind = [t for _, t in c0.calls() if t["f"].get("name") is None]
            if not ind or [E(c0, a) for a in ind[0]["args"][1:]] != [U("new_omega"), U("adic")]:
                problems.append("sub-transform is not called with (new_omega, new_two_adicity)")
            # inner closure environment
            fe0 = [t for _, t in c0.calls() if t["f"].get("name") == "for_each"]
            env00 = E(c0, fe0[0]["args"][1]) if fe0 else None
            if isinstance(env00, tuple) and env00[0] == "agg":
                in_idx = {}
                for i, op in enumerate(env00[2]):
                    if op == U("nt"):
                        in_idx["nt"] = i
                    elif op == U("cs"):
                        in_idx["cs"] = i
                    elif op == U("a"):
                        in_idx["a"] = i
                    elif op == 1:
                        in_idx["elt"] = i
                    elif isinstance(op, tuple) and op[0] == "pow":
                        b, e = _expo(op, names)
                        if qeq(e, Q.var("k")):
                            in_idx["omega_k"] = i
                        else:
                            in_idx["omega_step"] = i
                if len(in_idx) != 6:
                    problems.append("inner closure captures %s" % show(env00))
                else:
                    V = lambda n: A(1, str(in_idx[n]))
                    loops = DF.sccs(c00)
                    inloop = set().union(*loops) if loops else set()
                    muls = [(bb, E(c00, t["args"][0]), E(c00, t["args"][1])) for bb, t in c00.calls() if t["f"].get("name") == "mul_assign"]
                    step_in = [1 for bb, a_, b_ in muls if a_ == V("elt") and b_ == V("omega_step") and bb in inloop]
                    k_out = [1 for bb, a_, b_ in muls if a_ == V("elt") and b_ == V("omega_k") and bb not in inloop]
                    if len(step_in) != 1 or len(k_out) != 1:
                        problems.append("elt is advanced by %s: expected omega_step inside the block loop and omega_k once per output coefficient" % [(show(a_), show(b_), bb in inloop) for bb, a_, b_ in muls if a_ == V("elt")])
                    gathers = [a_ for bb, a_, b_ in muls if b_ == V("elt")]
                    cvar = ("iter", 0, V("nt"))
                    want_g = [("arg", 1, (str(in_idx["a"]), ("idx", ("bin", "Add", A(2, "0"), ("bin", "Mul", cvar, V("cs"))))))]
                    alt_g = [("arg", 1, (str(in_idx["a"]), ("idx", ("bin", "Add", ("bin", "Mul", cvar, V("cs")), A(2, "0")))))]
                    if gathers not in (want_g, alt_g):
                        problems.append("gathered element is %s, expected a[i + c*coset_size]" % [show(g) for g in gathers])
            else:
                problems.append("inner closure environment not found")
    (rule.bad if problems else rule.ok)(key, "; ".join(problems) if problems else "omega_k = omega^k, omega_step = omega^(k*coset_size), sub-root omega^num_cosets, gather a[i + c*coset_size], elt advanced by omega_step per block and omega_k per coefficient", par.loc)
    key = "ark_poly|parallel_fft|interleave"
    st_ = []
    for bi, si, s_ in c1.stmts():
        if "d" in s_:
            l, projs = place_parts(s_["d"])
            if projs and projs[0] == "*" and s_["r"]["k"] == "use":
                st_.append(E(c1, s_["r"]["o"]))
    want = C("index", C("index", A(1, "0"), ("bin", "Rem", A(2, "0"), A(1, "1"))), ("bin", "Div", A(2, "0"), A(1, "1")))
    fe1 = [t for _, t in par.calls() if t["f"].get("name") == "for_each"]
    env1 = E(par, fe1[1]["args"][1]) if len(fe1) > 1 else None
    ok = st_ == [want] and isinstance(env1, tuple) and env1[0] == "agg" and len(env1[2]) == 2 and env1[2][1] == nt
    (rule.ok if ok else rule.bad)(key, "a[i] = tmp[i % num_cosets][i / num_cosets]" if ok else "interleave is %s with captures %s" % ([show(x) for x in st_], show(env1) if env1 else None), c1.loc)
    key = "ark_poly|parallel_fft|divisibility"
    guards = [E(par, b["t"]["o"]) for b in par.bbs if b["t"]["k"] == "switch"]
    ok = any(isinstance(g, tuple) and g[0] == "bin" and g[1] == "Ge" and g[2] == A(3) and g[3] == A(4) for g in guards)
    rems = any(show(g).find("Rem") >= 0 for g in guards) or any(t["f"].get("name") == "assert_failed" for _, t in par.calls())
    (rule.ok if ok and rems else rule.bad)(key, "asserts log_n >= log_cpus and len % num_threads == 0" if ok and rems else "missing assertion (guards %s)" % [show(g)[:60] for g in guards], par.loc)


# ---- R-LAGRANGE -------------------------------------------------------------------------------------------

def check_lagrange(res, facts):
    """evaluate_all_lagrange_coefficients: L_i(tau) = Z(tau) g^i / (m h^(m-1) (tau - h g^i)) off the domain, computed as the
    batch inverse of l_i * (tau - h g^i) with l_0 = m h^(m-1) / Z(tau), l_(i+1) = l_i / g; on the domain the one-hot
    vector at the index with h g^i = tau."""
    rule = res.rule("R-LAGRANGE", "Lagrange coefficients: recurrences l_i, -h g^i, product l_i (tau - h g^i) inverted in batch; one-hot vector when tau is in the domain", 2)
    fs = [f for f in facts.fns(unit="ws", crate="ark_poly") if f.id.endswith("EvaluationDomain::evaluate_all_lagrange_coefficients")]
    if not fs:
        rule.bad("ark_poly|evaluate_all_lagrange_coefficients", "anchor missing")
        return
    f = fs[0]
    EM = lambda o: norm(DF.expr(f, o, depth=40, mut_as_phi=True))
    E0 = lambda o: norm(DF.expr(f, o, depth=40))
    tau = A(2)
    Zt = C("evaluate_vanishing_polynomial", A(1), tau)
    h, g, ginv, m_fe, m = C("coset_offset", A(1)), C("group_gen", A(1)), C("group_gen_inv", A(1)), C("size_as_field_element", A(1)), C("size", A(1))
    steps = {}
    for bb, t in f.calls():
        if t["f"].get("name") == "mul_assign":
            a0 = EM(t["args"][0])
            if isinstance(a0, tuple) and a0[0] == "phi":
                steps.setdefault(a0[1], []).append((bb, EM(t["args"][1])))

    def init(l):
        return E0({"c": l})
    stores = []
    for bi, si, s_ in f.stmts():
        if "d" in s_:
            l, projs = place_parts(s_["d"])
            if projs and projs[0] == "*" and s_["r"]["k"] == "use":
                stores.append((bi, EM(s_["r"]["o"])))
    # --- off-domain arm
    key = "ark_poly|evaluate_all_lagrange_coefficients|off-domain"
    problems = []
    prod = [(bi, v) for bi, v in stores if isinstance(v, tuple) and v[0] == "call" and v[1] == "mul"]
    if len(prod) != 1:
        problems.append("expected one store of l_i * r_i, found %s" % [show(v) for _, v in stores])
    else:
        bi, v = prod[0]
        a, b = v[2]
        if not (isinstance(a, tuple) and a[0] == "phi"):
            a, b = b, a
        ok_r = isinstance(b, tuple) and b[0] == "call" and b[1] == "add" and tau in b[2] and any(isinstance(x, tuple) and x[0] == "phi" for x in b[2])
        if not (isinstance(a, tuple) and a[0] == "phi" and ok_r):
            problems.append("stored value is %s, expected l_i * (tau + (-h g^i))" % show(v))
        else:
            l_loc = a[1]
            n_loc = [x for x in b[2] if isinstance(x, tuple) and x[0] == "phi"][0][1]
            li = init(l_loc)
            v0 = [("call", "mul", (m_fe, ("pow", h, ("bin", "Sub", m, 1)))), ("call", "mul", (("pow", h, ("bin", "Sub", m, 1)), m_fe))]
            want_l = [("call", "mul", (("inv", Zt), x)) for x in v0] + [("call", "mul", (x, ("inv", Zt))) for x in v0]
            if li not in want_l:
                problems.append("l_0 = %s, expected Z(tau)^-1 * size * offset^(size-1)" % show(li))
            if [e for _, e in steps.get(l_loc, [])] != [ginv]:
                problems.append("l_i is advanced by %s, expected group_gen_inv" % [show(e) for _, e in steps.get(l_loc, [])])
            if init(n_loc) != C("neg", h):
                problems.append("-h g^i starts at %s, expected -offset" % show(init(n_loc)))
            if [e for _, e in steps.get(n_loc, [])] != [g]:
                problems.append("-h g^i is advanced by %s, expected group_gen" % [show(e) for _, e in steps.get(n_loc, [])])
            if any(bb < bi for bb, _ in steps.get(l_loc, []) + steps.get(n_loc, [])):
                problems.append("the recurrences are advanced before the product of this index is stored")
            if not any(t["f"].get("name") == "batch_inversion" for _, t in f.calls()):
                problems.append("the products are never inverted")
    (rule.bad if problems else rule.ok)(key, "; ".join(problems) if problems else "coeff_i = l_i (tau - h g^i), l_0 = m h^(m-1)/Z(tau), l_(i+1) = l_i/g, batch-inverted: L_i = Z(tau) g^i / (m h^(m-1) (tau - h g^i))", f.loc)
    # --- on-domain arm
    key = "ark_poly|evaluate_all_lagrange_coefficients|on-domain"
    problems = []
    sws = [EM(b["t"]["o"]) for b in f.bbs if b["t"]["k"] == "switch"]
    if C("is_zero", Zt) not in sws:
        problems.append("the arms are not selected by Z(tau) == 0")
    ones = [bi for bi, v in stores if v == 1]
    eqs = [c for c in sws if isinstance(c, tuple) and c[0] == "call" and c[1] == "eq" and tau in c[2] and any(isinstance(x, tuple) and x[0] == "phi" for x in c[2])]
    if len(ones) != 1 or len(eqs) != 1:
        problems.append("no one-hot assignment guarded by omega_i == tau")
    else:
        w_loc = [x for x in eqs[0][2] if isinstance(x, tuple) and x[0] == "phi"][0][1]
        if init(w_loc) != h:
            problems.append("the scan starts at %s, expected the coset offset" % show(init(w_loc)))
        if [e for _, e in steps.get(w_loc, [])] != [g]:
            problems.append("the scan advances by %s, expected group_gen" % [show(e) for _, e in steps.get(w_loc, [])])
    (rule.bad if problems else rule.ok)(key, "; ".join(problems) if problems else "Z(tau) = 0: u_i = 1 at the first i with offset*g^i == tau, zero elsewhere", f.loc)


# ---- R-BFLYSIB ---------------------------------------------------------------------------------------------

def check_bflysib(res, facts):
    """apply_butterfly has three arms (small input; parallel inside a chunk; sequential inside a chunk).  They are the
    same computation: (lo, hi) pairs of each chunk zipped with every `step`-th root.  Sibling agreement: in every arm the
    root iterator is roots.step_by(step) with the function's own `roots` and `step`.  Arms are looked for in the function,
    its closures, and same-crate helpers it (or a closure) hands the chunk to, all expressed in apply_butterfly's own terms."""
    import re as _re
    rule = res.rule("R-BFLYSIB", "every arm of apply_butterfly pairs (lo, hi) with roots.step_by(step)", 6)

    def find(t_, name):
        out = []
        if isinstance(t_, tuple) and t_:
            if t_[0] == "call" and t_[1] == name:
                out.append(t_)
            for x in t_:
                out += find(x, name)
        return out
    for unit in ("ws", "par"):
        par = [f for f in facts.fns(unit=unit, crate="ark_poly") if f.kind != "Closure" and f.name == "apply_butterfly"]
        if not par:
            rule.bad("ark_poly|%s|apply_butterfly" % unit, "anchor missing")
            continue
        par = par[0]

        def closures(top):
            return [c for c in facts.fns(unit=unit, crate="ark_poly") if c.kind == "Closure" and c.id.startswith(top.id + "::{closure")]
        # (host, argument map into apply_butterfly's terms or None)
        hosts = [(h, None) for h in [par] + closures(par)]
        for h, _ in list(hosts):
            for _, ct, callee in DF.local_callees(facts, h):
                amap = {k + 1: norm(DF.lift_captures(facts, h, DF.expr(h, a, depth=30))) for k, a in enumerate(ct["args"])}
                for hh in [callee] + closures(callee):
                    hosts.append((hh, amap))
        n = 0
        for h, amap in hosts:
            for bb, t in h.calls():
                if t["f"].get("name") != "for_each" or len(t["args"]) != 2:
                    continue
                recv = norm(DF.lift_captures(facts, h, DF.expr(h, t["args"][0], depth=30)))
                g = norm(DF.lift_captures(facts, h, DF.expr(h, t["args"][1], depth=30)))
                if amap:
                    recv, g = DF.subst_args(recv, amap), DF.subst_args(g, amap)
                if not find(recv, "zip"):
                    continue          # the per-chunk traversal itself, not an arm
                key = "ark_poly|%s|apply_butterfly|arm%d" % (unit, n)
                n += 1
                steps = find(recv, "step_by")
                ok, why = False, show(recv)[:160]
                for sb in steps:
                    if len(sb[2]) == 2 and sb[2][1] == A(4):
                        src = sb[2][0]
                        while isinstance(src, tuple) and src[0] == "call" and src[1] in ("iter", "par_iter", "into_par_iter", "into_iter") and src[2]:
                            src = src[2][0]
                        if src == A(3):
                            ok = True
                    else:
                        why = "roots iterator is %s" % show(sb)[:120]
                if ok and g == A(1):
                    rule.ok(key, "zip(zip(lo, hi), roots.step_by(step)).for_each(g)", h.loc)
                else:
                    rule.bad(key, "this arm does not pair the butterflies with every step-th root (%s): its siblings use roots.step_by(step), so the arms compute different transforms whenever step > 1" % why, h.loc)

def run(ctx, res):
    units = ["ws", "par"]
    facts = ctx.facts(units)
    res.analysed = facts.stats()
    check_derived(res, facts)
    check_bound(res, facts)
    check_access(res, facts)
    check_wire(res, facts)
    check_bfly(res, facts)
    check_powers(res, facts, units)
    from rules import c07_dft
    semantic = c07_dft.check_root_order(res, facts)
    check_root(res, facts, semantic)
    check_vanish(res, facts)
    from rules import iter_override as IO
    from arklib import symex as SX_
    from arklib.poly import Q as Q_
    IO.check(res, facts, ctx.facts(["shapes"]), [
        ("ark_poly|Elements", "ws", "ark_poly", "utils::Elements", [SX_.Obj(adt="ark_poly::domain::utils::Elements", fields={0: Q_.var("e"), 1: 0, 2: 6, 3: Q_.var("g")})], range(0, 9), (0, 2, 5, 6), 9),
    ], "the domain element iterator (Elements)")
    check_pass(res, facts)
    from rules import c07_dft
    c07_dft.check_dft(res, facts, ctx.tier)
    c07_dft.check_dft_radix2(res, facts, ctx.tier)
    c07_dft.check_degree_aware(res, facts, ctx.tier)
    check_parfft(res, facts)
    check_lagrange(res, facts)
    check_bflysib(res, facts)
    return {
        "level": "other",
        "explanation": "Expression reconstruction over MIR (single-definition dataflow, `?`/borrow/cast transparent), control-flow reachability and symbolic evaluation of straight-line kernels, applied to the evaluation-domain code of ark-poly and FftField::get_root_of_unity: constructors derive every field from the right source, fail on the subgroup-size condition, accessors and the General wrapper forward correctly, forward/inverse transforms are wired to group_gen / group_gen_inv with coset scaling on the right arm and side, the butterfly kernels and the power-distribution loop bodies are proved as ring identities, the root-of-unity derivation performs (configured - requested) adicity many powerings, and the vanishing polynomial / element / iterator definitions match. That the butterfly schedule, bit-reversal, degree-aware duplication and mixed-radix passes compose to the DFT for every size and input length, and the Lagrange-coefficient loop, are NOT decided (index arithmetic over run-time sizes).",
        "assumptions": ["field arithmetic and pow/inverse are correct (C01/C02)", "configured roots of unity have the stated order (C16)", "next_power_of_two / trailing_zeros / k_adicity compute what their names say"],
    }
