"""What each check claims (kept next to the rules so that MANIFEST.json never drifts from the code)."""
CLAIMS = {
 "C01": {
  "technique": "MIR dataflow + path-exhaustive truth tables (lost-carry / must-pass-through / comparison rules) per configuration arm; constant-table recomputation",
  "text": "Structural necessary conditions of C01 decided on all paths and all configuration arms: every conditional-subtraction helper (generic, const-fn twin, macro-generated for each of the ~40 shipped/derived fields) subtracts the configuration's modulus exactly when carry || value >= p; on every arm without a spare bit the final reduction of add/double/mul/square consumes the carry computed by the limb arithmetic; every path to the normal return passes a reduction; shape predicates equal their recomputation from the modulus; from_bigint is range-checked. The limb schedules themselves (CIOS/SOS compute a*b*R^-1) quantify over 64-bit values and are not decided.",
  "note": "Trusted: rustc MIR construction/trait resolution, the rule tables in /verif/rules/c01.py. Assumes mac/adc chains compute what they are named for. Decides the carry/reduction/predicate clauses, not the arithmetic result.",
 },
 "C08": {
  "technique": "MIR typestate (must-pass-through canonicalisation after every coefficient write) + symbolic linear-combination evaluation of operator bodies",
  "text": "Decides on all paths of every function in ark-poly that writes a DensePolynomial's coefficient vector that the strip-leading-zeros loop follows before the value escapes (exemptions frozen with reasons: Neg, scalar Mul, DerefMut, serialization); that computed sparse terms are pushed only under a non-zero guard; the guard structure of divide_with_q_and_r; and, by symbolic evaluation with operands as ring symbols, that every univariate operator defined through other operators (Sub/SubAssign/AddAssign/by-value forms) returns the combination its trait promises on every path. Coefficient-level results of the loops (pointwise sums, FFT products, evaluation) are not decided.",
  "note": "Trusted: rustc MIR, the exemption table in rules/c08.py, the ring-operation model in arklib/symex.py. Assumes operator inputs are canonical. Shows canonical-form preservation and operator wiring, not coefficient values.",
 },
 "C10": {
  "technique": "path-exhaustive typestate over MIR (validation evidence per returned point, enumerated over compress x {on-curve?, in-subgroup?} worlds) + mode-flag dataflow",
  "text": "Decides, for every point deserializer in the repository (generic SW/TE defaults, Affine/Projective wrappers, the bls12_381 overrides and their read_* helpers in curves/, test-curves), on every path with validation on: Ok(non-identity point) cannot be returned when the point is outside the subgroup, nor when it is off the curve unless it came from an on-curve constructor, and the tests were applied to the value actually returned; Valid::check for affine points is Ok only when both tests hold; validate/compress flags are passed through or compensated in all ~130 inner (de)serialization calls; Fp decoding goes through the range check and flag extraction. Correctness of is_on_curve / subgroup tests themselves and panic-freedom inside arithmetic are not decided.",
  "note": "Trusted: rustc MIR; the tables of on-curve constructors and pass-through adapters in rules/c10.py. Assumes on-curve constructors solve the curve equation (C03/C11).",
 },
 "C18": {
  "technique": "MIR dataflow: mode-flag origin analysis, stream-length taint to allocation sinks, error-arm existence, writer/reader/size call-sequence agreement",
  "text": "Decides over every CanonicalSerialize/CanonicalDeserialize impl of the workspace, the curve crates and derive-macro output: each of ~370 inner calls receives the caller's compress flag and each of ~130 the validate flag (or Validate::No compensated by check/batch_check on the Yes arm; the four mode-pinning wrappers pass exactly their pinned pair in all three methods); no allocation is sized by a length read from the stream; invalid bool bytes, invalid UTF-8 and length-conversion failures reach an Err arm and no unwrap/expect consumes stream-derived data; for straight-line impls writer, reader and size visit the same element types in the same order. Value equality of round trips and exact byte counts at run time are not decided.",
  "note": "Trusted: rustc MIR; sink/reader/bound name tables in rules/c18.py. Straight-line restriction: impls with closures/loops are covered by the flag and taint rules only.",
 },
 "C06": {
  "technique": "sibling-agreement and closure dataflow rules over MIR of all pairing models (serial + parallel configs), constant-table obligations for mixed bit-iterator policies",
  "text": "Decides structural necessary conditions over the five pairing models in ark-ec and the hand-written CP6-782 pairing: identity pairs are removed individually before line evaluation (three models lack the filter: recorded known findings with a panicking input), per-chunk Miller accumulators do not fold captured target-field values (chunk-count independence; the BW6 violation was repaired), G2 preparation and Miller loop iterate the same bit string (mixed new/without_leading_zeros policy discharged per shipped configuration from the constant table), final exponentiation yields None only via inverse(), pairing-output scalar multiplication passes the full scalar. Bilinearity, non-degeneracy, prepared = unprepared and the hard-part exponent chains are not decided.",
  "note": "Trusted: rustc MIR, adaptor tables (element-wise vs prefix-truncating) in rules/c06.py. Known findings listed in known_findings.json are genuine and reproduced (MNT4/MNT6/CP6-782 e(P, O) panics).",
 },
 "C05": {
  "technique": "MIR typestate/pairing rules: lock-step mutation of paired buffers (dominance + post-dominance), length-policy dataflow, flush structure, window recombination",
  "text": "Decides structural necessary conditions of the MSM entry points: buffers handed together to an msm kernel are mutated in lock-step on every path (ChunkedPippenger, reusable chunk buffers); checked msm compares both lengths and reports the minimum, both bucket kernels truncate both inputs to the common length; Pippenger accumulators fold a guarded msm into `result` and clear the buffer; window recombination doubles c times with the same c that sized the buckets. That any entry point returns the sum (digit extraction, bucket indexing: run-time index arithmetic) is not decided.",
  "note": "Trusted: rustc MIR; mutator/view/kernel name tables in rules/c05.py.",
 },
 "C14": {
  "technique": "effect/ownership analysis of closures handed to rayon (captured types Freeze/Copy, no sync primitives), reduction-type table, serial-vs-parallel kernel agreement, chunk-independence dataflow; on the `parallel` feature build",
  "text": "Decides, on the crates compiled with their parallel features, the interleaving-independence half of C14: every closure executed by rayon (~50) captures only data without interior mutability and reaches no synchronisation primitive; every parallel reduction is over a commutative monoid (frozen table of 10 sites), par_bridge feeds order-insensitive consumers; each of the ~40 functions whose body differs between serial and parallel builds reaches the same crate-local kernels; chunked reductions do not fold captured accumulator-typed values (independence of the number of chunks). Correctness of per-chunk offsets, tails and thresholds for every thread count is arithmetic on run-time values and is not decided.",
  "note": "Trusted: rustc MIR and Send/Sync checking; the ACM type table and sync-marker list in rules/c14.py. `Copy` is taken to imply absence of UnsafeCell.",
 },
}
NOT_APPLICABLE = {}
