"""C20 — compile-time literals denote the number that is written.

  R-LITERAL   literal grid decided by the compiler: /verif/witness/shapes/src/literals.rs declares constants through
              MontFp! / BigInt! for a grid of literal texts (decimal / hex / octal / binary, both prefix cases, with
              and without '-', leading zeros; values 0, 1, p-1, p, p+1, 2p+-, limb boundaries, 2^(64N)-1, random
              below and above p) over 14 modulus shapes (1..12 limbs, spare bit / no spare bit, moduli near 2^(64N)
              and near 0.7 * 2^(64N)).  rustc evaluates them (const evaluation of the real macro expansion and the real
              const fns); the driver dumps the evaluated values; this rule recomputes each expected value from the
              literal TEXT with Python integers (own parser) and compares limbs.  Finite grid, labelled as such.
  R-RADIX     the literal parser's prefix table is {0x,0X -> 16; 0o,0O -> 8; 0b,0B -> 2; none -> decimal}, the prefix is
              stripped (2 chars) before parsing, the sign is stripped (1 char) first and re-applied after; limbs are
              16 hex digits each, least significant first  (path enumeration over the MIR of ark-ff-macros).
  R-CONSTPATH the const constructors mirror the run-time path: Fp::new multiplies by R2 unless zero;
              from_sign_and_limbs negates the converted element exactly on the !is_positive arm and asserts
              len <= N; const_neg maps zero to zero and x to MODULUS - x; the const multiplication's final
              reduction subtracts iff (carry || !is_valid) on the no-spare-bit arm and iff !is_valid otherwise.
  Derive-time arithmetic (limb count, modulus limbs, roots of unity emitted by the macro) is decided under C16
  for every derived configuration including the shapes grid.
  Not decided: all literal strings x all moduli (infinite); num-bigint's parser.
"""
import json, os, re
from arklib import dataflow as DF, pathsim as PS, configs
from arklib.facts import op_local, op_place, place_parts
from rules.c07 import E, show, A, C

HERE = os.path.dirname(os.path.dirname(os.path.abspath(__file__)))
LIT_JSON = os.path.join(HERE, "witness", "shapes", "literals.json")
LIT_RS = os.path.join(HERE, "witness", "shapes", "src", "literals.rs")
FLOOR_LITERALS = 1600


def parse_literal(text):
    """independent reading of a literal: optional '-', optional 0x/0o/0b prefix (either case), digits"""
    neg = text.startswith("-")
    body = text[1:] if neg else text
    radix = 10
    if body[:2].lower() == "0x":
        radix, body = 16, body[2:]
    elif body[:2].lower() == "0o":
        radix, body = 8, body[2:]
    elif body[:2].lower() == "0b":
        radix, body = 2, body[2:]
    digits = "0123456789abcdef"[:radix]
    v = 0
    for ch in body.lower():
        d = digits.index(ch)
        v = v * radix + d
    return -v if neg else v


def limbs_of(v, n):
    return [(v >> (64 * i)) & ((1 << 64) - 1) for i in range(n)]


def check_literals(res, facts):
    rule = res.rule("R-LITERAL", "MontFp! / BigInt! constants on the literal grid equal the value written (compiler-evaluated vs recomputed from the text)", FLOOR_LITERALS)
    table = json.load(open(LIT_JSON))
    src = open(LIT_RS).read()
    reg = configs.Registry(facts, units=("shapes",))
    recs = {r["name"]: r for r in reg.recs if r.get("id", "").startswith("verif_shapes::literals::")}
    bad = 0
    for ent in table:
        name, text, n, p = ent["const"], ent["text"], ent["limbs"], int(ent["modulus"])
        key = "shapes|%s|%s(\"%s\")" % (ent["field"], ent["kind"], text if len(text) <= 40 else text[:18] + ".." + text[-18:])
        decl = 'pub const %s: ' % name
        i = src.find(decl)
        if i < 0 or ('!("%s");' % text) not in src[i:src.find("\n", i)]:
            rule.bad(key, "literals.rs does not declare %s with this text (grid file and table out of sync)" % name)
            continue
        rec = recs.get(name)
        if rec is None:
            rule.bad(key, "constant %s was not evaluated by the compiler" % name)
            continue
        v = parse_literal(text)
        val = rec["val"]
        try:
            if ent["kind"] == "MontFp":
                got = val["0"]["0"]
                want = limbs_of(((v % p) << (64 * n)) % p, n)
            else:
                got = val["0"]
                want = limbs_of(v, n)
        except Exception as e:
            rule.bad(key, "unexpected constant layout: %s" % e)
            continue
        if list(got) == want:
            rule.ok(key, "= %s" % (v if abs(v) < 10 ** 12 else "%d-bit value" % abs(v).bit_length()))
        else:
            bad += 1
            if bad <= 12:
                gv = sum(x << (64 * j) for j, x in enumerate(got))
                if ent["kind"] == "MontFp":
                    rinv = pow(1 << (64 * n), -1, p)
                    shown = "Montgomery limbs decode to %d%s" % (gv * rinv % p, " (unreduced: limbs >= p)" if gv >= p else "")
                    wanted = "%d" % (v % p)
                else:
                    shown, wanted = str(gv), str(v)
                rule.bad(key, "the constant written as \"%s\" over p = %s (%d limbs) is evaluated to a different number: %s, expected %s" % (text if len(text) < 60 else text[:60] + "...", str(p) if p < 10 ** 30 else "%d-bit prime" % p.bit_length(), n, shown if len(shown) < 200 else shown[:200] + "...", wanted if len(wanted) < 80 else wanted[:80] + "..."), "witness/shapes/src/literals.rs")
            else:
                rule.bad(key, "evaluates to a different number than written")
    return len(table)


# ---- R-RADIX ---------------------------------------------------------------------------------------------

class _Lit:
    """abstract literal text: ['-'] [radix prefix] DIGITS, DIGITS opaque (not starting with '-' or a radix prefix)"""
    def __init__(self, neg, prefix):
        self.neg, self.prefix = neg, prefix

    def head(self):
        return ("-" if self.neg else "") + self.prefix


class _Parsed(Exception):
    pass


def _radix_by_interpretation(facts, fn, prefix, neg):
    """interpret the parser on the abstract literal; returns (parsed text state, radix, negations) or raises BI.Stop"""
    from arklib import bvinterp as BI
    consts = {k["id"]: k.get("val") for c in facts.crates if c.name == fn.crate and c.unit == fn.unit for k in c.consts}
    events = []

    def conv(v):
        if isinstance(v, list):
            return BI.Slice([conv(x) for x in v]) if not (v and all(not isinstance(x, list) for x in v) and any(isinstance(x, str) for x in v)) else tuple(conv(x) for x in v)
        return v

    def const_of(k):
        v = consts.get(k.get("def") or k.get("static"))
        return conv(v) if v is not None else None

    def closure_of(t, host=None):
        cty = [a for a in (t["f"].get("targs") or []) if a.startswith("{closure@")]
        cands = [c for c in facts.fns(unit=fn.unit, crate=fn.crate) if c.kind == "Closure" and cty and cty[0] in (c.local_ty(1) or "")]
        return cands[0] if len(cands) == 1 else None

    def sval(x):
        while isinstance(x, BI.Ref):
            x = x.get()
        return x

    def pat(x):
        x = sval(x)
        if isinstance(x, int) and not isinstance(x, bool):
            return chr(x)
        return x

    def model(nm, argv, t):
        a = [sval(x) for x in argv]
        if nm in ("starts_with", "strip_prefix") and len(a) == 2 and isinstance(a[0], _Lit):
            p_ = pat(argv[1])
            if not isinstance(p_, str) or p_ == "":
                raise BI.Stop("pattern %r" % (p_,))
            h = a[0].head()
            if h.startswith(p_):
                rest = h[len(p_):]
                if rest not in ("",) + tuple(PREFIXES_ALL) + tuple("-" + q for q in PREFIXES_ALL) and rest != "-":
                    raise BI.Stop("pattern %r cuts a prefix in the middle" % p_)
                hit = True
            elif p_.startswith(h) and h != p_ and h != "":
                raise BI.Stop("pattern %r reaches into the opaque digits" % p_)
            elif h == "" and p_ not in ("-",) + tuple(PREFIXES_ALL):
                raise BI.Stop("pattern %r tested against opaque digits" % p_)
            else:
                hit = False
            if nm == "starts_with":
                return hit
            if not hit:
                return BI.Opt()
            rest = h[len(p_):]
            return BI.Opt(_Lit(rest.startswith("-"), rest.lstrip("-")), True)
        if nm == "index" and len(a) == 2 and isinstance(a[0], _Lit) and isinstance(a[1], BI.Struct) and set(a[1].fields) == {0} and isinstance(a[1].fields[0], int):
            k_ = a[1].fields[0]
            h = a[0].head()
            if k_ > len(h) or (k_ < len(h) and h[k_:] not in PREFIXES_ALL):
                raise BI.Stop("slicing [%d..] cuts into the digits / a prefix of %r" % (k_, h))
            rest = h[k_:]
            return BI.Ref({"s": _Lit(False, rest)}, "s")
        if nm in ("from_str_radix", "from_str") and a and isinstance(a[0], _Lit):
            radix = a[1] if nm == "from_str_radix" else 10
            events.append(("parse", a[0].head(), radix))
            return BI.Opt(BI.Tok(("num", 0)), True)
        if nm == "neg" and len(a) == 1 and isinstance(a[0], BI.Tok) and a[0].label[0] == "num":
            return BI.Tok(("num", a[0].label[1] + 1))
        if nm == "to_radix_le" and a and isinstance(a[0], BI.Tok):
            events.append(("out", a[0].label[1], a[1] if len(a) > 1 else None))
            raise _Parsed()
        if nm == "or_else" and len(a) == 2 and isinstance(a[0], BI.Opt):
            if a[0].some:
                return a[0]
            clo = closure_of(t)
            if clo is None:
                raise BI.Stop("or_else closure not resolved")
            v2, _ = BI.run(clo, {1: argv[1]}, call_model=model, max_steps=4000, closure_of=closure_of, const_of=const_of)
            return v2.get(0)
        # helper functions of the same crate are interpreted in place
        for key_ in (t["f"].get("res"), t["f"].get("path")):
            callee = facts.get(key_, fn.unit) if key_ else None
            if callee is not None and callee.kind != "Closure" and callee.crate == fn.crate and callee.d["argc"] == len(argv):
                v2, _ = BI.run(callee, {i + 1: x for i, x in enumerate(argv)}, call_model=model, max_steps=4000, closure_of=closure_of, const_of=const_of)
                return v2.get(0)
        return NotImplemented
    lit = {"s": _Lit(neg, prefix)}
    try:
        BI.run(fn, {1: BI.Ref(lit, "s")}, call_model=model, max_steps=6000, closure_of=closure_of, const_of=const_of)
    except _Parsed:
        pass
    return events


PREFIXES_ALL = ("0x", "0X", "0o", "0O", "0b", "0B")


def check_radix(res, facts):
    rule = res.rule("R-RADIX", "literal parser: prefix -> radix table, prefix and sign stripped before parsing, sign re-applied, 16 hex digits per limb (little-endian)", 9)
    fns = [f for f in facts.fns(unit="ws", crate="ark_ff_macros") if f.id == "ark_ff_macros::utils::str_to_limbs_u64"]
    if not fns:
        rule.bad("ark_ff_macros|str_to_limbs_u64", "anchor missing")
        return
    fn = fns[0]
    want = {"": ("from_str", 10), "0x": ("from_str_radix", 16), "0X": ("from_str_radix", 16), "0o": ("from_str_radix", 8), "0O": ("from_str_radix", 8),
            "0b": ("from_str_radix", 2), "0B": ("from_str_radix", 2)}
    from arklib import bvinterp as BI
    for prefix, (pf, radix) in want.items():
        for neg in (False, True):
            key = "ark_ff_macros|str_to_limbs_u64|%s%s" % ("-" if neg else "", prefix or "decimal")
            # form-independent decision first: interpret the parser (helpers, closures and loops included) on the
            # abstract literal ['-'][prefix]DIGITS
            try:
                evs = _radix_by_interpretation(facts, fn, prefix, neg)
            except BI.Stop as e:
                evs = None
                if os.environ.get("VERIF_DEBUG"):
                    print("radix interp stop:", key, e)
            if evs is not None:
                parses = [e for e in evs if e[0] == "parse"]
                outs = [e for e in evs if e[0] == "out"]
                okp = len(parses) == 1 and parses[0][1] == "" and parses[0][2] == radix
                oko = len(outs) == 1 and outs[0][1] == (1 if neg else 0) and outs[0][2] == 16
                if okp and oko:
                    rule.ok(key, "digits parsed in radix %d%s%s [interpretation of the parser on the abstract literal]" % (radix, ", prefix stripped" if prefix else "", ", '-' stripped and re-applied" if neg else ""), fn.loc)
                else:
                    rule.bad(key, "a literal %s: the parser is handed %s and the number is negated %s time(s) before limb extraction; expected the bare digits in radix %d and %d negation(s)" % (
                        ("starting with '%s%s'" % ("-" if neg else "", prefix)) if (prefix or neg) else "without prefix",
                        ["'%sDIGITS' in radix %s" % (p_[1], p_[2]) for p_ in parses] or "nothing", [o[1] for o in outs], radix, 1 if neg else 0), fn.loc)
                continue

            def oracle(st, bb, t, prefix=prefix, neg=neg):
                if t["f"].get("name") == "starts_with":
                    k = t["args"][1].get("k", {})
                    if k.get("ty") == "char":
                        return neg if k.get("v") == 45 else False
                    if "str" in k:
                        return prefix != "" and k["str"] == prefix
                    return PS.UNKNOWN
                return PS.UNKNOWN
            ends = PS.explore(fn, oracle, max_states=400)
            outcomes = set()
            for st, e in ends:
                if e != "return":
                    continue
                parse, strip, negs, sign_strip = None, None, 0, None
                for bb, t in st.calls:
                    n_ = t["f"].get("name")
                    if n_ in ("from_str_radix", "from_str"):
                        parse = (n_, E(fn, t["args"][1]) if n_ == "from_str_radix" else 10)
                        src = E(fn, t["args"][0])
                        strip = src[2][1] if isinstance(src, tuple) and src[0] == "call" and src[1] == "index" else None
                    if n_ == "neg":
                        negs += 1
                    if n_ == "index":
                        ix = E(fn, t["args"][1])
                        if ix == ("agg", "RangeFrom", (1,)):
                            sign_strip = 1
                outcomes.add((parse, strip, negs, sign_strip))
            exp_strip = ("agg", "RangeFrom", (2,)) if prefix else None
            exp = {((pf, radix), exp_strip, 1 if neg else 0, 1 if neg else None)}
            if outcomes == exp:
                rule.ok(key, "%s radix %d%s%s" % (pf, radix, ", 2 prefix chars stripped" if prefix else "", ", '-' stripped and re-applied" if neg else ""), fn.loc)
            else:
                rule.bad(key, "a literal %s is parsed as %s; expected parser %s with radix %d, prefix strip %s, negations %d" % (
                    ("starting with '%s%s'" % ("-" if neg else "", prefix)) if (prefix or neg) else "without prefix",
                    sorted((str(o[0]), show(o[1]) if o[1] else None, o[2], o[3]) for o in outcomes), pf, radix, "[2..]" if prefix else "none", 1 if neg else 0), fn.loc)
    # limb assembly: to_radix_le(16), chunks(16), closure: this += (hexit as u64) << (4*i)
    key = "ark_ff_macros|str_to_limbs_u64|limb-assembly"
    calls = {t["f"].get("name"): t for _, t in fn.calls()}
    problems = []
    if "to_radix_le" not in calls or E(fn, calls["to_radix_le"]["args"][1]) != 16:
        problems.append("digits are not produced in little-endian base 16")
    if "chunks" not in calls or E(fn, calls["chunks"]["args"][1]) != 16:
        problems.append("digits are not grouped 16 per limb")
    clos = [f for f in facts.fns(unit="ws", crate="ark_ff_macros") if f.kind == "Closure" and (f.d.get("parent") or "").endswith("str_to_limbs_u64")]
    okshift = False
    for c in clos:
        for bi, si, s in c.stmts():
            r = s.get("r")
            if r and r["k"] == "bin" and r["op"].startswith("Shl"):
                sh = E(c, r["b"])
                if isinstance(sh, tuple) and sh[0] == "bin" and sh[1] == "Mul" and 4 in (sh[2], sh[3]):
                    okshift = True
    if not okshift:
        problems.append("hex digit i of a chunk is not shifted by 4*i")
    (rule.bad if problems else rule.ok)(key, "; ".join(problems) if problems else "to_radix_le(16), chunks(16), digit i shifted by 4*i", fn.loc)


# ---- R-CONSTPATH -----------------------------------------------------------------------------------------

FP = "ark_ff::fields::models::fp::Fp"


def fp_fns(facts):
    out = {}
    for f in facts.fns(unit="ws", crate="ark_ff"):
        if f.kind != "Closure" and f.self_head == FP and "montgomery_backend" in (f.d.get("file") or ""):
            out.setdefault(f.name, f)
    return out


def called_on_paths(fn, oracle_map):
    """enumerate paths with the given call-name -> bool answers; return set of frozenset(call names executed)"""
    def oracle(st, bb, t):
        n = t["f"].get("name")
        if n in oracle_map:
            return oracle_map[n]
        return PS.UNKNOWN
    outs = set()
    for st, e in PS.explore(fn, oracle, max_states=200):
        if e == "return":
            outs.add(frozenset(t["f"].get("name") for _, t in st.calls))
    return outs


SUBS = ("sub_with_borrow", "const_sub_with_borrow")


def _value_on_trace(fn, st, operand, depth=10):
    """what an operand holds on one explored path: a constant, ('field', call name, field) of a call result, or None"""
    o = operand
    for _ in range(depth):
        if "k" in o:
            return o["k"].get("v", o["k"].get("def"))
        l, projs = place_parts(op_place(o))
        fields = [p_[2] for p_ in projs if isinstance(p_, (list, tuple)) and p_[0] == "f"]
        found = None
        for ti in range(len(st.trace) - 1, -1, -1):
            b = fn.bbs[st.trace[ti]]
            t = b["t"]
            if t["k"] == "call" and place_parts(t["d"]) == (l, []):
                found = ("call", t)
                break
            for s_ in reversed(b["s"]):
                if "d" in s_ and place_parts(s_["d"]) == (l, []):
                    found = ("assign", s_["r"])
                    break
            if found:
                break
        if not found:
            return None
        if found[0] == "call":
            return ("field", found[1]["f"].get("name"), tuple(fields))
        r = found[1]
        if r["k"] == "use" and not fields:
            o = r["o"]
            continue
        if r["k"] == "use":
            l2, p2 = place_parts(op_place(r["o"])) if "k" not in r["o"] else (None, None)
            if l2 is None:
                return None
            o = {"c": [l2, list(p2) + [p_ for p_ in projs]]} if False else r["o"]
            # field of a copied aggregate: follow the copy, keep the field selection
            inner = _value_on_trace(fn, st, r["o"], depth - 1)
            if isinstance(inner, tuple) and inner[0] == "field":
                return ("field", inner[1], inner[2] + tuple(fields))
            return None
        if r["k"] == "un" and r.get("op") == "Not":
            v = _value_on_trace(fn, st, r["o"], depth - 1)
            return (not v) if isinstance(v, bool) else (("not", v) if v is not None else None)
        return None
    return None


def check_constpath(res, facts):
    rule = res.rule("R-CONSTPATH", "const constructors: new = mul by R2 unless zero; from_sign_and_limbs negates exactly on !is_positive; const_neg; final reduction iff carry || !is_valid", 6)
    fns = fp_fns(facts)
    # const_subtract_modulus_with_carry
    fn = fns.get("const_subtract_modulus_with_carry")
    key = "ark_ff|Fp::const_subtract_modulus_with_carry"
    if fn is None:
        rule.bad(key, "anchor missing")
    else:
        table = {}
        for carry in (False, True):
            for valid in (False, True):
                def oracle(st, bb, t, valid=valid):
                    return valid if t["f"].get("name") == "const_is_valid" else PS.UNKNOWN
                subs = set()
                for st, e in PS.explore(fn, oracle, init={2: carry}, max_states=100):
                    if e == "return":
                        subs.add(any(t["f"].get("name") in SUBS for _, t in st.calls))
                table[(carry, valid)] = subs
        want = {(c, v): {c or not v} for c in (False, True) for v in (False, True)}
        if table == want:
            rule.ok(key, "subtracts the modulus iff carry || !is_valid (4 cases)", fn.loc)
        else:
            wrong = {k: sorted(v) for k, v in table.items() if v != want[k]}
            rule.bad(key, "final reduction of the const multiplication: for (carry, value < p) in %s the modulus is %s; a product in [p, 2^(64N)) or with a carry would stay unreduced, so the constant differs from the run-time element" % (sorted(wrong), "subtracted on " + str(wrong)), fn.loc)
    fn = fns.get("const_subtract_modulus")
    key = "ark_ff|Fp::const_subtract_modulus"
    mulfn = fns.get("mul")
    if fn is None:
        # the carry-less form may have been merged into the carry-aware one; then mul(const) must not call it
        if mulfn is not None and not any(t["f"].get("name") == "const_subtract_modulus" for _, t in mulfn.calls()):
            rule.ok(key, "no separate carry-less reduction: mul(const) reduces through const_subtract_modulus_with_carry on every arm (decided there)")
        else:
            rule.bad(key, "anchor missing")
    else:
        table = {}
        for valid in (False, True):
            def oracle(st, bb, t, valid=valid):
                return valid if t["f"].get("name") == "const_is_valid" else PS.UNKNOWN
            table[valid] = {any(t["f"].get("name") in SUBS for _, t in st.calls) for st, e in PS.explore(fn, oracle, max_states=100) if e == "return"}
        ok = table == {False: {True}, True: {False}}
        (rule.ok if ok else rule.bad)(key, "subtracts iff !is_valid" if ok else "reduction table %s" % table, fn.loc)
    # mul (const): on every path the product of mul_without_cond_subtract is reduced; where the modulus has no spare bit
    # the reduction must be the carry-aware one and receive the carry of that multiplication
    fn = mulfn
    key = "ark_ff|Fp::mul(const)"
    if fn is None:
        rule.bad(key, "anchor missing")
    else:
        problems = []
        seen_arms = set()
        for st, e in PS.explore(fn, lambda st, bb, t: PS.UNKNOWN, max_states=200):
            if e != "return":
                continue
            # which way did the path go at the spare-bit test (directly or through its negation)?
            spare = None
            for i_, bbi in enumerate(st.trace[:-1]):
                t = fn.bbs[bbi]["t"]
                if t["k"] == "switch":
                    c = E(fn, t["o"])
                    nxt = st.trace[i_ + 1]
                    truth = nxt == t["else"] if t["vals"] == [0] else None
                    if c == "MODULUS_HAS_SPARE_BIT" and truth is not None:
                        spare = truth
                    elif c == ("un", "Not", "MODULUS_HAS_SPARE_BIT") and truth is not None:
                        spare = not truth
            reds = [(bb, t) for bb, t in st.calls if t["f"].get("name") in ("const_subtract_modulus", "const_subtract_modulus_with_carry")]
            prods = [t for bb, t in st.calls if t["f"].get("name") == "mul_without_cond_subtract"]
            if len(reds) != 1 or len(prods) != 1:
                problems.append("a path performs %d multiplications and %d final reductions" % (len(prods), len(reds)))
                continue
            rt = reds[0][1]
            v0 = _value_on_trace(fn, st, rt["args"][0])
            if v0 != ("field", "mul_without_cond_subtract", ("1",)):
                problems.append("the reduction is applied to %s, not to the product" % (v0,))
            if rt["f"]["name"] == "const_subtract_modulus_with_carry":
                cv = _value_on_trace(fn, st, rt["args"][1])
                is_carry = cv == ("field", "mul_without_cond_subtract", ("0",))
                if spare is False and not is_carry:
                    problems.append("without a spare bit the reduction receives %s instead of the carry of the multiplication" % (cv,))
                elif spare is True and not (is_carry or cv is False):
                    problems.append("spare-bit arm passes %s as carry" % (cv,))
                elif spare is None and not is_carry:
                    problems.append("the reduction receives %s instead of the carry of the multiplication" % (cv,))
            else:
                if spare is not True:
                    problems.append("the carry-less reduction is used on a path where the modulus may have no spare bit: a carry out of the top limb would be dropped")
            seen_arms.add(spare)
        if not seen_arms:
            problems.append("no complete path found")
        (rule.bad if problems else rule.ok)(key, "; ".join(sorted(set(problems))) if problems else "product of mul_without_cond_subtract reduced on every path; without a spare bit through the carry-aware form with its carry (arms seen: %s)" % sorted(map(str, seen_arms)), fn.loc)
    # new
    fn = fns.get("new")
    key = "ark_ff|Fp::new"
    if fn is None:
        rule.bad(key, "anchor missing")
    else:
        muls = [t for _, t in fn.calls() if t["f"].get("name") == "mul"]
        ok = len(muls) == 1
        if ok:
            rhs = E(fn, muls[0]["args"][1])
            ok = rhs == "R2" or (isinstance(rhs, tuple) and rhs[0] == "agg" and rhs[2][:1] == ("R2",)) or rhs == C("new_unchecked", "R2")
        outs = called_on_paths(fn, {"const_is_zero": True}) | set()
        outs2 = called_on_paths(fn, {"const_is_zero": False})
        ok = ok and all("mul" not in o for o in outs) and all("mul" in o for o in outs2)
        (rule.ok if ok else rule.bad)(key, "zero stays zero, otherwise multiplied by R2 (conversion to Montgomery form)" if ok else "conversion to Montgomery form is not `x * R2 unless x == 0` (mul calls: %s)" % [show(E(fn, m["args"][1])) for m in muls], fn.loc)
    # from_sign_and_limbs
    fn = fns.get("from_sign_and_limbs")
    key = "ark_ff|Fp::from_sign_and_limbs"
    if fn is None:
        rule.bad(key, "anchor missing")
    else:
        problems = []
        for pos in (False, True):
            outs = set()
            for st, e in PS.explore(fn, lambda st, bb, t: PS.UNKNOWN, init={1: pos}, max_states=300, max_visits=3):
                if e == "return":
                    names = [t["f"].get("name") for _, t in st.calls]
                    outs.add(("const_neg" in names, "new" in names, names.index("new") < names.index("const_neg") if "const_neg" in names and "new" in names else None))
            want = {(not pos, True, True if not pos else None)}
            if outs != want:
                problems.append("is_positive = %s: (negated, converted, convert-before-negate) = %s" % (pos, sorted(outs, key=str)))
        negs = [t for _, t in fn.calls() if t["f"].get("name") == "const_neg"]
        if negs and E(fn, negs[0]["args"][0])[:2] != ("call", "new"):
            problems.append("const_neg is applied to %s, not to the converted element" % show(E(fn, negs[0]["args"][0])))
        # length assertion
        asserts = [E(fn, b["t"]["o"]) for b in fn.bbs if b["t"]["k"] == "switch"]
        if not any(isinstance(c, tuple) and c[0] == "bin" and c[1] == "Le" and c[2] == C("len", A(2)) for c in asserts):
            problems.append("no assertion limbs.len() <= N")
        (rule.bad if problems else rule.ok)(key, "; ".join(problems) if problems else "new(limbs) then const_neg exactly when !is_positive; len <= N asserted", fn.loc)
    # const_neg
    fn = fns.get("const_neg")
    key = "ark_ff|Fp::const_neg"
    if fn is None:
        rule.bad(key, "anchor missing")
    else:
        z = called_on_paths(fn, {"const_is_zero": True})
        nz = called_on_paths(fn, {"const_is_zero": False})
        subs = [t for _, t in fn.calls() if t["f"].get("name") in SUBS]
        ok = all(not (set(SUBS) & set(o)) for o in z) and all(set(SUBS) & set(o) for o in nz) and len(subs) == 1
        if ok:
            a0, a1 = E(fn, subs[0]["args"][0]), E(fn, subs[0]["args"][1])
            ok = a0 == "MODULUS" and a1 == A(1, "0")
        (rule.ok if ok else rule.bad)(key, "0 -> 0, x -> MODULUS - x" if ok else "negation is not `0 -> 0, x -> MODULUS - x` (operands %s)" % [(show(E(fn, s["args"][0])), show(E(fn, s["args"][1]))) for s in subs], fn.loc)


def _is_field(t, base, f):
    if isinstance(t, tuple) and t[0] == "call" and len(t) > 3 and t[:3] == base[:3] and t[3] == (f,):
        return True
    return False


def _reach(fn, a, b):
    succ = fn.succ()
    seen, st = set(), [a]
    while st:
        x = st.pop()
        if x == b:
            return True
        if x in seen:
            continue
        seen.add(x)
        st.extend(succ[x])
    return False


def run(ctx, res):
    facts = ctx.facts(["ws", "shapes"])
    res.analysed = facts.stats()
    n = check_literals(res, facts)
    check_radix(res, facts)
    check_constpath(res, facts)
    # derive-time arithmetic: the constants emitted by #[derive(MontConfig)] for every modulus of the shapes grid
    # (1..13 limbs, two-adicity up to 130, special-form primes) against their recomputation from the modulus
    from rules import c16
    cx = c16.Ctx(res, configs.Registry(facts, units=("shapes",)))
    cx.facts = facts
    c16.check_prime_fields(cx)
    return {
        "level": "other",
        "explanation": "A grid of %d literal constants (MontFp! and BigInt!, all radices and prefix cases, both signs, leading zeros, boundary and random values below and above p, 14 modulus shapes from 1 to 12 limbs including no-spare-bit moduli near 2^(64N) and near 0.7*2^(64N)) is evaluated by rustc's const evaluator on the real macro expansion and const fns; the evaluated limbs are compared with an independent Python reading of the literal text.  Path enumeration over the MIR of the literal parser in ark-ff-macros decides the prefix/radix/sign table; truth-table and expression rules decide the const conversion path (new, from_sign_and_limbs, const_neg, final reduction).  All strings x all moduli is infinite and NOT decided; num-bigint's digit parser is trusted; derive-time arithmetic is decided under C16." % n,
        "assumptions": ["rustc's const evaluator implements the const fns' semantics", "num-bigint parses digit strings correctly"],
        "trusted_base": ["rustc const evaluation", "arkfacts constant decoder", "Python integer arithmetic"],
    }
