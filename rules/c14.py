"""C14 — results do not depend on the parallel feature / thread count: structural clauses, decided on the
`parallel` feature configuration (unit "par") against the serial one (unit "ws").

  R-FREEZE    every closure handed to a rayon entry point captures only Freeze data (no Cell /
              RefCell / Mutex / Atomic*) and neither it nor the crate-local functions it calls touch
              synchronisation or interior-mutability primitives: shared state is read-only, so for a
              fixed split the value does not depend on the interleaving (the `schedules` quantifier).
  R-REDUCE    every parallel reduction (sum / product / try_for_each / reduce ...) is over a type
              whose operator is associative and commutative (field add/mul, Result<(),E> conjunction):
              frozen table of sites; unordered bridges feed only order-insensitive consumers.
  R-KERNEL    each function that differs between the serial and the parallel build reaches the same
              crate-local kernels in both (the parallel arm splits work, it does not re-implement it).
  R-CHUNK     chunked reductions do not fold captured accumulator-typed values: independence of the
              number of chunks (rules/chunk.py).
  R-TAIL      exact-size chunking (chunks_exact & co.) consumes its remainder.
  R-THREADS   functions whose result shape depends on rayon::current_num_threads() are enumerated; a
              new one is listed as undecided for review (not an alarm).
"""
from arklib import dataflow as DF
from arklib.facts import closure_args
from rules import chunk

SYNC_MARKERS = ("core::sync::atomic", "std::sync::mutex", "std::sync::rwlock", "core::cell::", "std::sync::poison", "std::sync::Mutex", "std::sync::RwLock", "lock_api", "parking_lot", "std::thread::local", "thread_local")
REDUCTIONS = {"sum", "product", "reduce", "reduce_with", "try_for_each", "try_reduce", "fold", "fold_with", "try_fold", "min", "max", "min_by", "max_by", "find_any", "find_first", "position_any", "all", "any"}
# element types of parallel reductions accepted as commutative monoids (suffix match on the last generic argument)
ACM_TYPES = [
    ("F", "field element generic F: addition / multiplication in a field"),
    ("ConfigWrapper<", "extension-field element (QuadExtField / CubicExtField instantiation): field multiplication"),
    ("core::result::Result<(), ark_serialize::error::SerializationError>", "conjunction of unit results; which error is reported may vary, Ok-ness does not"),
]
KNOWN_THREAD_SITES = {
    "ark_ff::fields::batch_inversion_and_mul",
    "ark_poly::domain::EvaluationDomain::distribute_powers_and_mul_by_const",
    "ark_poly::domain::utils::best_fft",
    "ark_poly::domain::utils::compute_powers",
    "ark_poly::polynomial::univariate::dense::DensePolynomial::<F>::internal_evaluate",
}


def is_rayon(f):
    return "rayon" in f.get("path", "") or "rayon" in (f.get("res") or "")


def rayon_closures(facts, fn):
    out = []
    for bb, t in fn.calls():
        if not is_rayon(t["f"]):
            continue
        for cid in closure_args(fn, t):
            c = facts.get(cid, fn.unit)
            if c is not None:
                out.append((t["f"].get("name"), c))
    return out


def touches_sync(facts, fn, depth=2, seen=None):
    seen = seen if seen is not None else set()
    if fn.id in seen:
        return None
    seen.add(fn.id)
    for bb, t in fn.calls():
        p = (t["f"].get("path", "") + " " + (t["f"].get("res") or "") + " " + (t["f"].get("self") or ""))
        for m in SYNC_MARKERS:
            if m.lower() in p.lower():
                return "%s calls %s" % (fn.id[-60:], t["f"].get("path"))
        if depth > 0:
            callee = facts.get(t["f"].get("res") or t["f"].get("path"), fn.unit)
            if callee is not None and callee.crate == fn.crate:
                r = touches_sync(facts, callee, depth - 1, seen)
                if r:
                    return r
    for c in facts.closures_of(fn):
        r = touches_sync(facts, c, depth, seen)
        if r:
            return r
    return None


def check_freeze(res, facts):
    rule = res.rule("R-FREEZE", "closures executed by rayon capture only Freeze data and use no synchronisation / interior mutability", 45)
    for fn in facts.fns(unit="par"):
        if "::tests::" in fn.id or "::test::" in fn.id:
            continue
        for how, clo in rayon_closures(facts, fn):
            key = "%s|%s|%s" % (fn.crate, clo.id[-120:], how)
            bad = [u for u in clo.d.get("upvars", []) if not u.get("freeze", True)]
            sync = touches_sync(facts, clo)
            if bad:
                rule.bad(key, "closure run by rayon::%s captures non-Freeze data (%s): shared mutable state makes the result schedule-dependent" % (how, bad[0]["ty"][-80:]), "%s:%s" % (clo.d.get("file"), clo.d.get("line")))
            elif sync:
                rule.bad(key, "closure run by rayon::%s reaches a synchronisation / interior-mutability primitive (%s)" % (how, sync), "%s:%s" % (clo.d.get("file"), clo.d.get("line")))
            else:
                rule.ok(key, "%d captures, all Freeze" % len(clo.d.get("upvars", [])), "%s:%s" % (clo.d.get("file"), clo.d.get("line")))


def check_reduce(res, facts):
    rule = res.rule("R-REDUCE", "parallel reductions are over commutative monoids (frozen type table); par_bridge feeds order-insensitive consumers only", 8)
    for fn in facts.fns(unit="par"):
        if "::tests::" in fn.id or "::test::" in fn.id:
            continue
        for bb, t in fn.calls():
            f = t["f"]
            if not is_rayon(f):
                continue
            n = f.get("name")
            if n in REDUCTIONS:
                ty = (f.get("targs") or ["?"])[-1]
                key = "%s|%s|%s" % (fn.crate, fn.id[-110:], n)
                ok = next((why for suf, why in ACM_TYPES if ty == suf or ty.endswith(suf) or (suf.endswith("<") and suf in ty)), None)
                if ok:
                    rule.ok(key, "%s over %s: %s" % (n, ty[-50:], ok), fn.loc)
                else:
                    rule.bad(key, "parallel %s over `%s`, a type not in the table of commutative monoids: rayon combines partial results in a schedule-dependent tree, so a non-associative/commutative operator gives schedule-dependent results" % (n, ty[-90:]), fn.loc)
            if n == "par_bridge":
                key = "%s|%s|par_bridge" % (fn.crate, fn.id[-110:])
                consumers = [t2["f"].get("name") for _, t2 in fn.calls() if is_rayon(t2["f"]) and t2["f"].get("name") not in ("par_bridge",)]
                if all(c in ("try_for_each", "for_each", "all", "any", "sum", "product", "count") for c in consumers):
                    rule.ok(key, "unordered bridge consumed by %s" % sorted(set(consumers)), fn.loc)
                else:
                    rule.bad(key, "par_bridge (which loses element order) feeds an order-sensitive consumer %s" % sorted(set(consumers)), fn.loc)


def local_callees(facts, fn, seen=None, depth=3):
    """names (def paths) of crate-local, non-closure functions reached from fn through its closures"""
    seen = seen if seen is not None else set()
    out = set()
    if fn.id in seen or depth < 0:
        return out
    seen.add(fn.id)
    for bb, t in fn.calls():
        p = t["f"].get("res") or t["f"].get("path", "")
        if p.startswith(fn.crate + "::") or p.startswith("<" + fn.crate) or ("<" in p and (" " + fn.crate + "::") in p):
            nm = t["f"].get("name")
            out.add(nm)
    for c in facts.closures_of(fn):
        out |= local_callees(facts, c, seen, depth - 1)
    return out


def check_kernel(res, facts):
    rule = res.rule("R-KERNEL", "functions that differ between serial and parallel builds reach the same crate-local kernels", 6)
    ser = {}
    for fn in facts.fns(unit="ws"):
        if fn.kind != "Closure":
            ser[(fn.crate, fn.id)] = fn
    for fn in facts.fns(unit="par"):
        if fn.kind == "Closure" or "::tests::" in fn.id or "::test::" in fn.id:
            continue
        s = ser.get((fn.crate, fn.id))
        if s is None:
            continue
        uses_rayon = any(is_rayon(t["f"]) for _, t in fn.calls()) or any(is_rayon(t["f"]) for c in facts.closures_of(fn) for _, t in c.calls())
        if not uses_rayon:
            continue
        ks, kp = local_callees(facts, s), local_callees(facts, fn)
        key = "%s|%s" % (fn.crate, fn.id[-120:])
        missing = ks - kp
        # serial arms may call a `*_serial` helper that the parallel arm calls per chunk under the same name: handled by name equality
        if missing:
            rule.bad(key, "the serial build reaches %s but the parallel build of the same function does not: the parallel arm re-implements instead of splitting the same kernel" % sorted(missing), fn.loc)
        else:
            rule.ok(key, "kernels: %s" % sorted(ks)[:6], fn.loc)


def check_threads(res, facts):
    rule = res.rule("R-THREADS", "functions consulting rayon::current_num_threads() are enumerated", 5)
    for fn in facts.fns(unit="par"):
        for bb, t in fn.calls():
            if t["f"].get("name") == "current_num_threads" and is_rayon(t["f"]):
                root = fn.id if fn.kind != "Closure" else fn.d.get("parent", fn.id)
                key = "%s|%s" % (fn.crate, root[-120:])
                known = root in KNOWN_THREAD_SITES or any(root.endswith(k.split("::", 1)[-1]) for k in KNOWN_THREAD_SITES) or "io_helper" in root or "oi_helper" in root
                if known:
                    rule.ok(key, "known work-splitting site", fn.loc)
                else:
                    rule.undecided(key, "new use of the thread count: its effect on the result is arithmetic on run-time sizes and must be reviewed", fn.loc)


EXACT = {"chunks_exact", "par_chunks_exact", "chunks_exact_mut", "par_chunks_exact_mut", "array_chunks", "as_chunks", "rchunks_exact"}
REMAINDER = {"remainder", "into_remainder", "remainder_mut", "take_remainder", "into_remainder_mut"}


def check_tail(res, facts):
    rule = res.rule("R-TAIL", "exact-size chunking never drops its remainder (work split into equal shares must also process the tail)", 2)
    for fn in facts.fns():
        if "::tests::" in fn.id or "::test::" in fn.id or fn.kind == "Closure":
            continue
        group = [fn] + facts.closures_of(fn)
        ex = [(f, t) for f in group for _, t in f.calls() if t["f"].get("name") in EXACT]
        if not ex:
            continue
        rem = [t for f in group for _, t in f.calls() if t["f"].get("name") in REMAINDER]
        key = "%s/%s|%s" % (fn.unit, fn.crate, fn.id[-120:])
        witness = fn.crate == "verif_shapes"
        if rem:
            if witness and fn.name == "tail_keeper":
                rule.ok(key, "witness twin: remainder consumed, not matched", fn.loc)
            else:
                rule.ok(key, "remainder consumed", fn.loc)
        elif witness:
            rule.ok(key, "positive witness matched (the rule still sees exact chunking without remainder)", fn.loc)
        else:
            rule.bad(key, "%s splits the input into equal shares and never looks at the remainder: the last len %% share elements are silently skipped (depends on the thread count / input length)" % ex[0][1]["f"]["name"], fn.loc)
    if not any(k[0].startswith("shapes/verif_shapes") and "tail_dropper" in k[0] for k in rule.instances):
        rule.bad("witness|tail_dropper", "the positive example in /verif/witness/shapes was not matched: rule has gone blind")


CHUNKERS = {"par_chunks", "par_chunks_mut", "chunks", "chunks_mut", "par_chunks_exact", "par_chunks_exact_mut", "chunks_exact", "chunks_exact_mut"}


def check_stride(res, facts):
    """chunk i of `xs.par_chunks(K).enumerate()` starts at element i*K: whenever the closure turns the chunk index into an
    element offset (index * S), S must be the very chunk length K handed to the chunker -- otherwise the per-chunk
    offsets depend on how the split was made (thread count, clamping) and the parallel result differs from the
    serial one."""
    from rules.c07 import E, show, A
    rule = res.rule("R-STRIDE", "element offset of chunk i is i * (the chunk length passed to the chunker)", 3)
    for unit in ("par",):
        for fn in facts.fns(unit=unit):
            if "::tests::" in fn.id or fn.crate not in ("ark_ff", "ark_ec", "ark_poly", "ark_serialize"):
                continue
            chunk_calls = [(bb, t) for bb, t in fn.calls() if t["f"].get("name") in CHUNKERS and len(t["args"]) >= 2]
            if not chunk_calls:
                continue
            ks = [E(fn, t["args"][1]) for _, t in chunk_calls]
            for bb, t in fn.calls():
                cids = closure_args(fn, t)
                if not cids or not t["args"]:
                    continue
                recv = show(E(fn, t["args"][0]))
                if "enumerate(" not in recv or not any(n + "(" in recv for n in CHUNKERS):
                    continue
                env = E(fn, t["args"][1]) if len(t["args"]) > 1 else None
                ops = env[2] if isinstance(env, tuple) and env[0] == "agg" else ()
                for cid in cids:
                    clo = facts.get(cid, unit)
                    if clo is None:
                        continue
                    idx = A(2, "0")
                    from rules.c17 import to_q, NotPoly
                    from rules.c07 import qeq
                    from arklib.poly import Q

                    def sub(t_):
                        if not isinstance(t_, tuple) or not t_:
                            return t_
                        if t_[0] == "arg" and t_[1] == 1 and t_[2] and isinstance(t_[2][0], str) and t_[2][0].isdigit() and int(t_[2][0]) < len(ops):
                            base = ops[int(t_[2][0])]
                            return base if len(t_[2]) == 1 else ("proj", base, t_[2][1:])
                        return tuple(sub(x) for x in t_)

                    def leaf(x):
                        if x == idx:
                            return "i"
                        if x in ks:
                            return "K"
                        return "<%s>" % show(x)[:80]
                    found = []
                    # (a) plain index arithmetic  i * S
                    for bi, si, st_ in clo.stmts():
                        r = st_.get("r")
                        if r and r["k"] == "bin" and r["op"].startswith("Mul"):
                            a_, b_ = E(clo, r["a"]), E(clo, r["b"])
                            if idx in (a_, b_):
                                found.append(("offset", sub(("bin", "Mul", a_, b_))))
                    # (b) powers whose exponent depends on the index, through captured powers as well
                    for _, ct in clo.calls():
                        if ct["f"].get("name") == "pow" and len(ct["args"]) == 2:
                            term = sub(E(clo, {"c": __import__("arklib.facts", fromlist=["place_parts"]).place_parts(ct["d"])[0]}))
                            if "arg2.0" in show(term) or show(idx) in show(term):
                                found.append(("power", term))
                    n_ok = 0
                    for kind, term in found:
                        try:
                            if kind == "offset":
                                q = to_q(term, leaf)
                            else:
                                q = Q.const(1)
                                tt = term
                                while isinstance(tt, tuple) and tt[0] == "pow":
                                    q = q * to_q(tt[2], leaf)
                                    tt = tt[1]
                        except NotPoly:
                            continue
                        if "i" not in repr(q):
                            continue
                        key = "%s|%s|%s|%s%d" % (fn.crate, fn.id[-80:], t["f"].get("name"), kind, n_ok)
                        n_ok += 1
                        if qeq(q, Q.var("i") * Q.var("K")):
                            rule.ok(key, "%s of chunk i is i * (chunk length %s)" % (kind, show(ks[0])[:60]), fn.loc)
                        else:
                            rule.bad(key, "the %s used for chunk i is %s, but the chunks were cut with length K = %s: chunk i starts at element i*K, so the pieces are combined at the wrong positions and the result depends on the split (thread count)" % (kind, str(q)[:160], [show(k)[:100] for k in ks]), fn.loc)


def check_chunknz(res, facts):
    """a chunk length derived from the thread count is a run-time quantity that can be zero (empty input, more threads
    than elements); `chunks(0)` / `par_chunks_mut(0)` panic.  Every such length must be clamped from below by a positive
    constant -- then the split differs between thread counts but is always well formed."""
    from rules.c07 import norm, show
    rule = res.rule("R-CHUNKNZ", "chunk lengths derived from the number of threads are clamped to at least 1", 3)
    CH = ("chunks", "chunks_mut", "par_chunks", "par_chunks_mut", "chunks_exact", "chunks_exact_mut", "par_chunks_exact", "par_chunks_exact_mut")
    seen = set()
    for f in facts.fns(unit="par"):
        if "::test" in f.id or f.crate not in ("ark_ff", "ark_ec", "ark_poly", "ark_serialize"):
            continue
        for bb, t in f.calls():
            if t["f"].get("name") not in CH or len(t["args"]) != 2:
                continue
            e = norm(DF.lift_captures(facts, f, DF.expr(f, t["args"][1], depth=30)))
            txt = show(e)
            if "current_num_threads" not in txt:
                continue
            key = "%s|%s|%s" % (f.crate, f.id[-90:], t["f"]["name"])
            if key in seen:
                continue
            seen.add(key)
            clamped = isinstance(e, tuple) and e[0] == "call" and e[1] == "max" and len(e[2]) == 2 and any(isinstance(x, int) and x >= 1 for x in e[2])
            guarded = False
            if not clamped:
                # `if len == 0 { ...; return }` before the split: the site is control dependent on the non-zero side of a
                # test of this very length
                cd = DF.control_deps(f)
                todo, seen_sw = [bb], set()
                while todo:
                    x = todo.pop()
                    for (sw, succ) in cd.get(x, ()):
                        if (sw, succ) in seen_sw:
                            continue
                        seen_sw.add((sw, succ))
                        todo.append(sw)
                        tt = f.bbs[sw]["t"]
                        c = norm(DF.lift_captures(facts, f, DF.expr(f, tt["o"], depth=30)))
                        nonzero_side = None
                        if c == e and tt.get("vals") == [0]:
                            nonzero_side = (succ == tt["else"])
                        elif isinstance(c, tuple) and c[0] == "bin" and len(c) == 4 and e in (c[2], c[3]) and tt.get("vals") == [0]:
                            other = c[3] if c[2] == e else c[2]
                            truth = (succ == tt["else"])
                            op = c[1] if c[2] == e else {"Lt": "Gt", "Gt": "Lt", "Le": "Ge", "Ge": "Le"}.get(c[1], c[1])
                            if other == 0:
                                nonzero_side = (op in ("Ne", "Gt") and truth) or (op in ("Eq", "Le") and not truth)
                            elif other == 1:
                                nonzero_side = (op == "Ge" and truth) or (op == "Lt" and not truth)
                        if nonzero_side:
                            guarded = True
            if clamped:
                rule.ok(key, "length %s" % txt[:80], f.loc)
            elif guarded:
                rule.ok(key, "length %s, split reached only on the non-zero side of a test of this length" % txt[:80], f.loc)
            else:
                rule.bad(key, "the chunk length %s depends on the number of threads and is not clamped to at least 1: for an empty input (or fewer elements than the expression assumes) it is 0 and %s panics -- only in builds with the parallel feature" % (txt[:100], t["f"]["name"]), f.loc)


def run(ctx, res):
    facts = ctx.facts(["ws", "par", "shapes"])
    res.analysed = facts.stats()
    check_freeze(res, facts)
    check_reduce(res, facts)
    check_kernel(res, facts)
    rc = res.rule("R-CHUNK", "chunked parallel reductions are independent of the number of chunks", 7)
    chunk.check_chunks(rc, facts, ["par"])
    check_threads(res, facts)
    check_tail(res, facts)
    check_stride(res, facts)
    check_chunknz(res, facts)
    from rules import c01
    c01.check_batchinv_par(res, facts)
    # the wNAF MSM cuts its scalars in a serial and in a parallel twin; both must keep the digit rows aligned with the bases
    from rules import c05
    c05.check_digitalign(res, facts)
    return {
        "level": "other",
        "explanation": "Effect/ownership and sibling rules over the MIR of the crates built with their `parallel` features, compared with the serial build: captured state of every rayon closure is Freeze and free of synchronisation primitives, parallel reductions are over commutative monoids, serial and parallel variants of a function share their kernels, chunk accumulators start from the monoid identity. Together with Rust's Send/Sync typing this decides independence of the interleaving for a fixed split. Correctness of per-chunk offsets / tails for every thread count is arithmetic on run-time values and NOT decided (the `configurations` half of the quantifier).",
        "assumptions": ["rustc's Send/Sync checking (no data races in safe code)", "field/group operations are associative and commutative (C01-C03)"],
    }
