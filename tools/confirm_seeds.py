#!/usr/bin/env python3
"""Independent confirmation of seeded changes (run by the builder, not by any check).

For each seed directory /verif/seeded/<ID>-<V>: in a scratch worktree of /repo's HEAD
  1. run the demo on the unmodified tree              -> must exit 0
  2. apply patch.diff, build the workspace            -> must succeed
  3. run the repository's test suite                  -> must pass
  4. run the demo again                               -> must exit non-zero
and write the outcome to <seed>/confirm.json.  The worktree (with its build output) is removed at the end.
usage: confirm_seeds.py <worker-name> <seed> [<seed> ...]
"""
import sys, os, subprocess, json, shutil, time, re

REPO, SEEDED = "/repo", "/verif/seeded"
ENV = dict(os.environ, CARGO_NET_OFFLINE="true", CARGO_TERM_COLOR="never")


def sh(cmd, cwd, log, timeout=5400):
    t0 = time.time()
    with open(log, "a") as f:
        f.write("\n$ %s\n" % cmd)
        f.flush()
        try:
            r = subprocess.run(cmd, shell=True, cwd=cwd, env=ENV, stdout=f, stderr=subprocess.STDOUT, timeout=timeout)
            rc = r.returncode
        except subprocess.TimeoutExpired:
            rc = 124
    return rc, round(time.time() - t0)


def main():
    worker, seeds = sys.argv[1], sys.argv[2:]
    wt = "/tmp/cf_%s" % worker
    subprocess.run(["git", "-C", REPO, "worktree", "remove", "--force", wt], capture_output=True)
    subprocess.run(["git", "-C", REPO, "worktree", "add", "--detach", wt, "HEAD"], check=True, capture_output=True)
    head = subprocess.run(["git", "-C", REPO, "rev-parse", "--short", "HEAD"], capture_output=True, text=True).stdout.strip()
    if os.path.exists(os.path.join(REPO, "Cargo.lock")):
        shutil.copy(os.path.join(REPO, "Cargo.lock"), os.path.join(wt, "Cargo.lock"))      # untracked in /repo; some demos copy it
    try:
        for s in seeds:
            sd = os.path.join(SEEDED, s)
            v = s.rsplit("-", 1)[1]
            if v[:2] in ("r2", "r3", "r4", "r5"):
                v = v[2:]       # round-2 demos were written for SEED/A and SEED/B
            log = "/tmp/cf_%s_%s.log" % (worker, s)
            open(log, "w").close()
            subprocess.run("git checkout HEAD -- . && git clean -fdq -e target -e Cargo.lock", shell=True, cwd=wt)
            dst = os.path.join(wt, "SEED", v)
            shutil.rmtree(os.path.join(wt, "SEED"), ignore_errors=True)
            shutil.copytree(sd, dst)
            res = {"seed": s, "repo_head": head, "date": time.strftime("%Y-%m-%d %H:%M")}
            res["clean_demo_rc"], res["clean_demo_s"] = sh("bash SEED/%s/demo/run.sh" % v, wt, log, 3000)
            rc = subprocess.run(["git", "apply", os.path.join(dst, "patch.diff")], cwd=wt, capture_output=True, text=True)
            res["apply_rc"] = rc.returncode
            if rc.returncode != 0:
                res["apply_err"] = rc.stderr[-400:]
            elif os.environ.get("DEMO_ONLY") and os.path.exists(os.path.join(sd, "confirm.json")):
                old = json.load(open(os.path.join(sd, "confirm.json")))
                for k in ("build_rc", "build_s", "tests_s", "tests_rc", "tests_failed", "tests_passed"):
                    if k in old:
                        res[k] = old[k]
                res["note"] = "demo re-run with bash; build / test results from the first confirmation run on the same patch"
                res["patched_demo_rc"], res["patched_demo_s"] = sh("bash SEED/%s/demo/run.sh" % v, wt, log, 3000)
            else:
                res["build_rc"], res["build_s"] = sh("cargo build --offline --workspace -j 6", wt, log)
                trc, res["tests_s"] = sh("cargo test --offline --workspace --no-fail-fast -j 6", wt, log)
                txt = open(log).read()
                failed = sorted(set(re.findall(r"^test (\S+) \.\.\. FAILED", txt, re.M)))
                passed = len(re.findall(r"^test \S+ \.\.\. ok", txt, re.M))
                res.update({"tests_rc": trc, "tests_failed": failed, "tests_passed": passed})
                res["patched_demo_rc"], res["patched_demo_s"] = sh("bash SEED/%s/demo/run.sh" % v, wt, log, 3000)
            res["confirmed"] = bool(res.get("clean_demo_rc") == 0 and res.get("apply_rc") == 0 and res.get("build_rc") == 0
                                    and not res.get("tests_failed") and res.get("tests_rc") == 0 and res.get("patched_demo_rc") not in (0, None, 124))
            json.dump(res, open(os.path.join(sd, "confirm.json"), "w"), indent=1)
            print(s, json.dumps(res), flush=True)
    finally:
        subprocess.run(["git", "-C", REPO, "worktree", "remove", "--force", wt], capture_output=True)
        shutil.rmtree(wt, ignore_errors=True)


main()
