"""C07 R-DFT -- the serial mixed-radix FFT *is* the DFT, decided for small concrete sizes by polynomial-constant
propagation over the MIR.

`serial_mixed_radix_fft(a, omega, two_adicity)` is evaluated abstractly with

  * the slice `a` a concrete-length array of ring symbols a_0 .. a_{n-1},
  * `omega` the ring symbol w,
  * every integer (lengths, adicities, loop counters, permutation indices) concrete, so that all control flow is decided
    and the loops simply unroll (arklib/symex.py follows the MIR; no value of the field is ever inspected),
  * `F::SMALL_SUBGROUP_BASE` = Some(q) from the environment.

The result is, per output slot i, a polynomial in w and the a_j.  It must be linear in the a_j, and the coefficient c_ij(w) of
a_j must be congruent to w^(i*j mod n) modulo the n-th cyclotomic polynomial Phi_n(w) -- i.e. equal to omega^(ij) for EVERY
primitive n-th root of unity omega in every field (the radix-2 butterflies use omega^(n/2) = -1, the radix-q ones only
omega^n = 1; both follow from Phi_n(omega) = 0).  So for the sizes listed the statement "fft(a)[i] = sum_j a_j omega^(ij)"
is proved for all inputs and all fields, including the index permutation, the twiddle bases of every pass, the strides and
the butterfly bodies together -- the composition the structural rules (R-PASS, R-BFLY, R-ROOT ..) do not decide.

What it is not: a statement about sizes that are not listed (the loops are the same code for every size, but that is an
argument, not a proof), nor about the parallel split (R-PARFFT), nor about the radix-2 domain's own kernels.

Supplementary clause: when the engine cannot follow a reshaped body (an iterator adaptor without a model, a slice view) the
instance reports `no verdict` and the structural rules stand alone; a missing anchor fails closed.
"""
import copy

from arklib import symex as SX
from arklib.poly import Q


def _isint(x):
    return isinstance(x, int) and not isinstance(x, bool)


# ---- integer polynomials in one variable, as lists of coefficients (index = degree) ------------------------------

def _trim(p):
    while p and p[-1] == 0:
        p.pop()
    return p


def _divmod_monic(a, b):
    """a = q*b + r for monic b"""
    a = list(a)
    q = [0] * max(0, len(a) - len(b) + 1)
    for i in range(len(a) - len(b), -1, -1):
        c = a[i + len(b) - 1]
        if c:
            q[i] = c
            for j, bj in enumerate(b):
                a[i + j] -= c * bj
    return _trim(q), _trim(a[:len(b) - 1])


def cyclotomic(n, _cache={}):
    if n in _cache:
        return _cache[n]
    p = [-1] + [0] * (n - 1) + [1]
    for d in range(1, n):
        if n % d == 0:
            p, r = _divmod_monic(p, cyclotomic(d))
            assert not r
    _cache[n] = p
    return p


def reduce_mod(coeffs, phi):
    """coeffs: {exponent: int} -> tuple of deg(phi) coefficients"""
    if not coeffs:
        return tuple([0] * (len(phi) - 1))
    a = [0] * (max(coeffs) + 1)
    for e, c in coeffs.items():
        a[e] += c
    _, r = _divmod_monic(a, phi)
    r = list(r) + [0] * (len(phi) - 1 - len(r))
    return tuple(r)


# ---- models ------------------------------------------------------------------------------------------------------

def _models(first=None):
    """`first(md, helpers)`: rule-specific models registered ahead of the shared ones"""
    def _len(ex, st, fr, t, a):
        v = ex.deref(a[0])
        if isinstance(v, SX.Obj) and v.adt == "array":
            return len(v.fields)
        return NotImplemented

    def _ident(ex, st, fr, t, a):
        v = ex.deref(a[0]) if len(a) == 1 else None
        return v if _isint(v) else NotImplemented

    def _try_from(ex, st, fr, t, a):
        v = ex.deref(a[0]) if len(a) == 1 else None
        return SX.Obj(adt="Result", variant="Ok", vidx=0, fields={0: v}) if _isint(v) else NotImplemented

    def _unwrap(ex, st, fr, t, a):
        o = ex.deref(a[0])
        if isinstance(o, SX.Obj) and o.variant in ("Some", "Ok"):
            return o.fields[0]
        return NotImplemented

    def _checked_pow(ex, st, fr, t, a):
        x, y = ex.deref(a[0]), ex.deref(a[1])
        return SX.some(x ** y) if _isint(x) and _isint(y) else NotImplemented

    def _pow(ex, st, fr, t, a):
        b = SX.q_of(ex.deref(a[0]))
        e = ex.deref(a[1])
        if isinstance(e, SX.Obj) and e.adt == "array" and len(e.fields) == 1 and _isint(e.fields[0]) and b is not None and not _isint(ex.deref(a[0])):
            r, k, sq = Q.const(1), e.fields[0], b
            while k:
                if k & 1:
                    r = r * sq
                k >>= 1
                if k:
                    sq = sq * sq
            return r
        return NotImplemented

    def _from_elem(ex, st, fr, t, a):
        n = ex.deref(a[1])
        if not _isint(n) or n > 4096:
            return NotImplemented
        return SX.Obj(adt="array", fields={i: copy.deepcopy(a[0]) for i in range(n)})

    def _index(ex, st, fr, t, a):
        if len(a) != 2:
            return NotImplemented
        i, r = ex.deref(a[1]), a[0]
        arr = ex.deref(r)
        if isinstance(r, SX.Ref) and _isint(i) and isinstance(arr, SX.Obj) and arr.adt == "array" and i in arr.fields:
            base = r
            while not base.projs and isinstance(base.cell.v, SX.Ref):
                base = base.cell.v
            return SX.Ref(base.cell, tuple(base.projs) + (("ci", i, False),))
        return NotImplemented

    def _with_capacity(ex, st, fr, t, a):
        return SX.Obj(adt="array", fields={})

    def _push(ex, st, fr, t, a):
        arr = ex.deref(a[0])
        if isinstance(arr, SX.Obj) and arr.adt == "array" and len(a) == 2:
            arr.fields[len(arr.fields)] = a[1]
            return SX.Obj(adt="()")
        return NotImplemented

    def _swap(ex, st, fr, t, a):
        if len(a) != 3:
            return NotImplemented
        arr, i, j = ex.deref(a[0]), ex.deref(a[1]), ex.deref(a[2])
        if isinstance(arr, SX.Obj) and arr.adt == "array" and _isint(i) and _isint(j) and i in arr.fields and j in arr.fields:
            arr.fields[i], arr.fields[j] = arr.fields[j], arr.fields[i]
            return SX.Obj(adt="()")
        return NotImplemented

    # ---- slice views and iterator adaptors (a body reshaped with chunks / split_at / step_by / zip is still followed)
    def _base(r, ex=None):
        """the innermost reference of a chain of references (&&[T] -> &[T]); with `ex`, chains through fields as well"""
        for _ in range(8):
            if not isinstance(r, SX.Ref):
                return r
            if not r.projs:
                if isinstance(r.cell.v, SX.Ref):
                    r = r.cell.v
                    continue
                return r
            if ex is None:
                return r
            loc = ("cell", r.cell)
            for p_ in r.projs:
                loc = ex.step(None, loc, p_) if loc else None
            v = ex.get(loc) if loc else None
            if isinstance(v, SX.Ref):
                r = v
                continue
            return r
        return r

    def _view(ex, r, start, length):
        r = _base(r, ex)
        arr = ex.deref(r)
        if not (isinstance(r, SX.Ref) and isinstance(arr, SX.Obj) and arr.adt == "array") or start < 0 or length < 0 or start + length > len(arr.fields):
            return None
        return SX.Ref(r.cell, tuple(r.projs) + (("sl", start, length),))

    def _elems(ex, v):
        """element references of a pyiter / of a reference to an array or view"""
        if isinstance(v, SX.Obj) and v.adt == "pyiter":
            return v.fields["items"]
        d = ex.deref(v)
        if isinstance(d, SX.Obj) and d.adt == "pyiter":
            return d.fields["items"]
        r = _base(v, ex)
        if isinstance(r, SX.Ref) and isinstance(d, SX.Obj) and d.adt == "array":
            return [SX.Ref(r.cell, tuple(r.projs) + (("ci", i, False),)) for i in range(len(d.fields))]
        if isinstance(d, SX.Obj) and d.adt == "array" and not isinstance(v, SX.Ref):
            return [d.fields[i] for i in sorted(d.fields)]        # a vector consumed by value
        if isinstance(d, SX.Obj) and isinstance(d.adt, str) and d.adt.endswith("ops::range::Range") and _isint(d.fields.get(0)) and _isint(d.fields.get(1)):
            return list(range(d.fields[0], d.fields[1]))           # a..b as an iterator
        return _drain(ex, v)

    _PLAIN = ("array", "pyiter", "tuple", "closure", "fn", "()", None)

    def _drain(ex, v, limit=20000):
        """items of a user-defined iterator struct (e.g. BitIteratorBE): its own `next` is run until it answers None"""
        d = ex.deref(v) if isinstance(v, SX.Ref) else v
        if not (isinstance(d, SX.Obj) and isinstance(d.adt, str) and d.adt not in _PLAIN and d.variant in (None, d.adt.rsplit("::", 1)[-1]) and "::" in d.adt):
            return None
        cands = [f for f in ex.facts.fns(unit=ex.unit) if f.name == "next" and f.kind != "Closure" and f.self_head == d.adt and (f.trait_impl or "").endswith("Iterator")]
        if len(cands) != 1:
            return None
        holder = SX.Ref(SX.Cell(d))
        out = []
        for _ in range(limit):
            sub = SX.State()
            paths = ex.run(cands[0], [holder], st=sub)
            if len(paths) != 1 or paths[0].flags:
                return None
            r = paths[0].ret
            if isinstance(r, SX.Obj) and r.variant == "None":
                return out
            if not (isinstance(r, SX.Obj) and r.variant == "Some"):
                return None
            if r.fields.get(0) is SX.TOP:
                return None          # the iterator's state is no longer concrete: it cannot be drained
            out.append(r.fields[0])
        return None

    def _pyiter(items):
        return SX.Obj(adt="pyiter", fields={"items": list(items)})

    def _chunks(exact):
        def h(ex, st, fr, t, a):
            if len(a) != 2:
                return NotImplemented
            size, arr = ex.deref(a[1]), ex.deref(a[0])
            if not (_isint(size) and size > 0 and isinstance(arr, SX.Obj) and arr.adt == "array"):
                return NotImplemented
            n = len(arr.fields)
            out = []
            for k in range(0, n, size):
                ln = min(size, n - k)
                if ln < size and exact:
                    break
                v = _view(ex, a[0], k, ln)
                if v is None:
                    return NotImplemented
                out.append(v)
            return _pyiter(out)
        return h

    def _split_at(ex, st, fr, t, a):
        if len(a) != 2:
            return NotImplemented
        m, arr = ex.deref(a[1]), ex.deref(a[0])
        if not (_isint(m) and isinstance(arr, SX.Obj) and arr.adt == "array" and m <= len(arr.fields)):
            return NotImplemented
        lo, hi = _view(ex, a[0], 0, m), _view(ex, a[0], m, len(arr.fields) - m)
        if lo is None or hi is None:
            return NotImplemented
        return SX.Obj(adt="tuple", fields={0: lo, 1: hi})

    def _index_range(ex, st, fr, t, a):
        if len(a) != 2:
            return NotImplemented
        rg, arr = ex.deref(a[1]), ex.deref(a[0])
        if not (isinstance(rg, SX.Obj) and isinstance(arr, SX.Obj) and arr.adt == "array" and isinstance(rg.adt, str) and "ops::range::Range" in rg.adt):
            return NotImplemented
        n = len(arr.fields)
        kind = rg.adt.rsplit("::", 1)[-1]
        f0, f1 = rg.fields.get(0), rg.fields.get(1)
        if kind == "RangeFrom" and _isint(f0):
            s0, e0 = f0, n
        elif kind == "Range" and _isint(f0) and _isint(f1):
            s0, e0 = f0, f1
        elif kind == "RangeTo" and _isint(f0):
            s0, e0 = 0, f0
        elif kind == "RangeFull":
            s0, e0 = 0, n
        else:
            return NotImplemented
        v = _view(ex, a[0], s0, e0 - s0) if s0 <= e0 <= n else None
        return v if v is not None else NotImplemented

    def _iter(ex, st, fr, t, a):
        it = _elems(ex, a[0]) if len(a) == 1 else None
        return _pyiter(it) if it is not None else NotImplemented

    def _next(ex, st, fr, t, a):
        d = ex.deref(a[0])
        if isinstance(d, SX.Obj) and d.adt == "pyiter":
            items = d.fields["items"]
            return SX.some(items.pop(0)) if items else SX.none()
        return NotImplemented

    def _copied(ex, st, fr, t, a):
        if len(a) != 1:
            return NotImplemented
        d = ex.deref(a[0]) if isinstance(a[0], SX.Ref) else a[0]
        if isinstance(d, SX.Obj) and d.variant == "Some" and d.adt != "pyiter":
            v = d.fields.get(0)
            return SX.some(copy.deepcopy(ex.deref(v)) if isinstance(v, SX.Ref) else v)
        if isinstance(d, SX.Obj) and d.variant == "None" and d.adt != "pyiter":
            return SX.none()
        it = _elems(ex, a[0])
        if it is None:
            return NotImplemented
        return _pyiter([copy.deepcopy(ex.deref(x)) if isinstance(x, SX.Ref) else x for x in it])

    def _adapt(fun, nargs):
        def h(ex, st, fr, t, a):
            if len(a) != nargs:
                return NotImplemented
            it = _elems(ex, a[0])
            k = ex.deref(a[1]) if nargs == 2 else None
            if it is None or (nargs == 2 and not _isint(k)):
                return NotImplemented
            return _pyiter(fun(it, k))
        return h

    def _once(ex, st, fr, t, a):
        return _pyiter([a[0]]) if len(a) == 1 else NotImplemented

    def _repeat(ex, st, fr, t, a):
        return SX.Obj(adt="pyrepeat", fields={"head": [], "value": a[0]}) if len(a) == 1 else NotImplemented

    def _chain(ex, st, fr, t, a):
        if len(a) != 2:
            return NotImplemented
        x = _elems(ex, a[0])
        y = a[1]
        if x is not None and isinstance(y, SX.Obj) and y.adt == "pyrepeat":
            return SX.Obj(adt="pyrepeat", fields={"head": list(x) + list(y.fields["head"]), "value": y.fields["value"]})
        y2 = _elems(ex, a[1])
        if x is not None and y2 is not None:
            return _pyiter(list(x) + list(y2))
        return NotImplemented

    def _zip(ex, st, fr, t, a):
        if len(a) != 2:
            return NotImplemented
        x = _elems(ex, a[0])
        if x is not None and isinstance(a[1], SX.Obj) and a[1].adt == "pyrepeat":
            head = a[1].fields["head"]
            y = [head[i] if i < len(head) else copy.deepcopy(a[1].fields["value"]) for i in range(len(x))]
            return _pyiter([SX.Obj(adt="tuple", fields={0: p_, 1: q_}) for p_, q_ in zip(x, y)])
        y = _elems(ex, a[1])
        if x is None or y is None:
            return NotImplemented
        return _pyiter([SX.Obj(adt="tuple", fields={0: p_, 1: q_}) for p_, q_ in zip(x, y)])

    def _into_iter(ex, st, fr, t, a):
        d = ex.deref(a[0]) if len(a) == 1 else None
        if isinstance(d, SX.Obj) and d.adt == "pyiter":
            return a[0] if not isinstance(a[0], SX.Ref) else d
        if isinstance(d, SX.Obj) and d.adt == "array":
            return _pyiter(_elems(ex, a[0]))
        return NotImplemented

    def _call_value(ex, st, f, argv):
        """apply a closure value or a function item to arguments (single decided path)"""
        f = ex.deref(f) if isinstance(f, SX.Ref) else f
        if isinstance(f, SX.Obj) and f.adt == "closure":
            return ex.call_closure(st, f, argv)
        if isinstance(f, SX.Obj) and f.adt == "fn":
            callee = ex.lookup(f.fields["fn"])
            if callee is None or callee.d["argc"] != len(argv):
                return SX.TOP
            sub = SX.State()
            sub.assume, sub.subst, sub.flags = st.assume, st.subst, st.flags
            paths = ex.run(callee, list(argv), st=sub)
            if len(paths) != 1:
                st.flags.add("closure-forks")
                return SX.TOP
            return paths[0].ret
        return SX.TOP

    def _range_items(ex, v):
        d = ex.deref(v)
        if isinstance(d, SX.Obj) and set(d.fields) >= {0, 1} and _isint(d.fields[0]) and _isint(d.fields[1]) and d.adt != "pyiter" and d.adt != "array" and d.adt != "tuple":
            return list(range(d.fields[0], d.fields[1]))
        return None

    def _map(ex, st, fr, t, a):
        if len(a) != 2:
            return NotImplemented
        items = _range_items(ex, a[0])
        if items is None:
            items = _elems(ex, a[0])
        if items is None:
            return NotImplemented
        out = []
        for it in items:
            r = _call_value(ex, st, a[1], [it])
            if r is SX.TOP:
                return NotImplemented
            out.append(r)
        return _pyiter(out)

    def _for_each(ex, st, fr, t, a):
        if len(a) != 2:
            return NotImplemented
        items = _range_items(ex, a[0])
        if items is None:
            items = _elems(ex, a[0])
        if items is None:
            return NotImplemented
        for it in list(items):
            r = _call_value(ex, st, a[1], [it])
            if r is SX.TOP:
                return NotImplemented
        return SX.Obj(adt="()")

    def _fold(ex, st, fr, t, a):
        if len(a) != 3:
            return NotImplemented
        items = _range_items(ex, a[0])
        if items is None:
            items = _elems(ex, a[0])
        if items is None:
            return NotImplemented
        acc = a[1]
        for it in items:
            acc = _call_value(ex, st, a[2], [acc, it])
            if acc is SX.TOP:
                return NotImplemented
        return acc

    def _pred_adaptor(kind):
        def h(ex, st, fr, t, a):
            items = _elems(ex, a[0]) if len(a) == 2 else None
            if items is None:
                return NotImplemented
            out, dropping = [], True
            for it in items:
                r = _call_value(ex, st, a[1], [SX.Ref(SX.Cell(it))])
                if not isinstance(r, bool):
                    return NotImplemented
                if kind == "skip_while":
                    if dropping and r:
                        continue
                    dropping = False
                    out.append(it)
                elif kind == "take_while":
                    if not r:
                        break
                    out.append(it)
                elif kind == "filter" and r:
                    out.append(it)
            return _pyiter(out)
        return h

    def _collect(ex, st, fr, t, a):
        d = ex.deref(a[0]) if len(a) == 1 else None
        if isinstance(d, SX.Obj) and d.adt == "pyiter":
            vals = [ex.deref(x) if isinstance(x, SX.Ref) else x for x in d.fields["items"]]
            return SX.Obj(adt="array", fields={i: copy.deepcopy(v) for i, v in enumerate(vals)})
        return NotImplemented

    def _int1(fun):
        def h(ex, st, fr, t, a):
            xs = [ex.deref(x) for x in a]
            if all(_isint(x) for x in xs):
                try:
                    return fun(*xs)
                except Exception:
                    return NotImplemented
            return NotImplemented
        return h

    def _to_vec(ex, st, fr, t, a):
        d = ex.deref(a[0]) if len(a) == 1 else None
        if isinstance(d, SX.Obj) and d.adt == "array":
            return SX.Obj(adt="array", fields={i: copy.deepcopy(v) for i, v in sorted(d.fields.items())})
        return NotImplemented

    def _vidx(v):
        if isinstance(v, SX.Obj) and v.vidx is not None and not v.fields:
            return v.vidx
        if isinstance(v, SX.Obj) and isinstance(v.name, str) and v.name.startswith("const:") and "#" in v.name:
            try:
                return int(v.name.rsplit("#", 1)[1])
            except ValueError:
                return None
        return None

    def _enum_eq(neg):
        def h(ex, st, fr, t, a):
            if len(a) != 2:
                return NotImplemented
            x, y = _vidx(ex.deref(a[0])), _vidx(ex.deref(a[1]))
            if x is None or y is None:
                return NotImplemented
            return (x == y) != neg
        return h

    def _noop(ex, st, fr, t, a):
        return SX.Obj(adt="()")

    def _deref(ex, st, fr, t, a):
        d = ex.deref(a[0]) if len(a) == 1 else None
        if isinstance(d, SX.Obj) and d.adt == "array" and isinstance(a[0], SX.Ref):
            return _base(a[0], ex)      # Vec<T> -> [T], &&[T] -> &[T]: the same storage
        return NotImplemented

    def extra(md):
        if first is not None:
            first(md, {"elems": _elems, "pyiter": _pyiter, "call_value": _call_value, "base": _base, "view": _view})
        md.on(SX.by(None, ("deref", "deref_mut", "as_mut_slice", "as_slice", "as_mut", "as_ref", "borrow_mut", "borrow")), _deref)
        md.on(SX.by("core::cmp::PartialEq", "eq"), _enum_eq(False))
        md.on(SX.by("core::cmp::PartialEq", "ne"), _enum_eq(True))
        md.on(SX.by(None, "map"), _map)
        md.on(SX.by(None, "for_each"), _for_each)
        md.on(SX.by("core::ops::bit::Not", "not"), lambda ex, st, fr, t, a: (not ex.deref(a[0])) if len(a) == 1 and isinstance(ex.deref(a[0]), bool) else NotImplemented)
        md.on(SX.by(None, "new", path_has="alloc::vec::Vec"), lambda ex, st, fr, t, a: SX.Obj(adt="array", fields={}) if not a else NotImplemented)
        md.on(SX.by(None, ("copied", "cloned")), _copied)
        md.on(SX.by(None, "fold"), _fold)
        md.on(SX.by(None, "skip_while"), _pred_adaptor("skip_while"))
        md.on(SX.by(None, "take_while"), _pred_adaptor("take_while"))
        md.on(SX.by(None, "filter"), _pred_adaptor("filter"))
        md.on(SX.by(None, "collect"), _collect)
        md.on(SX.by(None, "log2"), _int1(lambda n: 0 if n <= 1 else (n - 1).bit_length()))
        md.on(SX.by(None, "reverse_bits"), _int1(lambda x: int(format(x & (2 ** 64 - 1), "064b")[::-1], 2)))
        md.on(SX.by(None, "wrapping_shr"), _int1(lambda x, k: x >> (k % 64)))
        md.on(SX.by(None, "signum"), _int1(lambda x: (x > 0) - (x < 0)))
        md.on(SX.by(None, ("abs", "unsigned_abs")), _int1(lambda x: abs(x)))
        md.on(SX.by(None, "is_positive"), _int1(lambda x: x > 0))
        md.on(SX.by(None, "is_negative"), _int1(lambda x: x < 0))
        md.on(SX.by(None, "trailing_zeros"), _int1(lambda x: (x & -x).bit_length() - 1 if x else 64))
        md.on(SX.by(None, "count_ones"), _int1(lambda x: bin(x).count("1")))
        md.on(SX.by(None, "min"), _int1(lambda x, y: min(x, y)))
        md.on(SX.by(None, "max"), _int1(lambda x, y: max(x, y)))
        md.on(SX.by(None, ("to_vec", "to_owned")), _to_vec)
        md.on(SX.by(None, "shrink_to_fit"), _noop)
        md.on(SX.by("core::default::Default", "default"), lambda ex, st, fr, t, a: Q.const(0) if not a else NotImplemented)
        md.on(SX.by(None, ("chunks_exact_mut", "chunks_exact")), _chunks(True))
        md.on(SX.by(None, ("chunks_mut", "chunks")), _chunks(False))
        md.on(SX.by(None, ("split_at_mut", "split_at")), _split_at)
        md.on(SX.by(None, ("index", "index_mut")), _index_range)
        md.on(SX.by(None, ("iter", "iter_mut")), _iter)
        md.on(SX.by(None, "next"), _next)
        md.on(SX.by(None, "into_iter"), _into_iter)
        md.on(SX.by(None, "zip"), _zip)
        md.on(SX.by(None, "once"), _once)
        md.on(SX.by(None, "repeat"), _repeat)
        md.on(SX.by(None, "chain"), _chain)
        md.on(SX.by(None, "step_by"), _adapt(lambda it, k: it[::k] if k > 0 else [], 2))
        md.on(SX.by(None, "take"), _adapt(lambda it, k: it[:k], 2))
        md.on(SX.by(None, "skip"), _adapt(lambda it, k: it[k:], 2))
        md.on(SX.by(None, "rev"), _adapt(lambda it, k: it[::-1], 1))
        md.on(SX.by(None, "enumerate"), _adapt(lambda it, k: [SX.Obj(adt="tuple", fields={0: i, 1: x}) for i, x in enumerate(it)], 1))
        md.on(SX.by(None, "len"), _len)
        md.on(SX.by("core::convert::From", "from"), _ident)
        md.on(SX.by("core::convert::TryFrom", "try_from"), _try_from)
        md.on(SX.by(None, ("unwrap", "expect")), _unwrap)
        md.on(SX.by(None, "next_power_of_two"), _int1(lambda n: 1 if n <= 1 else 1 << (n - 1).bit_length()))
        md.on(SX.by(None, "checked_pow"), _checked_pow)
        md.on(SX.by(None, "pow"), _pow)
        md.on(SX.by(None, "from_elem"), _from_elem)
        md.on(SX.by(None, "index"), _index)
        md.on(SX.by(None, "index_mut"), _index)
        md.on(SX.by(None, "with_capacity"), _with_capacity)
        md.on(SX.by(None, "push"), _push)
        md.on(SX.by(None, "swap"), _swap)
    from rules.c15 import _loop_models
    return _loop_models(SX.ring_models(extra))


def evaluate(facts, fn, n, two_adicity, q, unit="ws"):
    """-> ('ok', [Q per output slot]) | ('noverdict', reason)"""
    ex = SX.Engine(facts, unit, _models(), env={"SMALL_SUBGROUP_BASE": SX.some(q)}, max_paths=4, max_depth=6, inline_limit=600, max_visits=200000)
    ex.strict_flow = True
    arr = SX.Obj(adt="array", fields={i: Q.var("a%d" % i) for i in range(n)})
    args = [SX.Ref(SX.Cell(arr)), Q.var("w"), two_adicity]
    if fn.d["argc"] != 3:
        return "noverdict", "signature changed (argc %d)" % fn.d["argc"]
    try:
        paths = ex.run(fn, args)
    except RecursionError:
        return "noverdict", "recursion limit"
    live = [p for p in paths if "panic" not in p.flags]
    if len(live) != 1:
        return "noverdict", "%d paths (control flow depends on a field value or an unmodelled call)" % len(live)
    p = live[0]
    if p.flags:
        return "noverdict", "not evaluable: %s" % sorted(p.flags)[:4]
    out = ex.deref(p.args.cell(1).v) if p.args is not None else None
    if not (isinstance(out, SX.Obj) and out.adt == "array" and len(out.fields) == n):
        return "noverdict", "output slice not recovered"
    vals = [SX.q_of(out.fields[i]) for i in range(n)]
    if any(v is None or not v.is_poly() for v in vals):
        return "noverdict", "an output slot is not a polynomial"
    return "ok", vals


def compare_with_dft(vals, n, m=None):
    """None if vals[i] == sum_{j<m} a_j w^(ij) modulo Phi_n(w) (m = number of inputs, n by default); else a message"""
    m = n if m is None else m
    phi = cyclotomic(n)
    for i, v in enumerate(vals):
        coef = {j: {} for j in range(n)}
        for mono, c in v.n.t.items():
            avars = [(nm, e) for nm, e in mono if nm != "w"]
            wexp = sum(e for nm, e in mono if nm == "w")
            if len(avars) != 1 or avars[0][1] != 1 or not avars[0][0].startswith("a"):
                return "output %d is not linear in the inputs (term %s)" % (i, mono)
            j = int(avars[0][0][1:])
            coef[j][wexp] = coef[j].get(wexp, 0) + c
        for j in range(n):
            got = reduce_mod(coef[j], phi)
            want = reduce_mod({(i * j) % n: 1}, phi) if j < m else reduce_mod({}, phi)
            if got != want:
                shown = " + ".join("%s*w^%d" % (c, e) if c != 1 else "w^%d" % e for e, c in sorted(coef[j].items())) or "0"
                return "output %d: the coefficient of input %d is %s, which is not omega^(%d*%d) = w^%d modulo Phi_%d(w)" % (i, j, shown, i, j, (i * j) % n, n)
    return None


SIZES_QUICK = [(3, 0, 3), (9, 0, 3), (6, 1, 3), (4, 2, 3), (12, 2, 3), (18, 1, 3), (5, 0, 5), (10, 1, 5)]
SIZES_THOROUGH = SIZES_QUICK + [(27, 0, 3), (36, 2, 3), (8, 3, 3), (24, 3, 3), (25, 0, 5), (20, 2, 5), (7, 0, 7), (14, 1, 7)]


def check_dft(res, facts, tier):
    rule = res.rule("R-DFT", "serial_mixed_radix_fft(a, omega)[i] = sum_j a_j omega^(ij) for the listed sizes n = q^a 2^b, all inputs, every primitive n-th root [polynomial-constant propagation over the MIR, coefficients compared modulo the cyclotomic polynomial]", 0)
    fns = [f for f in facts.fns(unit="ws", crate="ark_poly") if f.id.endswith("mixed_radix::serial_mixed_radix_fft") and f.kind != "Closure"]
    if not fns:
        rule.bad("ark_poly|serial_mixed_radix_fft|dft", "anchor missing")
        return
    fn = fns[0]
    for (n, two, q) in (SIZES_THOROUGH if tier == "thorough" else SIZES_QUICK):
        key = "ark_poly|serial_mixed_radix_fft|n=%d (q=%d, two_adicity=%d)" % (n, q, two)
        st, payload = evaluate(facts, fn, n, two, q)
        if st != "ok":
            rule.noverdict(key, "shape not modelled (%s)" % payload, fn.loc)
            continue
        msg = compare_with_dft(payload, n)
        if msg:
            rule.bad(key, "the transform is not the DFT of size %d: %s" % (n, msg), fn.loc)
        else:
            rule.ok(key, "all %d outputs equal the DFT sums modulo Phi_%d" % (n, n), fn.loc)


R2_QUICK = [2, 4, 8, 16]
R2_THOROUGH = R2_QUICK + [32, 64]


def evaluate_radix2(facts, fn, n):
    """fft_helper_in_place / ifft_helper_in_place of the radix-2 domain on a symbolic domain of size n (generator w, order II)"""
    ex = SX.Engine(facts, "ws", _models(), max_paths=4, max_depth=8, inline_limit=600, max_visits=400000)
    ex.strict_flow = True
    arr = SX.Obj(adt="array", fields={i: Q.var("a%d" % i) for i in range(n)})
    logn = n.bit_length() - 1
    # Radix2EvaluationDomain { size, log_size_of_group, size_as_field_element, size_inv, group_gen, group_gen_inv, offset, offset_inv, offset_pow_size }
    dom = SX.Obj(adt="ark_poly::domain::radix2::Radix2EvaluationDomain",
                 fields={0: n, 1: logn, 2: Q.var("nf"), 3: Q.var("ninv"), 4: Q.var("w"), 5: Q.var("w"), 6: Q.const(1), 7: Q.const(1), 8: Q.const(1)})
    order_ii = SX.Obj(adt="ark_poly::domain::radix2::fft::FFTOrder", variant="II", vidx=0, fields={})
    if fn.d["argc"] != 3:
        return "noverdict", "signature changed (argc %d)" % fn.d["argc"]
    try:
        paths = ex.run(fn, [SX.Ref(SX.Cell(dom)), SX.Ref(SX.Cell(arr)), order_ii])
    except RecursionError:
        return "noverdict", "recursion limit"
    live = [p for p in paths if "panic" not in p.flags]
    if len(live) != 1:
        return "noverdict", "%d paths" % len(live)
    p = live[0]
    if p.flags:
        return "noverdict", "not evaluable: %s" % sorted(p.flags)[:4]
    out = ex.deref(p.args.cell(2).v) if p.args is not None else None
    if not (isinstance(out, SX.Obj) and out.adt == "array" and len(out.fields) == n):
        return "noverdict", "output slice not recovered"
    vals = [SX.q_of(out.fields[i]) for i in range(n)]
    if any(v is None or not v.is_poly() for v in vals):
        return "noverdict", "an output slot is not a polynomial"
    return "ok", vals


def check_dft_radix2(res, facts, tier):
    rule = res.rule("R-DFT.radix2", "Radix2EvaluationDomain: fft_helper_in_place / ifft_helper_in_place (in-order) on a domain of size n with generator g give out[i] = sum_j a_j g^(ij), n = 2..16 (thorough: ..64): roots table, butterfly order, strides and the bit-reversal together [polynomial-constant propagation, modulo Phi_n]", 0)
    DOM = "ark_poly::domain::radix2::Radix2EvaluationDomain"
    fields = None
    for name in ("fft_helper_in_place", "ifft_helper_in_place"):
        fns = [f for f in facts.fns(unit="ws", crate="ark_poly") if f.name == name and f.kind != "Closure" and "radix2::fft::" in f.id]
        if not fns:
            rule.bad("ark_poly|radix2::%s|dft" % name, "anchor missing")
            continue
        for n in (R2_THOROUGH if tier == "thorough" else R2_QUICK):
            key = "ark_poly|radix2::%s|n=%d" % (name, n)
            st, payload = evaluate_radix2(facts, fns[0], n)
            if st != "ok":
                rule.noverdict(key, "shape not modelled (%s)" % payload, fns[0].loc)
                continue
            msg = compare_with_dft(payload, n)
            if msg:
                rule.bad(key, "the transform is not the DFT of size %d in the generator it is given: %s" % (n, msg), fns[0].loc)
            else:
                rule.ok(key, "all %d outputs equal the DFT sums modulo Phi_%d" % (n, n), fns[0].loc)


def check_root_order(res, facts):
    """FftField::get_root_of_unity(n), decided in the exponent domain: the configured roots are the symbols L (large-subgroup
    root, order 2^s q^k) and T (2-adic root, order 2^s); with small concrete parameters (s = 4, q = 3, k = 2) the body is
    evaluated for every n in a range: the result must be Some(L^e) or Some(T^e) with order(L)/gcd(e, order(L)) = n exactly
    when n = 2^a q^b with a <= s, b <= k (resp. n = 2^a, a <= s, for a field without a small subgroup), and None for every
    other n.  Independent of how the powering is organised (loops, one exponentiation, early returns)."""
    from math import gcd
    rule = res.rule("R-ROOT.order", "get_root_of_unity(n) returns an element of order exactly n for every admissible n and None otherwise [evaluation in the exponent domain with s = 4, q = 3, k = 2, all n <= 160 and a few larger ones]", 0)
    fns = [f for f in facts.fns(unit="ws", crate="ark_ff") if f.name == "get_root_of_unity" and f.kind != "Closure" and (f.default_of or "").endswith("FftField")]
    if not fns:
        rule.bad("ark_ff|get_root_of_unity|order", "anchor missing")
        return False
    fn = fns[0]
    S, QB, K = 4, 3, 2
    worlds = {
        "small subgroup": ({"LARGE_SUBGROUP_ROOT_OF_UNITY": SX.some(Q.var("L")), "SMALL_SUBGROUP_BASE": SX.some(QB), "SMALL_SUBGROUP_BASE_ADICITY": SX.some(K)}, True),
        "two-adic only": ({"LARGE_SUBGROUP_ROOT_OF_UNITY": SX.none(), "SMALL_SUBGROUP_BASE": SX.none(), "SMALL_SUBGROUP_BASE_ADICITY": SX.none()}, False),
    }
    ns = list(range(0, 161)) + [256, 288, 432, 2 ** 20, 3 ** 5 * 4]
    decided = []
    for wname, (env0, small) in worlds.items():
        key = "ark_ff|get_root_of_unity|%s" % wname
        env = dict(env0)
        env.update({"TWO_ADICITY": S, "TWO_ADIC_ROOT_OF_UNITY": Q.var("T")})
        orders = {"L": (2 ** S) * (QB ** K), "T": 2 ** S}
        verdict = None
        for n in ns:
            ex = SX.Engine(facts, "ws", _models(), env=env, max_paths=4, max_depth=6, inline_limit=400, max_visits=5000)
            ex.strict_flow = True
            try:
                paths = [p for p in ex.run(fn, [n]) if "panic" not in p.flags]
            except RecursionError:
                verdict = ("noverdict", "recursion limit")
                break
            if len(paths) != 1 or paths[0].flags:
                verdict = ("noverdict", "n = %d: not evaluable (%s)" % (n, sorted(paths[0].flags)[:4] if paths else "no path"))
                break
            r = paths[0].ret
            # admissible n
            a = b = 0
            m = n
            while m and m % 2 == 0:
                m //= 2
                a += 1
            while small and m and m % QB == 0:
                m //= QB
                b += 1
            admissible = n >= 1 and m == 1 and a <= S and b <= K
            if isinstance(r, SX.Obj) and r.variant == "None":
                if admissible:
                    verdict = ("bad", "n = %d is admissible (2^%d * %d^%d) but no root is returned" % (n, a, QB, b))
                    break
                continue
            if not (isinstance(r, SX.Obj) and r.variant == "Some"):
                verdict = ("noverdict", "n = %d: result is not an Option value" % n)
                break
            v = SX.q_of(r.fields.get(0))
            if v is None or not v.is_poly() or len(v.n.t) > 1:
                verdict = ("noverdict", "n = %d: result %s is not a power of a configured root" % (n, r.fields.get(0)))
                break
            (mono, c), = list(v.n.t.items()) or [((), 1)]
            if c != 1 or len(mono) > 1 or (mono and mono[0][0] not in orders):
                verdict = ("noverdict", "n = %d: result %s is not a power of one configured root" % (n, v))
                break
            if not mono:
                order = 1
            else:
                base, e = mono[0]
                order = orders[base] // gcd(e, orders[base])
            if not admissible:
                verdict = ("bad", "n = %d is not of the form %s within the configured adicities, but Some(%s) is returned" % (n, "2^a * q^b" if small else "2^a", v))
                break
            if order != n:
                verdict = ("bad", "n = %d: the returned element %s has order %d (orders: L = 2^%d * %d^%d, T = 2^%d), not %d" % (n, v, order, S, QB, K, S, n))
                break
        if verdict is None:
            rule.ok(key, "%d values of n: element of order exactly n for admissible n, None otherwise" % len(ns), fn.loc)
            decided.append(True)
        elif verdict[0] == "bad":
            rule.bad(key, verdict[1], fn.loc)
            decided.append(True)
        else:
            rule.noverdict(key, "shape not modelled (%s)" % verdict[1], fn.loc)
            decided.append(False)
    return len(decided) == 2 and all(decided)


def _degree_aware_first(md, H):
    import copy as _copy

    def is_one(ex, st, fr, t, a):
        q = SX.q_of(ex.deref(a[0])) if len(a) == 1 else None
        if q is not None and q.is_poly() and q.n.is_const():
            return q.n.const_value() == 1
        return NotImplemented
    md.on(SX.by(None, "is_one"), is_one)
    ival = lambda ex, x: ex.deref(x)
    md.on(SX.by(None, "is_power_of_two"), lambda ex, st, fr, t, a: (ival(ex, a[0]) > 0 and ival(ex, a[0]) & (ival(ex, a[0]) - 1) == 0) if len(a) == 1 and _isint(ival(ex, a[0])) else NotImplemented)
    md.on(SX.by(None, "checked_next_power_of_two"), lambda ex, st, fr, t, a: SX.some(1 if ival(ex, a[0]) <= 1 else 1 << (ival(ex, a[0]) - 1).bit_length()) if len(a) == 1 and _isint(ival(ex, a[0])) else NotImplemented)
    md.on(SX.by(None, "checked_sub"), lambda ex, st, fr, t, a: (SX.some(ival(ex, a[0]) - ival(ex, a[1])) if ival(ex, a[0]) >= ival(ex, a[1]) else SX.none()) if len(a) == 2 and all(_isint(ival(ex, x)) for x in a) else NotImplemented)
    md.on(SX.by(None, "size"), lambda ex, st, fr, t, a: ival(ex, a[0]).fields.get(0) if len(a) == 1 and isinstance(ival(ex, a[0]), SX.Obj) and "Radix2EvaluationDomain" in str(ival(ex, a[0]).adt) else NotImplemented)

    def fill(ex, st, fr, t, a):
        it = H["elems"](ex, a[0]) if len(a) == 2 else None
        if it is None:
            return NotImplemented
        for r in it:
            ex.write_ref(r, _copy.deepcopy(a[1]))
        return SX.Obj(adt="()")
    md.on(SX.by(None, "fill"), fill)

    def resize(ex, st, fr, t, a):
        d = ex.deref(a[0]) if len(a) == 3 else None
        k = ex.deref(a[1]) if len(a) == 3 else None
        if isinstance(d, SX.Obj) and d.adt == "array" and _isint(k):
            cur = len(d.fields)
            for i in range(cur, k):
                d.fields[i] = _copy.deepcopy(a[2])
            for i in range(k, cur):
                d.fields.pop(i, None)
            return SX.Obj(adt="()")
        return NotImplemented
    md.on(SX.by(None, "resize"), resize)


DEGREE_AWARE = [(2, 1), (2, 2), (4, 1), (4, 3), (8, 1), (8, 3), (8, 5), (8, 8), (16, 2), (16, 5), (16, 9)]


def check_degree_aware(res, facts, tier):
    rule = res.rule("R-DFT.degree-aware", "Radix2EvaluationDomain::degree_aware_fft_in_place on m <= n coefficients gives out[i] = sum_{j<m} a_j g^(ij): the zero padding, the partial bit reversal, the duplication of initial values and the shortened butterfly schedule together [polynomial-constant propagation, modulo Phi_n]", 0)
    fns = [f for f in facts.fns(unit="ws", crate="ark_poly") if f.name == "degree_aware_fft_in_place" and f.kind != "Closure" and "radix2::fft::" in f.id]
    if not fns:
        rule.bad("ark_poly|radix2::degree_aware_fft_in_place|dft", "anchor missing")
        return
    fn = fns[0]
    sizes = DEGREE_AWARE + ([(32, 3), (32, 17), (64, 5)] if tier == "thorough" else [])
    for n, m in sizes:
        key = "ark_poly|radix2::degree_aware_fft_in_place|n=%d, %d coefficients" % (n, m)
        ex = SX.Engine(facts, "ws", _models(_degree_aware_first), max_paths=4, max_depth=8, inline_limit=600, max_visits=400000)
        ex.strict_flow = True
        arr = SX.Obj(adt="array", fields={i: Q.var("a%d" % i) for i in range(m)})
        logn = n.bit_length() - 1
        dom = SX.Obj(adt="ark_poly::domain::radix2::Radix2EvaluationDomain",
                     fields={0: n, 1: logn, 2: Q.var("nf"), 3: Q.var("ninv"), 4: Q.var("w"), 5: Q.var("w"), 6: Q.const(1), 7: Q.const(1), 8: Q.const(1)})
        if fn.d["argc"] != 2:
            rule.noverdict(key, "shape not modelled (signature changed)", fn.loc)
            continue
        try:
            paths = [p for p in ex.run(fn, [SX.Ref(SX.Cell(dom)), SX.Ref(SX.Cell(arr))]) if "panic" not in p.flags]
        except RecursionError:
            rule.noverdict(key, "shape not modelled (recursion limit)", fn.loc)
            continue
        if len(paths) != 1 or paths[0].flags:
            rule.noverdict(key, "shape not modelled (%s)" % (sorted(paths[0].flags)[:4] if paths else "no path"), fn.loc)
            continue
        out = ex.deref(paths[0].args.cell(2).v) if paths[0].args is not None else None
        if not (isinstance(out, SX.Obj) and out.adt == "array" and len(out.fields) == n):
            rule.bad(key, "the result vector has %s entries, expected the domain size %d" % (len(out.fields) if isinstance(out, SX.Obj) else "?", n), fn.loc)
            continue
        vals = [SX.q_of(out.fields[i]) for i in range(n)]
        if any(v is None or not v.is_poly() for v in vals):
            rule.noverdict(key, "shape not modelled (an output slot is not a polynomial)", fn.loc)
            continue
        msg = compare_with_dft(vals, n, m)
        if msg:
            rule.bad(key, "not the evaluations of the degree-%d polynomial on the size-%d domain: %s" % (m - 1, n, msg), fn.loc)
        else:
            rule.ok(key, "all %d outputs equal sum_{j<%d} a_j w^(ij) modulo Phi_%d" % (n, m, n), fn.loc)
