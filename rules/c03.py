"""C03 — curve point operations realise the elliptic-curve group law: kernel identities and dispatch.

R-POLY.sw / R-POLY.te: the formula blocks of the short-Weierstrass (Jacobian) and twisted-Edwards
(extended) point types are evaluated symbolically (arklib/symex.py) and compared, as identities of
rational functions valid for all inputs with non-vanishing denominators, with the textbook affine
chord-and-tangent law / Edwards addition law written independently below.
R-EQ: projective equality compares the cross-multiplied coordinates; is_on_curve tests exactly the curve
equation.
R-DISPATCH: the exceptional cases of SW addition (equal x: doubling or identity) are taken before the
general formula; Sub/SubAssign/Sum are defined through Neg and AddAssign.
"""
from arklib import symex as SX, dataflow as DF
from arklib.poly import Q, Poly
from arklib.facts import op_local
from rules.kernels import V, decided, apply_subst, short

SWP = "ark_ec::models::short_weierstrass::group::Projective"
SWA = "ark_ec::models::short_weierstrass::affine::Affine"
TEP = "ark_ec::models::twisted_edwards::group::Projective"
TEA = "ark_ec::models::twisted_edwards::affine::Affine"
A, B, D = V("const:COEFF_A"), V("const:COEFF_B"), V("const:COEFF_D")
ONE, ZERO = Q.const(1), Q.const(0)


def models(extdeg):
    def extra(m):
        m.on(SX.by("ark_ff::fields::Field", "extension_degree"), lambda ex, st, fr, t, a: extdeg)

        def contains(ex, st, fr, t, a):
            arr, x = ex.deref(a[0]), ex.deref(a[1])
            if isinstance(arr, SX.Obj) and isinstance(x, int) and all(isinstance(v, int) for v in arr.fields.values()):
                return x in arr.fields.values()
            return NotImplemented
        m.on(SX.by(None, "contains"), contains)

        def then(ex, st, fr, t, a):
            b = a[0]
            if isinstance(b, bool):
                if not b:
                    return SX.none()
                r = ex.call_closure(st, a[1], [])
                return SX.some(r) if r is not SX.TOP else SX.TOP
            return NotImplemented
        m.on(SX.by(None, "then", "core::bool"), then)

        def then_some(ex, st, fr, t, a):
            if isinstance(a[0], bool):
                return SX.some(a[1]) if a[0] else SX.none()
            return NotImplemented
        m.on(SX.by(None, "then_some", "core::bool"), then_some)

        def map_or_else(ex, st, fr, t, a):
            v = a[0]
            if isinstance(v, SX.Obj) and v.variant == "Some":
                return ex.call_closure(st, a[2], [v.fields.get(0, SX.TOP)])
            return NotImplemented
        m.on(SX.by(None, "map_or_else", "core::option::Option"), map_or_else)
    return SX.ring_models(extra)


def sw_proj(n):
    return SX.Obj(adt=SWP, fields={0: SX.Obj(name=n + ".x"), 1: SX.Obj(name=n + ".y"), 2: SX.Obj(name=n + ".z")})


def sw_aff(n, infinity=False):
    return SX.Obj(adt=SWA, fields={0: SX.Obj(name=n + ".x"), 1: SX.Obj(name=n + ".y"), 2: infinity})


def te_proj(n):
    X, Y, Z = V(n + ".x"), V(n + ".y"), V(n + ".z")
    # extended coordinates carry T with T*Z = X*Y
    return SX.Obj(adt=TEP, fields={0: SX.Obj(name=n + ".x"), 1: SX.Obj(name=n + ".y"), 2: Q((X * Y).n, Z.n), 3: SX.Obj(name=n + ".z")})


def te_aff(n):
    return SX.Obj(adt=TEA, fields={0: SX.Obj(name=n + ".x"), 1: SX.Obj(name=n + ".y")})


def ref(o):
    return SX.Ref(SX.Cell(o))


def coords(ex, v, n):
    v = ex.deref(v)
    if not isinstance(v, SX.Obj):
        return None
    return [SX.q_of(ex.deref(v.fields.get(i, SX.TOP))) if not isinstance(v.fields.get(i), bool) else v.fields.get(i) for i in range(n)]


def sw_affine_of(c):
    X, Y, Z = c
    return X / (Z * Z), Y / (Z * Z * Z)


def sw_add_affine(P1, P2):
    (x1, y1), (x2, y2) = P1, P2
    lam = (y2 - y1) / (x2 - x1)
    x3 = lam * lam - x1 - x2
    return x3, lam * (x1 - x3) - y1


def sw_dbl_affine(P1, a):
    x1, y1 = P1
    lam = (Q.const(3) * x1 * x1 + a) / (y1 + y1)
    x3 = lam * lam - x1 - x1
    return x3, lam * (x1 - x3) - y1


def te_add_affine(P1, P2, a=A, d=D):
    (x1, y1), (x2, y2) = P1, P2
    t = d * x1 * x2 * y1 * y2
    return (x1 * y2 + y1 * x2) / (ONE + t), (y1 * y2 - a * x1 * x2) / (ONE - t)


def te_dbl_affine(P1, a=A):
    x, y = P1
    return (x * y + x * y) / (a * x * x + y * y), (y * y - a * x * x) / (Q.const(2) - a * x * x - y * y)


def find(facts, name, self_head, trait=None, rhs=None):
    out = []
    for fn in facts.fns(unit="ws", crate="ark_ec"):
        if fn.name != name or fn.kind == "Closure" or fn.self_head != self_head:
            continue
        if fn.d.get("mac"):
            continue      # macro-generated forwarding impls (by-value / &mut forms) are not the kernels
        if (trait is None) != (fn.trait_impl is None):
            continue
        if trait is not None and fn.trait_impl != trait:
            continue
        if rhs is not None:
            ta = (fn.impl or {}).get("trait_args") or []
            if len(ta) < 2 or rhs not in ta[1]:
                continue
        out.append(fn)
    return out


def run_paths(facts, fn, args, md, **kw):
    ex = SX.Engine(facts, "ws", md, max_paths=kw.get("max_paths", 300), inline_limit=400, max_depth=6)
    return ex, ex.run(fn, args)


def operand_var(v):
    return v.startswith("p.") or v.startswith("q.")


def general_paths(paths):
    """paths on which no operand was assumed to be the identity and no coordinates were assumed equal"""
    out = []
    for p in paths:
        if "panic" in p.flags:
            continue
        # an operand coordinate pinned to zero (identity) or to an expression of the other operand (equal / opposite
        # points) is a special position; a coordinate pinned to a non-zero constant (`z == 1` fast paths) is not
        def special_subst(v, val):
            if not operand_var(v):
                return False
            vs = val.vars() if hasattr(val, "vars") else set()
            if vs:
                return True
            try:
                return val.is_zero()
            except Exception:
                return True
        if any(special_subst(v, val) for v, val in p.st.subst.items()):
            continue
        special = False
        for c in p.assume:
            if c.neg or c.kind not in ("zero", "eq"):
                continue
            vs = set()
            for side in (c.a, c.b):
                if isinstance(side, Q):
                    vs |= side.vars()
            if any(operand_var(v) for v in vs):
                special = True
        if not special:
            out.append(p)
    return out


def needs_x_test(c, p):
    """chord formulas (Jacobian add / madd / mmadd) are the group law only for distinct x-coordinates: a path that returns
    their result must have tested, and excluded, equality of the (scaled) x-coordinates of the two operands"""
    for cond in p.assume:
        if cond.kind == "eq" and cond.neg:
            vs = set()
            for side in (cond.a, cond.b):
                if isinstance(side, Q):
                    vs |= side.vars()
            if any(v.startswith("p.") for v in vs) and any(v.startswith("q.") for v in vs):
                return None
    return "the chord formula is returned on a path that never tested the x-coordinates of the operands for equality (assumptions %s): for P + P it yields Z3 = 0, the identity, instead of 2P" % [str(c_) for c_ in p.assume][:6]


def check_identity(rule, key, fn, ex, paths, want_fn, ncoord, to_affine, extra=None):
    gp = general_paths(paths)
    if not gp:
        rule.undecided(key, "no general-position path found (%d paths)" % len(paths), fn.loc)
        return
    good = 0
    for p in gp:
        if not decided(p):
            rule.undecided(key, "path not evaluable: %s" % sorted(p.flags)[:3], fn.loc)
            return
        c = coords(ex, p.args.cell(1).v if p.args is not None else None, ncoord)
        if c is None or any(x is None for x in c):
            rule.undecided(key, "result coordinates are not ring values", fn.loc)
            return
        got = to_affine(c)
        want = want_fn(p)
        for i, (g, w) in enumerate(zip(got, want)):
            w = apply_subst(w, p.st)
            if not g.equals(w):
                rule.bad(key, "%s-coordinate of the result differs from the group law%s: got %s" % ("xy"[i], (" on the arm assuming %s" % [c for c in p.assume if not c.neg]) if p.assume else "", short(g, 200)), fn.loc)
                return
        if extra:
            msg = extra(c, p)
            if msg:
                rule.bad(key, msg, fn.loc)
                return
        good += 1
    rule.ok(key, "%d general-position path(s): rational identity with the affine group law holds" % good, fn.loc)


def check_sw(res, facts):
    rule = res.rule("R-POLY.sw", "short-Weierstrass Jacobian formulas equal the affine chord-and-tangent law (rational identity, all inputs)", 8)
    P1 = sw_affine_of([V("p.x"), V("p.y"), V("p.z")])
    P2 = sw_affine_of([V("q.x"), V("q.y"), V("q.z")])
    # doubling, three arms
    dbl = find(facts, "double_in_place", SWP, "ark_ff::fields::AdditiveGroup")
    if not dbl:
        rule.bad("SW::double_in_place", "kernel not found")
    else:
        for deg in (1, 6):
            ex, paths = run_paths(facts, dbl[0], [ref(sw_proj("p"))], models(deg))
            arms = {}
            for p in general_paths(paths):
                a0 = "const:COEFF_A" in p.st.subst
                arms.setdefault("a=0" if a0 else "a!=0", []).append(p)
            for arm, ps in sorted(arms.items()):
                key = "SW::double_in_place|%s|base-field degree %d" % (arm, deg)
                check_identity(rule, key, dbl[0], ex, ps, lambda p: sw_dbl_affine(P1, A), 3, sw_affine_of)
            if len(arms) < 2:
                rule.undecided("SW::double_in_place|arms|deg %d" % deg, "expected both the a = 0 and the general arm, found %s" % sorted(arms), dbl[0].loc)
    # projective + projective
    add = find(facts, "add_assign", SWP, "core::ops::arith::AddAssign", rhs="Projective")
    add = [f for f in add if ((f.impl or {}).get("trait_args") or ["", ""])[1].startswith("&") and "mut" not in ((f.impl or {}).get("trait_args") or ["", ""])[1][:9]]
    if not add:
        rule.bad("SW::add_assign(&Projective)", "kernel not found")
    else:
        ex, paths = run_paths(facts, add[0], [ref(sw_proj("p")), ref(sw_proj("q"))], models(1))
        check_identity(rule, "SW::add_assign(&Projective)|general arm", add[0], ex, paths, lambda p: sw_add_affine(P1, P2), 3, sw_affine_of, extra=needs_x_test)
    # mixed addition
    madd = [f for f in facts.fns(unit="ws", crate="ark_ec") if f.name == "add_assign" and f.self_head == SWP and f.trait_impl == "core::ops::arith::AddAssign" and ((f.impl or {}).get("trait_args") or ["", ""])[1] == "T"]
    if not madd:
        rule.bad("SW::add_assign(Affine)", "kernel not found")
    else:
        md = models(1)
        ex, paths = run_paths(facts, madd[0], [ref(sw_proj("p")), ref(sw_aff("q"))], md)
        Qa = (V("q.x"), V("q.y"))
        check_identity(rule, "SW::add_assign(Affine)|general arm", madd[0], ex, paths, lambda p: sw_add_affine(P1, Qa), 3, sw_affine_of, extra=needs_x_test)
    # negation
    neg = find(facts, "neg", SWP, "core::ops::arith::Neg")
    if neg:
        ex, paths = run_paths(facts, neg[0], [sw_proj("p")], models(1))
        ok = False
        for p in paths:
            c = coords(ex, p.ret, 3)
            if c and None not in c:
                ok = c[0].equals(V("p.x")) and c[1].equals(-V("p.y")) and c[2].equals(V("p.z"))
        (rule.ok if ok else rule.bad)("SW::neg", "-(X, Y, Z) = (X, -Y, Z)", neg[0].loc)
    # affine <- projective
    conv = [f for f in facts.fns(unit="ws", crate="ark_ec") if f.name == "from" and f.self_head == SWA and f.trait_impl == "core::convert::From" and "short_weierstrass::group::Projective" in " ".join((f.impl or {}).get("trait_args") or [])]
    if conv:
        ex, paths = run_paths(facts, conv[0], [sw_proj("p")], models(1))
        good = bad = 0
        for p in paths:
            if "panic" in p.flags or not decided(p):
                continue
            c = coords(ex, p.ret, 3)
            if not c or c[2] is not False and c[2] != 0:
                continue
            if c[0] is None or c[1] is None:
                continue
            wx, wy = apply_subst(P1[0], p.st), apply_subst(P1[1], p.st)
            if c[0].equals(wx) and c[1].equals(wy):
                good += 1
            else:
                bad += 1
        if bad:
            rule.bad("SW::Affine::from(Projective)", "affine image is not (X/Z^2, Y/Z^3)", conv[0].loc)
        elif good:
            rule.ok("SW::Affine::from(Projective)", "%d non-identity path(s): (X/Z^2, Y/Z^3)" % good, conv[0].loc)
        else:
            rule.undecided("SW::Affine::from(Projective)", "no evaluable path", conv[0].loc)


def check_te(res, facts):
    rule = res.rule("R-POLY.te", "twisted-Edwards extended-coordinate formulas equal the affine Edwards law (rational identity modulo T*Z = X*Y)", 4)
    aff = lambda c: (c[0] / c[3], c[1] / c[3])
    P1 = (V("p.x") / V("p.z"), V("p.y") / V("p.z"))
    P2 = (V("q.x") / V("q.z"), V("q.y") / V("q.z"))

    def tz(c, p):
        # extended-coordinate invariant of the output
        if not (c[2] * c[3]).equals(c[0] * c[1]):
            return "output violates the extended-coordinate invariant T*Z = X*Y"
        return None
    dbl = find(facts, "double_in_place", TEP, "ark_ff::fields::AdditiveGroup")
    if dbl:
        ex, paths = run_paths(facts, dbl[0], [ref(te_proj("p"))], models(1))
        check_identity(rule, "TE::double_in_place", dbl[0], ex, paths, lambda p: te_dbl_affine(P1), 4, aff, tz)
    else:
        rule.bad("TE::double_in_place", "kernel not found")
    add = [f for f in find(facts, "add_assign", TEP, "core::ops::arith::AddAssign", rhs="Projective") if ((f.impl or {}).get("trait_args") or ["", ""])[1].startswith("&") and "mut" not in ((f.impl or {}).get("trait_args") or ["", ""])[1][:9]]
    if add:
        ex, paths = run_paths(facts, add[0], [ref(te_proj("p")), ref(te_proj("q"))], models(1))
        check_identity(rule, "TE::add_assign(&Projective)", add[0], ex, paths, lambda p: te_add_affine(P1, P2), 4, aff, tz)
    else:
        rule.bad("TE::add_assign(&Projective)", "kernel not found")
    madd = [f for f in facts.fns(unit="ws", crate="ark_ec") if f.name == "add_assign" and f.self_head == TEP and f.trait_impl == "core::ops::arith::AddAssign" and ((f.impl or {}).get("trait_args") or ["", ""])[1] == "T"]
    if madd:
        md = models(1)
        ex, paths = run_paths(facts, madd[0], [ref(te_proj("p")), ref(te_aff("q"))], md)
        check_identity(rule, "TE::add_assign(Affine)", madd[0], ex, paths, lambda p: te_add_affine(P1, (V("q.x"), V("q.y"))), 4, aff, tz)
    else:
        rule.bad("TE::add_assign(Affine)", "kernel not found")
    neg = find(facts, "neg", TEP, "core::ops::arith::Neg")
    if neg:
        ex, paths = run_paths(facts, neg[0], [te_proj("p")], models(1))
        ok = False
        for p in paths:
            c = coords(ex, p.ret, 4)
            if c and None not in c:
                ok = c[0].equals(-V("p.x")) and c[1].equals(V("p.y")) and c[3].equals(V("p.z")) and (c[2] * c[3]).equals(c[0] * c[1])
        (rule.ok if ok else rule.bad)("TE::neg", "-(X, Y, T, Z) = (-X, Y, -T, Z)", neg[0].loc)
    # an override of AdditiveGroup::neg_in_place (the provided method goes through Neg): every cached coordinate has to follow
    for nip in [f for f in facts.fns(unit="ws", crate="ark_ec") if f.kind != "Closure" and f.name == "neg_in_place" and f.self_head == TEP]:
        ex, paths = run_paths(facts, nip, [ref(te_proj("p"))], models(1))
        verdict = None
        for p in paths:
            c = coords(ex, ex.deref(p.args.cell(1).v), 4) if p.args is not None else None
            if c and None not in c:
                verdict = c[0].equals(-V("p.x")) and c[1].equals(V("p.y")) and c[3].equals(V("p.z")) and c[2].equals(-V("p.t"))
                if not verdict:
                    break
        if verdict is None:
            rule.noverdict("TE::neg_in_place", "override not evaluable", nip.loc)
        elif verdict:
            rule.ok("TE::neg_in_place", "(X, Y, T, Z) becomes (-X, Y, -T, Z)", nip.loc)
        else:
            rule.bad("TE::neg_in_place", "the in-place negation leaves (%s, %s, %s, %s): expected (-X, Y, -T, Z) -- the cached product T = XY/Z has to change sign with X, later additions read it" % tuple(str(x)[:30] for x in c), nip.loc)


def eq_conds(p, ret):
    """all equality conditions a path assumed true plus the one it returns"""
    out = [c for c in p.assume if c.kind == "eq" and not c.neg]
    if isinstance(ret, SX.Cond) and ret.kind == "eq" and not ret.neg:
        out.append(ret)
    return out


def check_eq(res, facts):
    rule = res.rule("R-EQ", "projective equality compares cross-multiplied coordinates; is_on_curve tests the curve equation", 6)
    # SW Projective == Projective
    for head, name, ncoord in ((SWP, "SW", 3), (TEP, "TE", 4)):
        eqs = [f for f in find(facts, "eq", head, "core::cmp::PartialEq") if "Projective" in ((f.impl or {}).get("trait_args") or ["", ""])[1]]
        if not eqs:
            rule.bad("%s::Projective::eq" % name, "kernel not found")
            continue
        mk = sw_proj if name == "SW" else te_proj
        ex, paths = run_paths(facts, eqs[0], [ref(mk("p")), ref(mk("q"))], models(1))
        x1, y1, z1, x2, y2, z2 = V("p.x"), V("p.y"), V("p.z"), V("q.x"), V("q.y"), V("q.z")
        if name == "SW":
            want = [x1 * z2 * z2 - x2 * z1 * z1, y1 * z2 * z2 * z2 - y2 * z1 * z1 * z1]
        else:
            want = [x1 * z2 - x2 * z1, y1 * z2 - y2 * z1]
        found = False
        for p in paths:
            if not decided(p) or "panic" in p.flags or any(operand_var(v) for v in p.st.subst):
                continue
            cs = eq_conds(p, p.ret)
            diffs = [(c.a - c.b) for c in cs if isinstance(c.a, Q) and isinstance(c.b, Q)]
            if len(diffs) == 2 and p.ret is not False:
                found = True
                okk = all(any(d.equals(w) or d.equals(-w) for d in diffs) for w in want)
                if okk:
                    rule.ok("%s::Projective::eq" % name, "true only when X1*Z2^k = X2*Z1^k and Y1*Z2^m = Y2*Z1^m", eqs[0].loc)
                else:
                    rule.bad("%s::Projective::eq" % name, "equality compares %s instead of the cross-multiplied coordinates: result depends on the projective representative" % [short(d, 80) for d in diffs], eqs[0].loc)
                break
        if not found:
            rule.undecided("%s::Projective::eq" % name, "no path with two coordinate comparisons found", eqs[0].loc)
    # identity predicates on projective representatives
    for head, name in ((SWP, "SW"), (TEP, "TE")):
        fns = find(facts, "is_zero", head, "num_traits::identities::Zero")
        key = "%s::Projective::is_zero" % name
        if not fns:
            rule.bad(key, "kernel not found")
            continue
        if name == "SW":
            argv = sw_proj("p")
        else:
            # free T here: the predicate must test it
            argv = SX.Obj(adt=TEP, fields={0: SX.Obj(name="p.x"), 1: SX.Obj(name="p.y"), 2: SX.Obj(name="p.t"), 3: SX.Obj(name="p.z")})
        ex, paths = run_paths(facts, fns[0], [ref(argv)], models(1))
        x, y, t, z = V("p.x"), V("p.y"), V("p.t"), V("p.z")
        true_paths = []
        for p in paths:
            if not decided(p):
                continue
            r = p.ret
            if r is False:
                continue
            conds = [c for c in p.assume if not c.neg] + ([r] if isinstance(r, SX.Cond) and not r.neg else [])
            subst = dict(p.st.subst)
            true_paths.append((conds, subst, p))
        if not true_paths:
            rule.undecided(key, "no path returning true found", fns[0].loc)
            continue
        okk = True
        why = ""
        for conds, subst, p in true_paths:
            zeroed = {v for v, pol in subst.items() if pol.is_zero()}
            eqs = [(c.a - c.b) for c in conds if c.kind == "eq" and isinstance(c.a, Q) and isinstance(c.b, Q)]
            eqs += [c.a for c in conds if c.kind == "zero" and isinstance(c.a, Q)]
            for e in eqs:
                if e.is_poly() and len(e.n.t) == 1:
                    (m, cf), = e.n.t.items()
                    if len(m) == 1 and m[0][1] == 1:
                        zeroed.add(m[0][0])
            for v, pol in subst.items():
                if not pol.is_zero():
                    eqs.append(Q.var(v) - Q(pol))
            if name == "SW":
                if "p.z" not in zeroed:
                    okk, why = False, "answers true without Z = 0"
            else:
                need_zero = {"p.x", "p.t"}
                has_yz = any(e.equals(apply_subst(y - z, p.st)) or e.equals(apply_subst(z - y, p.st)) or e.equals(y - z) or e.equals(z - y) for e in eqs)
                if not need_zero <= zeroed:
                    okk, why = False, "answers true without testing %s = 0" % sorted(need_zero - zeroed)
                elif not has_yz:
                    okk, why = False, "answers true without testing Y = Z: every representative (0 : -s : 0 : s) of the order-two point (0, -1) is reported as the identity"
        if okk:
            rule.ok(key, "identity iff %s" % ("Z = 0" if name == "SW" else "X = 0, T = 0, Y = Z"), fns[0].loc)
        else:
            rule.bad(key, why, fns[0].loc)
    # is_on_curve
    for head, name, mk in ((SWA, "SW", lambda: sw_aff("p")), (TEA, "TE", lambda: te_aff("p"))):
        fns = find(facts, "is_on_curve", head)
        if not fns:
            rule.bad("%s::is_on_curve" % name, "kernel not found")
            continue
        ex, paths = run_paths(facts, fns[0], [ref(mk())], models(1))
        x, y = V("p.x"), V("p.y")
        verdicts = []
        for p in paths:
            if not decided(p) or "panic" in p.flags:
                continue
            r = p.ret
            if isinstance(r, SX.Cond) and r.kind == "eq" and isinstance(r.a, Q) and isinstance(r.b, Q):
                d = r.a - r.b
                if name == "SW":
                    w = y * y - (x * x * x + A * x + B)
                else:
                    w = (y * y + A * x * x) - (ONE + D * x * x * y * y)
                w = apply_subst(w, p.st)
                verdicts.append(d.equals(w) or d.equals(-w))
        if verdicts and all(verdicts):
            rule.ok("%s::is_on_curve" % name, "%d arm(s): tests exactly the curve equation" % len(verdicts), fns[0].loc)
        elif verdicts:
            rule.bad("%s::is_on_curve" % name, "the tested equation is not the curve equation on some configuration arm", fns[0].loc)
        else:
            rule.undecided("%s::is_on_curve" % name, "no comparison found", fns[0].loc)


def check_dispatch(res, facts):
    rule = res.rule("R-DISPATCH", "exceptional cases of SW addition precede the general formula; subtraction is addition of the negation", 2)
    # SW add: on the path where U1 == U2 and S1 == S2 the result is the doubling; where U1 == U2 only, identity
    for label, rhs_filter in (("SW::add_assign(&Projective)", lambda f: "Projective" in ((f.impl or {}).get("trait_args") or ["", ""])[1] and ((f.impl or {}).get("trait_args") or ["", ""])[1].startswith("&") and "mut" not in ((f.impl or {}).get("trait_args") or ["", ""])[1][:9]),
                              ("SW::add_assign(Affine)", lambda f: ((f.impl or {}).get("trait_args") or ["", ""])[1] == "T")):
        fns = [f for f in facts.fns(unit="ws", crate="ark_ec") if f.name == "add_assign" and f.self_head == SWP and f.trait_impl == "core::ops::arith::AddAssign" and rhs_filter(f) and not f.d.get("mac")]
        if not fns:
            rule.bad(label, "kernel not found")
            continue
        fn = fns[0]
        names = [t["f"].get("name") for _, t in fn.calls()]
        # the doubling of the POINT (proved under R-POLY.sw), not a field element's double_in_place
        dbl = [bb for bb, t in fn.calls() if t["f"].get("name") in ("double_in_place", "double") and (SWP in (t["f"].get("self") or "") or SWP in (t["f"].get("res") or "") or SWP in (t["f"].get("path") or ""))]
        zero = [bb for bb, t in fn.calls() if t["f"].get("name") == "zero" and "Zero" in (t["f"].get("trait") or "")]
        cd = DF.control_deps(fn)
        if not dbl:
            rule.bad(label + "|P+P", "the equal-points arm does not hand over to the point doubling (double_in_place, proved under R-POLY.sw): with H = 0 the general formula returns Z3 = 0 for P + P, and a doubling formula written out in place is not covered by any proof here (e.g. the a = 0 form M = 3*XX on a curve with a != 0)", fn.loc)
        elif not zero:
            rule.bad(label + "|P-P", "no identity result on the opposite-points arm", fn.loc)
        else:
            # both exceptional results must be control dependent on at least two equality tests (x-equality, then y-equality)
            dep = DF.Dep(fn)

            def eq_guards(bb):
                n = 0
                for (sw, s) in transitive(cd, bb):
                    o = fn.bbs[sw]["t"].get("o")
                    l = op_local(o) if o else None
                    if l is not None and any(c["f"].get("name") == "eq" for _, c in dep.calls_in_slice([l])):
                        n += 1
                return n
            if eq_guards(dbl[0]) >= 2 and eq_guards(zero[0]) >= 1:
                rule.ok(label, "doubling guarded by x- and y-equality, identity by x-equality", fn.loc)
            else:
                rule.bad(label, "exceptional arms are not guarded by the coordinate equalities (doubling needs U1 == U2 and S1 == S2)", fn.loc)
    # Sub / SubAssign through Neg + AddAssign (symbolic at the group level)
    from rules import lincomb
    r2 = res.rule("R-LINCOMB.points", "Sub/SubAssign/Add by-value forms on points are defined through Neg and AddAssign", 4)
    f = lambda s: ("short_weierstrass::group::Projective<" in s or "twisted_edwards::group::Projective<" in s
                   or "short_weierstrass::affine::Affine<" in s or "twisted_edwards::affine::Affine<" in s)

    def affine_in_place(fn, key):
        # operators on AFFINE points have no formulas of their own on the pinned tree: they lift to the projective
        # kernels proved under R-POLY.  A formula written out in place is covered by no proof here.
        if "::affine::Affine<" in ((fn.impl or {}).get("self") or "") and fn.name in ("add", "sub", "add_assign", "sub_assign"):
            r2.bad(key, "operator on affine points is not defined through the projective kernels (into_group / add_assign / neg): a formula written out in place is covered by no identity here (e.g. an a = -1 Edwards addition on a curve with a != -1)", fn.loc)
    lincomb.check_operator_impls(r2, facts, "ws", "ark_ec", f, transparent=(), on_undecided=affine_in_place)


def transitive(cd, bb):
    seen, out, st = set(), set(), [bb]
    while st:
        x = st.pop()
        for (a, s) in cd.get(x, ()):
            if (a, s) not in out:
                out.add((a, s))
                if a not in seen:
                    seen.add(a)
                    st.append(a)
    return out


def check_convert(res, facts):
    """projective -> affine: Jacobian (X, Y, Z) -> (X/Z^2, Y/Z^3), extended Edwards (X, Y, T, Z) -> (X/Z, Y/Z), the
    identity to the identity; both the single conversion and the per-element kernel of normalize_batch (which receives
    the batch-inverted z)"""
    rule = res.rule("R-POLY.convert", "projective-to-affine conversions: (X/Z^2, Y/Z^3) for Jacobian, (X/Z, Y/Z) for extended Edwards, identity to identity", 4)
    for label, PH, AH, mk, want in (("SW", SWP, SWA, sw_proj, lambda: (V("p.x") / (V("p.z") * V("p.z")), V("p.y") / (V("p.z") * V("p.z") * V("p.z")))),
                                    ("TE", TEP, TEA, te_proj, lambda: (V("p.x") / V("p.z"), V("p.y") / V("p.z")))):
        fs = [f for f in facts.fns(unit="ws", crate="ark_ec") if f.kind != "Closure" and f.name == "from" and f.self_head == AH and f.trait_impl == "core::convert::From" and PH in (((f.impl or {}).get("trait_args") or ["", ""])[-1])]
        key = "%s::Affine::from(Projective)" % label
        if not fs:
            rule.bad(key, "kernel not found")
        else:
            fn = fs[0]
            ex, paths = run_paths(facts, fn, [mk("p")], models(1))
            general = id_paths = 0
            problems = []
            for p in paths:
                if "panic" in p.flags or "diverge" in p.flags:
                    continue
                c = coords(ex, p.ret, 3 if label == "SW" else 2)
                def is_zero_sub(name):
                    v_ = p.st.subst.get(name)
                    return v_ is not None and (v_.is_zero() if hasattr(v_, "is_zero") else False)
                # the Edwards identity (0, 1) is an ordinary affine point: no special arm
                zero_assumed = is_zero_sub("p.z") if label == "SW" else False
                if zero_assumed:
                    # identity arm: the canonical affine identity
                    if label == "SW":
                        ok = c is not None and c[2] is True
                    else:
                        ok = c is not None and c[0] is not None and c[1] is not None and c[0].is_zero() and c[1].equals(ONE)
                    if not ok:
                        problems.append("the identity (Z = 0 / point is_zero) is not mapped to the affine identity")
                    id_paths += 1
                    continue
                if c is None or c[0] is None or c[1] is None:
                    problems.append("result coordinates are not ring values on a general path")
                    continue
                wx, wy = want()
                wx, wy = apply_subst(wx, p.st), apply_subst(wy, p.st)
                if not (c[0].equals(wx) and c[1].equals(wy)):
                    problems.append("affine coordinates are (%s, %s), expected (%s, %s)" % (short(c[0], 80), short(c[1], 80), short(wx, 60), short(wy, 60)))
                if label == "SW" and c[2] is not False:
                    problems.append("a finite point is flagged as infinity")
                general += 1
            if not general:
                problems.append("no general-position path")
            if not id_paths and label == "SW":
                problems.append("no identity arm")
            (rule.bad if problems else rule.ok)(key, "; ".join(sorted(set(problems))[:3]) if problems else "%d general path(s) give the affine coordinates, %d identity path(s) give the identity" % (general, id_paths), fn.loc)
        # normalize_batch kernel: closure (g, zinv)
        nb = [f for f in facts.fns(unit="ws", crate="ark_ec") if f.kind == "Closure" and (f.d.get("parent") or "").endswith("normalize_batch") and PH.rsplit("::", 2)[0].rsplit("::", 1)[-1] in f.id and f.d["argc"] == 2 and f.local_ty(2).startswith("(")]
        key = "%s::normalize_batch kernel" % label
        if not nb:
            rule.bad(key, "kernel not found")
            continue
        clo = nb[0]
        arg = SX.Obj(adt="tuple", fields={0: ref(mk("p")), 1: SX.Obj(name="zi")})
        env = SX.Obj(adt="closure", variant=clo.id, fields={})
        a1 = SX.Ref(SX.Cell(env)) if clo.local_ty(1).startswith("&") else env
        ex, paths = run_paths(facts, clo, [a1, arg], models(1))
        zi = V("zi")
        wantk = (V("p.x") * zi * zi, V("p.y") * zi * zi * zi) if label == "SW" else (V("p.x") * zi, V("p.y") * zi)
        general = 0
        problems = []
        for p in paths:
            if "panic" in p.flags or "diverge" in p.flags:
                continue
            if any(c_.kind in ("zero", "eq") and not c_.neg for c_ in p.assume) or p.st.subst:
                continue
            c = coords(ex, p.ret, 2)
            if c is None or c[0] is None or c[1] is None:
                problems.append("kernel result not evaluable")
                continue
            if not (c[0].equals(wantk[0]) and c[1].equals(wantk[1])):
                problems.append("kernel gives (%s, %s) from the inverted z, expected (%s, %s)" % (short(c[0], 60), short(c[1], 60), short(wantk[0], 40), short(wantk[1], 40)))
            general += 1
        if not general:
            problems.append("no general-position path")
        (rule.bad if problems else rule.ok)(key, "; ".join(sorted(set(problems))[:3]) if problems else "(x, y) from 1/z: %s" % ("(X zi^2, Y zi^3)" if label == "SW" else "(X zi, Y zi)"), clo.loc)


def check_batchnorm(res, facts):
    """normalize_batch: the inverses fed to the coordinate maps are those of the z coordinates of the same points in the
    same order, the identity is kept on the is_zero arm, and a finite point (X, Y, Z) with w = 1/Z is sent to
    (X w^2, Y w^3) for Jacobian resp. (X w, Y w) for extended Edwards coordinates (compared as polynomials)"""
    from rules.c07 import E, show, qeq, A, C
    from rules.c17 import to_q, NotPoly
    rule = res.rule("R-BATCHNORM", "normalize_batch: per-point inverse of z, in order; (X/Z^2, Y/Z^3) resp. (X/Z, Y/Z); identity kept (supplementary clause: no verdict on shapes it does not model; the per-point kernel is proved under R-POLY.convert)", 0)
    for model, ex, ey in (("short_weierstrass", 2, 3), ("twisted_edwards", 1, 1)):
        fs = [f for f in facts.fns(unit="ws", crate="ark_ec") if f.kind != "Closure" and f.name == "normalize_batch" and ("models::%s::group" % model) in f.id]
        key = "ark_ec|%s::Projective::normalize_batch" % model
        if not fs:
            rule.bad(key, "anchor missing")
            continue
        f = fs[0]
        problems, unrec = [], []
        clos = [c for c in facts.fns(unit="ws", crate="ark_ec") if c.kind == "Closure" and c.id.startswith(f.id + "::{closure")]
        zclo = [c for c in clos if E(c, {"c": 0}) == A(2, "z")]
        pclo = [c for c in clos if any(t["f"].get("name") == "new_unchecked" for _, t in c.calls())]
        inv = [t for _, t in f.calls() if t["f"].get("name") == "batch_inversion"]
        zips = [t for _, t in f.calls() if t["f"].get("name") == "zip"]
        if len(zclo) != 1:
            unrec.append("no closure collecting the z coordinate of each point")
        if len(inv) != 1 or len(zips) != 1:
            unrec.append("expected one batch_inversion and one zip of the points with the inverses")
        else:
            zs = E(f, inv[0]["args"][0])
            okz = isinstance(zs, tuple) and zs[:2] == ("call", "collect") and isinstance(zs[2][0], tuple) and zs[2][0][:2] == ("call", "map") and zs[2][0][2][0] == C("iter", A(1))
            if not okz:
                unrec.append("the inverted vector %s is not of the modelled shape" % show(zs)[:60])
            za, zb = E(f, zips[0]["args"][0]), E(f, zips[0]["args"][1])
            if okz and (za != C("iter", A(1)) or zb != zs):
                problems.append("points are zipped as (%s, %s): the inverses are not paired with their own points" % (show(za)[:60], show(zb)[:60]))
            if any(t["f"].get("name") in ("rev", "skip", "step_by") for _, t in f.calls()):
                problems.append("an order-changing adaptor sits between the points and their inverses")
        if len(pclo) != 1:
            unrec.append("no closure building the affine points")
        else:
            c = pclo[0]
            nu = [t for _, t in c.calls() if t["f"].get("name") == "new_unchecked"][0]
            names = {A(2, "0", "x"): "X", A(2, "0", "y"): "Y", A(2, "1"): "w"}

            def leaf(t):
                if t in names:
                    return names[t]
                if isinstance(t, tuple) and t[:2] == ("call", "square") and len(t[2]) == 1:
                    q = to_q(t[2][0], leaf)
                    return q * q
                return None
            try:
                qx, qy = to_q(E(c, nu["args"][0]), leaf), to_q(E(c, nu["args"][1]), leaf)
                w = Q.var("w")
                wx, wy = Q.var("X"), Q.var("Y")
                for _ in range(ex):
                    wx = wx * w
                for _ in range(ey):
                    wy = wy * w
                if not (qeq(qx, wx) and qeq(qy, wy)):
                    problems.append("a finite point is sent to (%s, %s) with w = 1/Z; expected (%s, %s)" % (qx, qy, wx, wy))
            except NotPoly as e:
                problems.append("coordinate maps are not polynomials in (X, Y, 1/Z): %s" % e)
            guards = [E(c, b["t"]["o"]) for b in c.bbs if b["t"]["k"] == "switch"]
            idents = [t["f"].get("name") for _, t in c.calls() if t["f"].get("name") in ("identity", "zero")]
            if C("is_zero", A(2, "0")) not in guards or not idents:
                problems.append("the identity is not kept on an is_zero arm")
            else:
                cd = DF.control_deps(c)
                nbb = [bb for bb, t in c.calls() if t["f"].get("name") == "new_unchecked"][0]
                ibb = [bb for bb, t in c.calls() if t["f"].get("name") in ("identity", "zero")][0]
                gsw = [bi for bi, b in enumerate(c.bbs) if b["t"]["k"] == "switch" and E(c, b["t"]["o"]) == C("is_zero", A(2, "0"))][0]
                t_ = c.bbs[gsw]["t"]
                false_t, true_t = t_["tgts"][0], t_["else"]
                if not (_reach_bb(c, true_t, ibb) and not _reach_bb(c, true_t, nbb) and _reach_bb(c, false_t, nbb)):
                    problems.append("identity / finite arms are attached to the wrong outcome of is_zero")
        if problems:
            rule.bad(key, "; ".join(problems), f.loc)
        elif unrec:
            rule.noverdict(key, "shape not modelled (%s)" % "; ".join(unrec), f.loc)
        else:
            rule.ok(key, "z_i collected in order, batch-inverted, zipped with the points; finite point -> (X w^%d, Y w^%d), identity kept" % (ex, ey), f.loc)


def check_afflift(res, facts):
    """short-Weierstrass affine points carry an `infinity` flag beside (x, y); a projective point built from the raw
    coordinate fields of an affine value must sit on an arm that has looked at that flag (is_zero / xy() / the field
    itself) -- otherwise the identity is lifted to the finite pseudo-point (0 : 0 : 1), which is not on the curve"""
    from rules.c07 import E, show
    rule = res.rule("R-AFFLIFT", "SW: projective points are built from an affine value's raw coordinates only under a test of its infinity flag", 2)
    AFF = "ark_ec::models::short_weierstrass::affine::Affine"
    PROJ = "ark_ec::models::short_weierstrass::group::Projective"
    n_sites = 0
    witness = {}
    cands = [f for f in facts.fns(unit="ws", crate="ark_ec") if "short_weierstrass" in f.id and "::tests::" not in f.id]
    cands += [f for f in facts.fns(unit="shapes") if f.name in ("affine_lifter", "affine_lifter_checked")]
    for f in cands:
        sites = []
        for bb, t in f.calls():
            if t["f"].get("name") == "new_unchecked" and len(t["args"]) == 3 and PROJ in (t["f"].get("self") or t["f"].get("path") or ""):
                sites.append((bb, t["args"]))
        for bi, si, st_ in f.stmts():
            r = st_.get("r")
            if r and r.get("k") == "agg" and r.get("adt") == PROJ and len(r.get("ops", [])) == 3:
                sites.append((bi, r["ops"]))
        for bb, ops in sites:
            # raw coordinate fields of an affine value?
            bases = []
            for o, fld in zip(ops[:2], ("x", "y")):
                l = op_local(o)
                for _ in range(6):
                    if l is None:
                        break
                    ds = f.defs().get(l, [])
                    if len(ds) != 1 or ds[0][2] != "assign" or ds[0][3]["r"]["k"] not in ("use", "cast"):
                        break
                    src = ds[0][3]["r"]["o"]
                    if "k" in src:
                        break
                    from arklib.facts import op_place, place_parts
                    bl, projs = place_parts(op_place(src))
                    flds = [p_[2] for p_ in projs if isinstance(p_, (list, tuple)) and p_[0] == "f"]
                    if flds and flds[-1] == fld and AFF in f.local_ty(bl):
                        bases.append(bl)
                        break
                    if projs:
                        break
                    l = bl
            if len(bases) != 2 or bases[0] != bases[1]:
                continue
            n_sites += 1
            base = bases[0]
            key = "ark_ec|%s|lift of _%d" % (f.id[-90:], base)
            cd = DF.control_deps(f)
            seen, stack, guarded = set(), [bb], False
            while stack and not guarded:
                x = stack.pop()
                for (sw, succ_) in cd.get(x, ()):
                    if sw in seen:
                        continue
                    seen.add(sw)
                    stack.append(sw)
                    txt = show(E(f, f.bbs[sw]["t"]["o"]))
                    if "infinity" in txt or "is_zero(" in txt or "xy(" in txt or "is_identity(" in txt:
                        guarded = True
            if f.unit == "shapes":
                witness[f.name] = guarded
                n_sites -= 1
                continue
            (rule.ok if guarded else rule.bad)(key, "under a test of the infinity flag" if guarded else "a projective point is built as (a.x, a.y, z) from the raw coordinates of an affine value without looking at its infinity flag: the affine identity becomes a finite point that is not on the curve (and every sum / product computed from it is wrong)", f.loc)
    if witness.get("affine_lifter") is False and witness.get("affine_lifter_checked") is True:
        rule.ok("witness|affine_lifter", "positive example matched and its guarded twin accepted (the rule still sees raw lifts)")
    else:
        rule.bad("witness|affine_lifter", "the positive example in /verif/witness/shapes was not matched (or its guarded twin was): rule has gone blind (%s)" % witness)
    if n_sites == 0:
        rule.ok("ark_ec|short_weierstrass|no raw lift", "no projective point is built from the raw coordinate fields of an affine value (conversions go through xy() / From<Affine>)", "")


def _reach_bb(fn, a, b):
    succ = fn.succ()
    seen, st = {a}, [a]
    while st:
        x = st.pop()
        if x == b:
            return True
        for y in succ[x]:
            if y not in seen:
                seen.add(y)
                st.append(y)
    return a == b


def run(ctx, res):
    facts = ctx.facts(["ws", "shapes"])
    res.analysed = facts.stats()
    check_sw(res, facts)
    check_te(res, facts)
    check_eq(res, facts)
    check_dispatch(res, facts)
    check_convert(res, facts)
    check_batchnorm(res, facts)
    check_afflift(res, facts)
    return {
        "level": "proof",
        "explanation": "Each obligation is an identity of rational functions over Z in the coordinates of the operands (and the curve coefficients as symbols): the MIR of the formula block is evaluated symbolically on every general-position path (configuration arms a = 0 / a != 0 and base-field degree split) and compared with the textbook affine group law through the coordinate maps (X/Z^2, Y/Z^3) resp. (X/Z, Y/Z) with T = XY/Z; plus structural rules for exceptional-case dispatch, representation-independent equality, on-curve tests and operators defined through other operators. Batch normalisation: order / pairing of the inverted z coordinates and the per-point maps (R-BATCHNORM). Completeness of the unified Edwards law on the prime-order subgroup is NOT decided.",
        "assumptions": ["denominators do not vanish on the general-position arm (exceptional cases are dispatched separately, R-DISPATCH)", "base field operations form a field (C01/C02)"],
        "trusted_base": ["rustc MIR construction and trait resolution", "arklib/symex.py and arklib/poly.py", "the affine group-law formulas in rules/c03.py"],
    }
