"""Shared machinery for symbolic kernel obligations (C02, C03, C06, C13, C19): run a MIR kernel with
symbolic operands through arklib/symex and compare every completed path with an independently
written formula (polynomial / rational identity over Z in the operand symbols)."""
from arklib import symex as SX
from arklib.poly import Q, Poly

V = Q.var


def arg(name, ty):
    o = SX.Obj(name=name)
    if ty.startswith("&"):
        return SX.Ref(SX.Cell(o))
    return o


def apply_subst(q, st):
    for var, p in st.subst.items():
        q = q.subst(var, p)
    return q


def field_of(ex, v, idx, name):
    """component of an aggregate result as a ring value"""
    v = ex.deref(v)
    if isinstance(v, SX.Obj):
        return SX.q_of(ex.deref(v.get(idx, name)))
    return None


def decided(p):
    fl = p.flags
    return not (fl & {"cut", "diverge", "top-branch"} or any(f.startswith("unmodelled") for f in fl))


class Kernel:
    """one obligation: function + argument names + extraction of results + expected values"""

    def __init__(self, key, fn, argnames, results, expect, env=None, side=None, note=""):
        self.key, self.fn, self.argnames, self.results, self.expect = key, fn, argnames, results, expect
        self.env = env or {}
        self.side = side
        self.note = note


def run_kernel(rule, facts, unit, k, models, const_value=None, max_paths=200, inline_limit=400, max_depth=5, min_paths=1, select=None):
    fn = k.fn
    ex = SX.Engine(facts, unit, models, env=k.env, max_paths=max_paths, inline_limit=inline_limit, max_depth=max_depth, const_value=const_value)
    args = [a if not isinstance(a, str) else arg(a, fn.local_ty(i + 1)) for i, a in enumerate(k.argnames)]
    try:
        paths = ex.run(fn, args)
    except RecursionError:
        rule.undecided(k.key, "recursion limit", fn.loc)
        return
    good = 0
    und = []
    for p in paths:
        if "panic" in p.flags:
            continue   # panicking paths produce no value (guardedness is a separate rule)
        if not decided(p):
            und.append(sorted(p.flags)[:3])
            continue
        if select is not None and not select(ex, p):
            continue
        got = k.results(ex, p)
        if got is None:
            continue   # path outside the kernel (early exit such as None / identity arms)
        want = k.expect(ex, p)
        if len(got) != len(want):
            rule.bad(k.key, "result arity %d != %d" % (len(got), len(want)), fn.loc)
            return
        for i, (g, w) in enumerate(zip(got, want)):
            if g is None:
                und.append(["component %d not a ring value" % i])
                break
            w = apply_subst(w, p.st)
            if k.side:
                ok = k.side(g, w, p)
            else:
                ok = g.equals(w)
            if not ok:
                rule.bad(k.key, "component %d: the code computes %s but the defining formula gives %s%s" % (
                    i, short(g), short(w), (" (path assuming %s)" % p.assume) if p.assume else ""), fn.loc)
                return
        else:
            good += 1
    if und and not good:
        rule.undecided(k.key, "no path could be evaluated symbolically: %s" % und[:3], fn.loc)
    elif und:
        rule.undecided(k.key, "%d path(s) proved, %d not evaluable: %s" % (good, len(und), und[:2]), fn.loc)
    elif good < min_paths:
        rule.undecided(k.key, "no path reached the kernel's result site", fn.loc)
    else:
        rule.ok(k.key, "%d path(s): polynomial identity holds %s" % (good, k.note), fn.loc)


def short(q, n=160):
    s = repr(q)
    return s if len(s) <= n else s[:n] + "..."
