"""C17 R-MLE -- the dense multilinear extension's `fix_variables` / `evaluate` ARE partial / full evaluation of the
multilinear polynomial, decided for small numbers of variables by polynomial-constant propagation over the MIR.

With the table a concrete-length array of ring symbols e_0 .. e_{2^nv - 1}, the point ring symbols r_0 .. r_{dim-1} and
every integer concrete, the body unrolls; entry b' of the returned table must be, as a polynomial identity,

    sum over c in {0,1}^dim of  e[c + 2^dim * b'] * prod_i (r_i if c_i else 1 - r_i)

(little-endian: variable 0 is the lowest index bit and is fixed first) and the returned num_vars must be nv - dim.  For
nv <= 4 (thorough: 5) and every dim <= nv this proves that the rounds iterated together equal the hypercube sum -- the
composition R-FOLD (one round as a template) does not decide.  `evaluate` is the case dim = nv.

Supplementary: no verdict when the engine cannot follow a reshaped body; a missing anchor fails closed."""
from arklib import symex as SX
from arklib.poly import Q
from rules import c07_dft

DENSE = "ark_poly::evaluations::multivariate::multilinear::dense::DenseMultilinearExtension"


def expected(nv, dim, bprime):
    tot = Q.const(0)
    for c in range(1 << dim):
        term = Q.var("e%d" % (c + (bprime << dim)))
        for i in range(dim):
            r = Q.var("r%d" % i)
            term = term * (r if (c >> i) & 1 else (Q.const(1) - r))
        tot = tot + term
    return tot


def run_one(facts, fn, nv, dim):
    ex = SX.Engine(facts, "ws", c07_dft._models(), max_paths=6, max_depth=8, inline_limit=600, max_visits=200000)
    ex.strict_flow = True
    ev = SX.Obj(adt="array", fields={i: Q.var("e%d" % i) for i in range(1 << nv)})
    mle = SX.Obj(adt=DENSE, fields={0: ev, 1: nv})
    pt = SX.Obj(adt="array", fields={i: Q.var("r%d" % i) for i in range(dim)})
    if fn.d["argc"] != 2:
        return "noverdict", "signature changed"
    try:
        paths = [p for p in ex.run(fn, [SX.Ref(SX.Cell(mle)), SX.Ref(SX.Cell(pt))]) if "panic" not in p.flags]
    except RecursionError:
        return "noverdict", "recursion limit"
    if len(paths) != 1 or paths[0].flags:
        return "noverdict", "not evaluable (%s)" % (sorted(paths[0].flags)[:4] if paths else "no path")
    return "ok", paths[0].ret


def check_mle(res, facts, tier):
    rule = res.rule("R-MLE", "DenseMultilinearExtension::fix_variables / evaluate equal partial / full evaluation of the multilinear polynomial for nv <= 4 (thorough 5), every number of fixed variables, all tables and points [polynomial-constant propagation over the MIR]", 0)
    fix = [f for f in facts.fns(unit="ws", crate="ark_poly") if f.name == "fix_variables" and f.self_head == DENSE and f.kind != "Closure"]
    evl = [f for f in facts.fns(unit="ws", crate="ark_poly") if f.name == "evaluate" and f.self_head == DENSE and f.kind != "Closure" and (f.trait_impl or "").endswith("Polynomial")]
    top = 5 if tier == "thorough" else 4
    decided = []
    if not fix:
        rule.bad("ark_poly|Dense::fix_variables|mle", "anchor missing")
    else:
        for nv in range(0, top + 1):
            key = "ark_poly|Dense::fix_variables|nv=%d" % nv
            verdict = None
            for dim in range(0, nv + 1):
                st, r = run_one(facts, fix[0], nv, dim)
                if st != "ok":
                    verdict = ("noverdict", "dim = %d: %s" % (dim, r))
                    break
                tab = r.fields.get(0) if isinstance(r, SX.Obj) else None
                k = r.fields.get(1) if isinstance(r, SX.Obj) else None
                if not (isinstance(tab, SX.Obj) and tab.adt == "array"):
                    verdict = ("noverdict", "dim = %d: result table not recovered" % dim)
                    break
                if k != nv - dim:
                    verdict = ("bad", "fixing %d of %d variables returns num_vars = %s, expected %d" % (dim, nv, k, nv - dim))
                    break
                if len(tab.fields) != 1 << (nv - dim):
                    verdict = ("bad", "fixing %d of %d variables returns a table of %d entries, expected %d" % (dim, nv, len(tab.fields), 1 << (nv - dim)))
                    break
                for b in range(1 << (nv - dim)):
                    got = SX.q_of(tab.fields[b])
                    if got is None:
                        verdict = ("noverdict", "dim = %d: entry %d is not a ring value" % (dim, b))
                        break
                    if not got.equals(expected(nv, dim, b)):
                        verdict = ("bad", "fixing the first %d of %d variables: entry %d of the result is %s, which is not the partial evaluation sum over the %d corners" % (dim, nv, b, str(got)[:160], 1 << dim))
                        break
                if verdict:
                    break
            if verdict is None:
                rule.ok(key, "all %d values of dim: every entry equals the partial evaluation" % (nv + 1), fix[0].loc)
                decided.append(True)
            elif verdict[0] == "bad":
                rule.bad(key, verdict[1], fix[0].loc)
            else:
                rule.noverdict(key, "shape not modelled (%s)" % verdict[1], fix[0].loc)
    if not evl:
        rule.bad("ark_poly|Dense::evaluate|mle", "anchor missing")
    else:
        for nv in range(0, top + 1):
            key = "ark_poly|Dense::evaluate|nv=%d" % nv
            st, r = run_one(facts, evl[0], nv, nv)
            got = SX.q_of(r) if st == "ok" else None
            if st != "ok" or got is None:
                rule.noverdict(key, "shape not modelled (%s)" % (r if st != "ok" else "result is not a ring value"), evl[0].loc)
            elif not got.equals(expected(nv, nv, 0)):
                rule.bad(key, "evaluate returns %s, not the multilinear extension's value sum_b e_b * eq(b, point)" % str(got)[:160], evl[0].loc)
            else:
                rule.ok(key, "value = sum over the %d corners of e_b * eq(b, point)" % (1 << nv), evl[0].loc)
    return len(decided) == top + 1      # fix_variables proved for every nv of the range
