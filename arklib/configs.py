"""Registry of shipped configurations built from the compiler-evaluated constant table, and decoding
of constant values into numbers / field elements / points with independent arithmetic (numth.py)."""
import re
from . import numth as N

FP = "ark_ff::fields::models::fp::Fp"
QUAD = "ark_ff::fields::models::quadratic_extension::QuadExtField"
CUBIC = "ark_ff::fields::models::cubic_extension::CubicExtField"
BIGINT = "ark_ff::biginteger::BigInt"
SW_AFFINE = "ark_ec::models::short_weierstrass::affine::Affine"
TE_AFFINE = "ark_ec::models::twisted_edwards::affine::Affine"
MONT = "ark_ff::fields::models::fp::montgomery_backend::MontConfig"


def parse_ty(s):
    """Rust type string -> (head, [args]) tree; references/slices/arrays/tuples get heads '&', '[]', '[;]', '()'"""
    s = s.strip()
    if s.startswith("&"):
        s2 = s[1:].lstrip()
        if s2.startswith("'"):
            s2 = s2.split(" ", 1)[1] if " " in s2 else s2
        if s2.startswith("mut "):
            s2 = s2[4:]
        return ("&", [parse_ty(s2)])
    if s.startswith("[") and s.endswith("]"):
        inner = s[1:-1]
        parts = split_top(inner, ";")
        if len(parts) == 2:
            return ("[;]", [parse_ty(parts[0]), ("lit", [parts[1].strip()])])
        return ("[]", [parse_ty(inner)])
    if s.startswith("(") and s.endswith(")"):
        inner = s[1:-1]
        return ("()", [parse_ty(x) for x in split_top(inner, ",") if x.strip()])
    i = s.find("<")
    if i < 0 or not s.endswith(">"):
        return (s, [])
    head = s[:i]
    if head.endswith("::"):
        head = head[:-2]
    args = split_top(s[i + 1:-1], ",")
    return (head, [parse_ty(a) for a in args if a.strip()])


def split_top(s, sep):
    out, depth, cur = [], 0, ""
    for ch in s:
        if ch in "<([":
            depth += 1
        elif ch in ">)]":
            depth -= 1
        if ch == sep and depth == 0:
            out.append(cur)
            cur = ""
        else:
            cur += ch
    if cur.strip():
        out.append(cur)
    return out


def ty_str(t):
    h, a = t
    if h == "&":
        return "&" + ty_str(a[0])
    if h == "[]":
        return "[%s]" % ty_str(a[0])
    if h == "[;]":
        return "[%s; %s]" % (ty_str(a[0]), a[1][1][0])
    if h == "()":
        return "(" + ", ".join(ty_str(x) for x in a) + ")"
    if h == "lit":
        return a[0]
    return h + ("<" + ", ".join(ty_str(x) for x in a) + ">" if a else "")


class Registry:
    def __init__(self, facts, units=("ws", "curves", "shapes")):
        self.recs = []           # all const records with crate/unit attached
        self.by_owner = {}       # (owner, name) -> [records]
        for c in facts.crates:
            if c.unit not in units:
                continue
            for k in c.consts:
                r = dict(k, crate=c.name, unit=c.unit)
                self.recs.append(r)
                self.by_owner.setdefault((k.get("owner"), k["name"]), []).append(r)
        self._fields = {}
        self.errors = []

    # ---- lookup
    def const(self, owner, name, trait_suffix=None):
        rs = self.by_owner.get((owner, name), [])
        if trait_suffix:
            rs = [r for r in rs if (r.get("trait") or "").endswith(trait_suffix)]
        return rs[0] if rs else None

    def impls_of(self, trait_suffix, name):
        """records of constant `name` for every impl of a trait"""
        seen = set()
        out = []
        for r in self.recs:
            if (r.get("trait") or "").endswith(trait_suffix) and r["name"] == name and not r.get("derived_for_type"):
                k = (r["unit"], r["crate"], r.get("owner"))
                if k not in seen:
                    seen.add(k)
                    out.append(r)
        return out

    # ---- fields
    def field(self, t):
        """field object for a (parsed) field element type"""
        if isinstance(t, str):
            t = parse_ty(t)
        key = ty_str(t)
        if key in self._fields:
            return self._fields[key]
        h, a = t
        F = None
        if h == FP:
            cfg = a[0][1][0]        # MontBackend<C, N>
            owner = ty_str(cfg)
            m = self.const(owner, "MODULUS", "MontConfig")
            if m is None:
                raise KeyError("no MODULUS for %s" % owner)
            F = N.Prime(N.limbs_to_int(m["val"]["0"]), owner.rsplit("::", 1)[-1])
            F.limbs = len(m["val"]["0"])
            F.owner = owner
        elif h in (QUAD, CUBIC):
            wrapper, wargs = a[0]
            owner = ty_str(wargs[0])
            nr = self.const(owner, "NONRESIDUE")
            if nr is None:
                raise KeyError("no NONRESIDUE for %s" % owner)
            base_t = parse_ty(nr["ty"])
            base = self.field(base_t)
            beta = self.decode(nr["val"], base_t)
            F = N.Ext(base, 2 if h == QUAD else 3, beta, owner.rsplit("::", 1)[-1])
            F.owner = owner
            F.wrapper = wrapper
            F.base_ty = base_t
        else:
            raise KeyError("not a field type: %s" % key)
        F.ty = key
        self._fields[key] = F
        return F

    # ---- decoding
    def decode(self, v, t):
        if isinstance(t, str):
            t = parse_ty(t)
        h, a = t
        if h == "&":
            return self.decode(v, a[0])
        if h in ("[]", "[;]"):
            return [self.decode(x, a[0]) for x in v]
        if h == "()":
            return tuple(self.decode(x, tt) for x, tt in zip(v, a))
        if h in ("bool", "u8", "u16", "u32", "u64", "u128", "usize", "i8", "i16", "i32", "i64", "i128", "isize"):
            return v
        if h == BIGINT:
            return N.limbs_to_int(v["0"])
        if h == FP:
            F = self.field(t)
            R = 1 << (64 * F.limbs)
            return N.limbs_to_int(v["0"]["0"]) * pow(R, -1, F.p) % F.p
        if h == QUAD:
            F = self.field(t)
            return (self.decode(v["c0"], F.base_ty), self.decode(v["c1"], F.base_ty))
        if h == CUBIC:
            F = self.field(t)
            return (self.decode(v["c0"], F.base_ty), self.decode(v["c1"], F.base_ty), self.decode(v["c2"], F.base_ty))
        if h == "core::option::Option":
            if v.get("$variant") == "None":
                return None
            return ("Some", self.decode(v["0"], a[0]))
        if isinstance(v, dict) and "$adt" in v:
            # generic ADT: decode fields by looking up nothing more than structure
            return {k: x for k, x in v.items()}
        return v

    def raw_limbs(self, v):
        """Montgomery limbs of an Fp constant as stored"""
        return N.limbs_to_int(v["0"]["0"])
