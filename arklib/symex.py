"""Symbolic evaluation of loop-free MIR kernels over a commutative ring (trace-partitioned
polynomial-constant propagation).

Every ring-typed value is a rational function over Z in the kernel's input symbols (own arithmetic,
arklib/poly.py).  Paths are enumerated (branches on data fork with the assumption recorded;
branches on configuration constants fork per value unless fixed by `env`); a block visited more than
`max_visits` times cuts the path (loops are out of scope -> the obligation is reported undecided,
never a violation).  Calls are answered by a model table; unmodelled callees that are small local
functions are inlined, anything else yields TOP (unknown), which poisons what it flows into.
"""
import copy
from .poly import Poly, Q
from .facts import place_parts, op_place, op_local, term_succs


class Top:
    def __repr__(self):
        return "TOP"

    def __deepcopy__(self, memo):
        return self


TOP = Top()


class Cell:
    __slots__ = ("v",)

    def __init__(self, v=TOP):
        self.v = v


class Ref:
    __slots__ = ("cell", "projs")

    def __init__(self, cell, projs=()):
        self.cell, self.projs = cell, tuple(projs)

    def __repr__(self):
        return "&%r%s" % (self.cell.v, list(self.projs) if self.projs else "")


class Obj:
    """aggregate; when `name` is set, missing fields are created lazily as symbolic children"""
    __slots__ = ("name", "fields", "adt", "variant", "vidx")

    def __init__(self, name=None, fields=None, adt=None, variant=None, vidx=None):
        self.name, self.fields, self.adt, self.variant, self.vidx = name, fields if fields is not None else {}, adt, variant, vidx

    def get(self, idx, fname):
        if idx in self.fields:
            return self.fields[idx]
        if self.name is not None:
            c = Obj(name="%s.%s" % (self.name, fname))
            self.fields[idx] = c
            return c
        return TOP

    def __repr__(self):
        if self.name is not None and not self.fields:
            return "$" + self.name
        return "%s{%s}" % (self.variant or self.adt or self.name or "", ", ".join("%s: %r" % kv for kv in sorted(self.fields.items(), key=lambda kv: str(kv[0]))))


class Cond:
    """symbolic boolean: kind in {'zero', 'eq', 'cfg', 'opaque'}"""
    __slots__ = ("kind", "a", "b", "neg")

    def __init__(self, kind, a=None, b=None, neg=False):
        self.kind, self.a, self.b, self.neg = kind, a, b, neg

    def negate(self):
        return Cond(self.kind, self.a, self.b, not self.neg)

    def __repr__(self):
        return "%s%s(%r%s)" % ("!" if self.neg else "", self.kind, self.a, "" if self.b is None else ", %r" % (self.b,))


def some(v):
    return Obj(adt="core::option::Option", variant="Some", vidx=1, fields={0: v})


def none():
    return Obj(adt="core::option::Option", variant="None", vidx=0)


def copy_value(v):
    """copy of a value as an assignment makes it: aggregates are copied, pointers keep pointing at the same storage"""
    if isinstance(v, Obj):
        o = Obj(name=v.name, adt=v.adt, variant=v.variant, vidx=v.vidx)
        o.fields = {k: copy_value(x) for k, x in v.fields.items()} if v.fields is not None else v.fields
        return o
    if isinstance(v, list):
        return [copy_value(x) for x in v]
    if isinstance(v, Ref):
        return v
    if isinstance(v, (Q, Cond, int, bool, str, type(None), Top)):
        return v
    return copy.deepcopy(v)


class Frame:
    __slots__ = ("fn", "bb", "cells", "ret_loc", "ret_bb", "visits", "ctx_self")

    def __init__(self, fn):
        self.fn = fn
        self.ctx_self = None
        self.bb = 0
        self.cells = {}
        self.ret_loc = None
        self.ret_bb = None
        self.visits = {}

    def cell(self, l):
        c = self.cells.get(l)
        if c is None:
            c = self.cells[l] = Cell()
        return c


class State:
    def __init__(self):
        self.frames = []
        self.assume = []      # list of Cond assumed true
        self.subst = {}       # var -> Poly substitutions applied (for reporting)
        self.flags = set()    # 'cut', 'top-branch', ...
        self.events = []      # (callee name, values) of interest
        self.cfg = {}         # configuration constants decided on this path

    def fork(self):
        return copy.deepcopy(self)


class Path:
    def __init__(self, st, ret, args):
        self.st, self.ret, self.args = st, ret, args

    @property
    def assume(self):
        return self.st.assume

    @property
    def flags(self):
        return self.st.flags


def q_of(v):
    """ring view of a value"""
    if isinstance(v, Q):
        return v
    if isinstance(v, bool):
        return None
    if isinstance(v, int):
        return Q.const(v)
    if isinstance(v, Obj) and v.name is not None and not v.fields:
        return Q.var(v.name)
    return None


class Engine:
    def __init__(self, facts, unit, models, env=None, transparent=(), max_visits=2, max_paths=600, max_depth=4, inline_limit=120, const_value=None):
        self.facts, self.unit = facts, unit
        self.models = models
        self.env = env or {}
        self.transparent = set(transparent)
        self.max_visits, self.max_paths, self.max_depth, self.inline_limit = max_visits, max_paths, max_depth, inline_limit
        self.const_value = const_value
        self._index = None

    # ---- lookup of local functions for inlining
    def lookup(self, f):
        if self._index is None:
            self._index = {}
            for fn in self.facts.fns(unit=self.unit):
                self._index.setdefault(fn.id, fn)
            # dependencies analysed in another unit (e.g. ark_ff when running a curve crate's code)
            for fn in self.facts.fns():
                self._index.setdefault(fn.id, fn)
        hit = self._index.get(f.get("res") or "") or self._index.get(f.get("path") or "")
        if hit is not None or not f.get("trait") or f.get("res"):
            return hit
        # unresolved trait call inside an inlined generic body: the instantiation is known from the call
        # chain (type context); pick the impl of that trait whose Self type head occurs first in the context
        if not hasattr(self, "_by_trait"):
            self._by_trait = {}
            for fn in self.facts.fns():
                if fn.trait_impl and fn.kind != "Closure":
                    self._by_trait.setdefault((fn.trait_impl, fn.name), []).append(fn)
        cands = self._by_trait.get((f["trait"], f.get("name")), [])
        if not cands:
            return None
        best = None
        for ctx in self.type_context():
            for fn in cands:
                head = (fn.impl.get("self") or "").split("<")[0]
                i = ctx.find(head + "<") if head else -1
                if i >= 0 and (best is None or i < best[0]):
                    best = (i, fn)
            if best:
                return best[1]
        return None

    # ---- memory
    def locate(self, frame, place):
        l, projs = place_parts(place)
        loc = ("cell", frame.cell(l))
        for p in projs:
            loc = self.step(frame, loc, p)
            if loc is None:
                return None
        return loc

    def step(self, frame, loc, p):
        # sub-slice views: ("sl", start, length) narrows a location; an index on a view is an index on its parent
        if isinstance(p, (list, tuple)) and p and p[0] == "sl":
            if loc[0] == "slice":
                if p[1] + p[2] > loc[3]:
                    return None
                return ("slice", loc[1], loc[2] + p[1], p[2])
            return ("slice", loc, p[1], p[2])
        if loc[0] == "slice":
            idx = None
            if isinstance(p, (list, tuple)) and p[0] == "ci":
                idx = p[1]
            elif isinstance(p, (list, tuple)) and p[0] == "i" and frame is not None:
                iv = frame.cell(p[1]).v
                idx = iv if isinstance(iv, int) and not isinstance(iv, bool) else None
            if idx is None or not (0 <= idx < loc[3]):
                return None
            return ("field", loc[1], loc[2] + idx, str(loc[2] + idx))
        if p == "*":
            v = self.get(loc)
            if isinstance(v, Ref):
                l2 = ("cell", v.cell)
                for q in v.projs:
                    l2 = self.step(frame, l2, q)
                    if l2 is None:
                        return None
                return l2
            if isinstance(v, Obj) and v.name is not None:
                # a symbolic pointer (e.g. a reference stored in an input): pointee is a symbolic child
                return ("field", loc, "*", "deref")
            return None
        if isinstance(p, (list, tuple)):
            k = p[0]
            if k == "f":
                return ("field", loc, p[1], p[2])
            if k == "dc":
                return loc
            if k == "ci":
                return ("field", loc, p[1], str(p[1]))
            if k == "i":
                if frame is None:
                    return None
                iv = frame.cell(p[1]).v
                if isinstance(iv, int) and not isinstance(iv, bool):
                    return ("field", loc, iv, str(iv))
                return None
        if p in ("opaque",):
            return loc
        return None

    def get(self, loc):
        if loc is None:
            return TOP
        if loc[0] == "cell":
            return loc[1].v
        if loc[0] == "slice":
            pv = self.get(loc[1])
            if isinstance(pv, Obj) and pv.adt == "array" and all((loc[2] + i) in pv.fields for i in range(loc[3])):
                return Obj(adt="array", fields={i: pv.fields[loc[2] + i] for i in range(loc[3])})
            return TOP
        _, parent, idx, fname = loc
        pv = self.get(parent)
        if isinstance(pv, Obj):
            if fname in self.transparent and not pv.fields and pv.name is not None:
                return pv
            return pv.get(idx, fname)
        if isinstance(pv, Q) and fname in self.transparent:
            return pv
        return TOP

    def set(self, loc, v):
        if loc is None:
            return
        if loc[0] == "cell":
            loc[1].v = v
            return
        if loc[0] == "slice":
            return          # whole-view stores are not modelled
        _, parent, idx, fname = loc
        pv = self.get(parent)
        if fname in self.transparent and (isinstance(pv, Q) or (isinstance(pv, Obj) and pv.name is not None and not pv.fields)):
            self.set(parent, v)
            return
        if isinstance(pv, Obj):
            pv.fields[idx] = v
        # writing into TOP/unknown parents is dropped (they stay TOP)

    def read(self, frame, place):
        return self.get(self.locate(frame, place))

    def operand(self, frame, o):
        if "k" in o:
            return self.constant(frame, o["k"])
        v = self.read(frame, op_place(o))
        if isinstance(v, Obj):
            return copy_value(v)
        return v

    def constant(self, frame, k):
        if "v" in k:
            return k["v"]
        if k.get("zst"):
            return Obj(adt="()", fields={})
        if "fn" in k:
            return Obj(adt="fn", variant=k["fn"].get("path"), fields={"fn": k["fn"]})
        name = None
        if "def" in k and "promoted" not in k:
            name = k["def"].rsplit("::", 1)[-1]
            if self.const_value:
                try:
                    v = self.const_value(k["def"], k, self.type_context())
                except TypeError:
                    v = self.const_value(k["def"], k)
                if v is not None:
                    return copy.deepcopy(v)
        elif "param" in k:
            name = k["param"]
        elif k.get("pdefs"):
            lits = [d for d in k["pdefs"] if d.startswith("lit:")]
            if lits and len(lits) == len(k["pdefs"]):
                # promoted reference to an array of integer literals: &[1, 2]
                return Ref(Cell(Obj(adt="array", fields={i: int(d[4:]) for i, d in enumerate(lits)})))
            # promoted reference to a named constant: &CONST
            nm = k["pdefs"][0].rsplit("::", 1)[-1]
            return Ref(Cell(self.named_const(nm, k)))
        if name is not None:
            return self.named_const(name, k)
        return TOP

    def named_const(self, name, k):
        if name in self.env:
            return self.env[name]
        if self.const_value:
            v = self.const_value(name, k)
            if v is not None:
                return v
        if name in ("ZERO",):
            return Q.const(0)
        if name in ("ONE",):
            return Q.const(1)
        return Obj(name="const:" + name)

    def deref(self, v):
        n = 0
        while isinstance(v, Ref) and n < 8:
            loc = ("cell", v.cell)
            for p in v.projs:
                loc = self.step(None, loc, p) if loc else None
            v = self.get(loc)
            n += 1
        return v

    def write_ref(self, r, v):
        if not isinstance(r, Ref):
            return
        loc = ("cell", r.cell)
        for p in r.projs:
            loc = self.step(None, loc, p) if loc else None
        # nested refs: write to the final pointee
        cur = self.get(loc)
        if isinstance(cur, Ref):
            return self.write_ref(cur, v)
        self.set(loc, v)

    # ---- running
    def run(self, fn, args, st=None):
        """args: list of values for locals 1..argc (Ref values for reference parameters).
        Returns list of Path."""
        st = st or State()
        fr = Frame(fn)
        for i, a in enumerate(args):
            fr.cell(i + 1).v = a
        st.frames.append(fr)
        work = [st]
        done = []
        steps = 0
        while work:
            st = work.pop()
            if len(done) + len(work) > self.max_paths:
                st.flags.add("cut")
                done.append(Path(st, TOP, None))
                continue
            out = self.run_path(st, work)
            if out is not None:
                done.append(out)
        return done

    def type_context(self):
        """self-type strings of the calls that led to the current frame (innermost first)"""
        st = getattr(self, "cur_state", None)
        if st is None:
            return []
        return [f.ctx_self or "" for f in reversed(st.frames)]

    def run_path(self, st, work):
        while True:
            # a global budget of executed blocks per engine: an evaluation that does not terminate (a loop whose exit the
            # models cannot decide) ends as a cut path -- "no verdict" for the rule -- instead of hanging the check
            self.steps = getattr(self, "steps", 0) + 1
            if self.steps % 512 == 1 and getattr(self, "strict_flow", False):      # only the supplementary evaluation rules are budgeted
                import time as _time
                now = _time.time()
                if not hasattr(self, "deadline"):
                    self.deadline = now + getattr(self, "max_seconds", 40)
                if now > self.deadline:
                    self.steps = 1 << 62
            if getattr(self, "strict_flow", False) and self.steps > getattr(self, "max_steps", 6000000):
                st.flags.add("cut")
                st.flags.add("step-budget")
                return Path(st, TOP, None)
            self.cur_state = st
            fr = st.frames[-1]
            fn = fr.fn
            bb = fr.bb
            v = fr.visits.get(bb, 0)
            if v >= self.max_visits:
                st.flags.add("cut")
                return Path(st, TOP, None)
            fr.visits[bb] = v + 1
            b = fn.bbs[bb]
            for s in b["s"]:
                if "d" in s:
                    val = self.rvalue(fr, s["r"], st)
                    if isinstance(val, int) and not isinstance(val, bool) and s["r"].get("k") == "bin" and s["r"].get("op") in ("Shl", "ShlUnchecked"):
                        # bits shifted out of a machine integer are lost (only the shift AMOUNT is checked in debug builds)
                        dl, dprojs = place_parts(s["d"])
                        w = {"u8": 8, "u16": 16, "u32": 32, "u64": 64, "u128": 128, "usize": 64}.get(fn.local_ty(dl) if not dprojs else None)
                        if w:
                            val &= (1 << w) - 1
                    self.set(self.locate(fr, s["d"]), val)
                elif "setdiscr" in s:
                    pass
            t = b["t"]
            k = t["k"]
            if k == "goto":
                fr.bb = t["t"]
            elif k == "return":
                ret = fr.cell(0).v
                st.frames.pop()
                if not st.frames:
                    return Path(st, ret, fr)
                caller = st.frames[-1]
                self.set(fr.ret_loc, ret)
                caller.bb = fr.ret_bb
            elif k in ("assert", "drop"):
                fr.bb = t["t"]
            elif k == "switch":
                nxt = self.switch(st, fr, t, work)
                if nxt is None:
                    return None
                fr.bb = nxt
            elif k == "call":
                r = self.call(st, fr, t, work)
                if r == "diverge":
                    st.flags.add("diverge")
                    return Path(st, TOP, None)
                if r == "forked":
                    return None
            else:
                st.flags.add("diverge")
                return Path(st, TOP, None)

    def rvalue(self, fr, r, st):
        k = r["k"]
        if k == "use":
            return self.operand(fr, r["o"])
        if k in ("ref", "raw"):
            l, projs = place_parts(r["p"])
            # index projections are resolved now (the index local may change / be out of scope later)
            rp = []
            for pr in projs:
                if isinstance(pr, (list, tuple)) and pr[0] == "i":
                    iv = fr.cell(pr[1]).v
                    if isinstance(iv, int) and not isinstance(iv, bool):
                        pr = ["ci", iv, False]
                rp.append(pr)
            projs = rp
            # normalise &(*p) to p's target
            if projs and projs[0] == "*":
                base = fr.cell(l).v
                if isinstance(base, Ref):
                    return Ref(base.cell, tuple(base.projs) + tuple(map(_freeze, projs[1:])))
            return Ref(fr.cell(l), tuple(map(_freeze, projs)))
        if k == "agg":
            ops = [self.operand(fr, o) for o in r["ops"]]
            ak = r.get("ak")
            if ak == "adt":
                return Obj(adt=r["adt"], variant=r.get("variant"), vidx=r.get("vidx"), fields={i: v for i, v in enumerate(ops)})
            if ak == "closure":
                return Obj(adt="closure", variant=r.get("closure"), fields={i: v for i, v in enumerate(ops)})
            return Obj(adt=ak, fields={i: v for i, v in enumerate(ops)})
        if k == "repeat":
            v = self.operand(fr, r["o"])
            try:
                n = int(r["n"].split("_")[0])
            except Exception:
                n = self.env.get(r["n"]) if isinstance(self.env.get(r["n"]), int) else None
            if n is None or n > 64:
                return TOP
            return Obj(adt="array", fields={i: copy.deepcopy(v) for i in range(n)})
        if k == "cast":
            v = self.operand(fr, r["o"])
            ty = r.get("ty")
            if isinstance(v, int) and not isinstance(v, bool) and isinstance(ty, str):
                bits = {"u8": 8, "u16": 16, "u32": 32, "u64": 64, "u128": 128, "usize": 64}.get(ty)
                if bits:
                    return v % (1 << bits)
                sbits = {"i8": 8, "i16": 16, "i32": 32, "i64": 64, "i128": 128, "isize": 64}.get(ty)
                if sbits:
                    v %= (1 << sbits)
                    return v - (1 << sbits) if v >= (1 << (sbits - 1)) else v
            return v
        if k == "discr":
            v = self.read(fr, r["p"])
            if isinstance(v, Obj) and v.vidx is not None:
                return v.vidx
            if isinstance(v, Obj) and v.name is not None:
                return Cond("discr", v.name)
            return TOP
        if k == "un":
            v = self.operand(fr, r["o"])
            if r["op"] == "Not":
                if isinstance(v, bool):
                    return not v
                if isinstance(v, Cond):
                    return v.negate()
                return TOP
            if r["op"] == "Neg":
                q = q_of(v)
                return -q if q is not None else TOP
            if r["op"] == "PtrMetadata":
                d = self.deref(v)
                if isinstance(d, Obj) and d.adt in ("array", "tuple") or (isinstance(d, Obj) and d.fields and all(isinstance(x, int) for x in d.fields)):
                    return len(d.fields)
                return TOP
            return TOP
        if k == "bin":
            a, b = self.operand(fr, r["a"]), self.operand(fr, r["b"])
            op = r["op"]
            # machine-integer operands that reached here as constant ring values (through a modelled conversion) are integers
            if isinstance(a, Q) and isinstance(b, (int, Q)) and not isinstance(b, bool) and a.is_poly() and a.n.is_const() and (isinstance(b, int) or (b.is_poly() and b.n.is_const())):
                a = a.n.const_value()
            if isinstance(b, Q) and isinstance(a, int) and not isinstance(a, bool) and b.is_poly() and b.n.is_const():
                b = b.n.const_value()
            if isinstance(a, int) and isinstance(b, int):
                try:
                    if op in ("AddWithOverflow", "SubWithOverflow", "MulWithOverflow"):
                        base = {"Add": a + b, "Sub": a - b, "Mul": a * b}[op[:3]]
                        return Obj(adt="tuple", fields={0: base, 1: False})
                    # evaluated per operator (a table of all results would compute `a << b` for every pair of operands)
                    table = {"Add": lambda: a + b, "Sub": lambda: a - b, "Mul": lambda: a * b, "Eq": lambda: a == b, "Ne": lambda: a != b,
                             "Lt": lambda: a < b, "Le": lambda: a <= b, "Gt": lambda: a > b, "Ge": lambda: a >= b,
                             "BitAnd": lambda: a & b, "BitOr": lambda: a | b, "BitXor": lambda: a ^ b,
                             "AddUnchecked": lambda: a + b, "SubUnchecked": lambda: a - b, "MulUnchecked": lambda: a * b,
                             "Shl": lambda: a << b if 0 <= b < 4096 else TOP, "Shr": lambda: a >> b if 0 <= b < 4096 else TOP,
                             "ShlUnchecked": lambda: a << b if 0 <= b < 4096 else TOP, "ShrUnchecked": lambda: a >> b if 0 <= b < 4096 else TOP,
                             "Rem": lambda: (abs(a) % abs(b)) * (1 if a >= 0 else -1) if b else TOP,
                             "Div": lambda: (abs(a) // abs(b)) * (1 if (a >= 0) == (b >= 0) else -1) if b else TOP}
                    return table[op]() if op in table else TOP
                except Exception:
                    return TOP
            if op in ("BitAnd", "BitOr") and (isinstance(a, (bool, Cond)) and isinstance(b, (bool, Cond))):
                if isinstance(a, bool):
                    a, b = b, a
                if isinstance(b, bool):
                    if op == "BitAnd":
                        return a if b else False
                    return True if b else a
                return Cond("opaque", (op, a, b))
            if op in ("Eq", "Ne") and (isinstance(a, Cond) or isinstance(b, Cond)):
                c = a if isinstance(a, Cond) else b
                o = b if isinstance(a, Cond) else a
                if isinstance(o, bool):
                    same = (op == "Eq") == o
                    return c if same else c.negate()
            return TOP
        return TOP

    def switch(self, st, fr, t, work):
        v = self.operand(fr, t["o"])
        if isinstance(v, bool):
            v = int(v)
        if isinstance(v, int):
            tgt = t["else"]
            # switch values are the bit patterns at the operand's own width (-1i8 is 255)
            width = 128
            try:
                ol = op_local(t["o"])
                oty = fr.fn.local_ty(ol) if ol is not None else ((t["o"].get("k") or {}).get("ty") if isinstance(t["o"], dict) else None)
                width = {"i8": 8, "u8": 8, "i16": 16, "u16": 16, "i32": 32, "u32": 32, "i64": 64, "u64": 64, "isize": 64, "usize": 64, "bool": 8, "char": 32}.get(oty, 128)
            except Exception:
                width = 128
            for val, tg in zip(t["vals"], t["tgts"]):
                if val == (v & ((1 << width) - 1)) or val == (v & ((1 << 128) - 1)):
                    tgt = tg
            return tgt
        succs = term_succs(t)
        if isinstance(v, Cond) and v.kind != "discr" and t["vals"] == [0]:
            # two-way branch on a symbolic boolean: fork with assumptions
            false_t, true_t = t["tgts"][0], t["else"]
            st2 = st.fork()
            nv = Cond(v.kind, v.a, v.b, not v.neg)
            v = Cond(v.kind, v.a, v.b, v.neg)
            ok1 = self.assume(st, v)
            st.frames[-1].bb = true_t
            ok2 = self.assume(st2, nv)
            st2.frames[-1].bb = false_t
            if ok2:
                work.append(st2)
            if ok1:
                work.append(st)
            return None
        # unknown discriminant / TOP: explore all successors, flagged
        st.flags.add("top-branch")
        if getattr(self, "strict_flow", False):
            # concrete-size evaluation needs every branch decided: give up at once instead of exploring both sides of a loop exit
            self.steps = 1 << 62
        for s in succs[1:]:
            st2 = st.fork()
            st2.frames[-1].bb = s
            work.append(st2)
        return succs[0]

    def assume(self, st, c):
        """record c as true on this path; returns False when c is contradictory with what is known"""
        def trivial(x):
            return isinstance(x, Q) and x.is_poly() and x.n.is_const() and (c.b is None or (isinstance(c.b, Q) and c.b.is_poly() and c.b.n.is_const()))
        # a condition on constants is decided, not assumed
        if c.kind == "zero" and isinstance(c.a, Q) and c.a.is_poly() and c.a.n.is_const():
            return (c.a.is_zero()) != c.neg
        if c.kind == "eq" and isinstance(c.a, Q) and isinstance(c.b, Q) and (c.a - c.b).is_poly() and (c.a - c.b).n.is_const():
            return ((c.a - c.b).is_zero()) != c.neg
        for a in st.assume:
            if a.kind == c.kind and not trivial(a.a) and repr(a.a) == repr(c.a) and repr(a.b) == repr(c.b):
                if a.neg != c.neg:
                    return False
                return True
        st.assume.append(c)
        if c.kind == "zero" and not c.neg and isinstance(c.a, Q):
            q = c.a
            # a plain variable assumed zero: substitute everywhere
            if q.is_poly() and len(q.n.t) == 1:
                (m, coef), = q.n.t.items()
                if len(m) == 1 and m[0][1] == 1 and abs(coef) == 1:
                    self.substitute(st, m[0][0], Poly())
        if c.kind == "eq" and not c.neg and isinstance(c.a, Q) and isinstance(c.b, Q):
            for a, b in ((c.a, c.b), (c.b, c.a)):
                if b.is_poly() and a.is_poly() and len(b.n.t) == 1:
                    (m, coef), = b.n.t.items()
                    if len(m) == 1 and m[0][1] == 1 and coef == 1 and m[0][0] not in a.n.vars():
                        self.substitute(st, m[0][0], a.n)
                        break
        return True

    def call_closure(self, st, clo, argvals):
        """run a closure value on arguments; only straight-line closures (single decided path) are supported"""
        if not (isinstance(clo, Obj) and clo.adt == "closure"):
            return TOP
        if self._index is None:
            self.lookup({})
        fn = self._index.get(clo.variant)
        if fn is None or len(st.frames) >= self.max_depth + 2:
            return TOP
        env = clo
        if fn.local_ty(1).startswith("&"):
            env = Ref(Cell(clo))
        sub = State()
        sub.assume = st.assume
        sub.subst = st.subst
        sub.flags = st.flags
        paths = self.run(fn, [env] + list(argvals), st=sub)
        live = [p for p in paths]
        if len(live) != 1:
            st.flags.add("closure-forks")
            return TOP
        return live[0].ret

    def substitute(self, st, var, p):
        st.subst[var] = p
        seen = set()

        def walk(v):
            if isinstance(v, Q):
                return v.subst(var, p) if var in v.vars() else v
            if isinstance(v, Obj):
                if id(v) in seen:
                    return v
                seen.add(id(v))
                if v.name == var and not v.fields:
                    return Q(p)
                for k in list(v.fields):
                    v.fields[k] = walk(v.fields[k])
                return v
            if isinstance(v, Ref):
                if id(v.cell) not in seen:
                    seen.add(id(v.cell))
                    v.cell.v = walk(v.cell.v)
                return v
            return v
        for fr in st.frames:
            for c in fr.cells.values():
                if id(c) not in seen:
                    seen.add(id(c))
                    c.v = walk(c.v)
        for a in st.assume:
            if isinstance(a.a, Q):
                a.a = a.a.subst(var, p)
            if isinstance(a.b, Q):
                a.b = a.b.subst(var, p)

    def call(self, st, fr, t, work):
        f = t["f"]
        args = [self.operand(fr, a) for a in t["args"]]
        dest = self.locate(fr, t["d"])
        res = NotImplemented
        if "path" in f:
            res = self.models.apply(self, st, fr, t, args)
        if res is NotImplemented and "path" in f and len(st.frames) < self.max_depth:
            callee = self.lookup(f)
            if (callee is not None and callee.kind == "Closure" and f.get("name") in ("call", "call_mut", "call_once") and len(args) == 2
                    and isinstance(args[1], Obj) and args[1].adt == "tuple" and callee.d["argc"] == 1 + len(args[1].fields)):
                # "rust-call" ABI: Fn::call(&f, (a, b)) reaches a closure body whose parameters are (env, a, b)
                args = [args[0]] + [args[1].fields[i] for i in sorted(args[1].fields)]
            if callee is not None and len(callee.bbs) <= self.inline_limit and callee.d["argc"] == len(args):
                nf = Frame(callee)
                for i, a in enumerate(args):
                    nf.cell(i + 1).v = a
                nf.ret_loc = dest
                nf.ret_bb = t.get("t")
                nf.ctx_self = f.get("self") or ((f.get("targs") or [None])[0])
                if nf.ret_bb is None:
                    return "diverge"
                st.frames.append(nf)
                return "inlined"
        if isinstance(res, Fork):
            # model wants to fork: list of (assumption or None, value)
            first = True
            alts = res.alts
            states = [st] + [st.fork() for _ in alts[1:]]
            for (cond, val), s2 in zip(alts, states):
                ok = True
                if cond is not None:
                    ok = self.assume(s2, Cond(cond.kind, cond.a, cond.b, cond.neg))
                if not ok:
                    continue
                fr2 = s2.frames[-1]
                d2 = self.locate(fr2, t["d"])
                self.set(d2, val(s2) if callable(val) else val)
                if t.get("t") is None:
                    continue
                fr2.bb = t["t"]
                work.append(s2)
            return "forked"
        if res is NotImplemented:
            res = TOP
            st.flags.add("unmodelled:" + f.get("name", "?"))
            # clobber whatever the callee could write through &mut arguments
            for a, o in zip(args, t["args"]):
                if isinstance(a, Ref):
                    l = place_parts(op_place(o))[0] if op_place(o) is not None else None
                    if l is not None and fr.fn.local_ty(l).startswith("&mut"):
                        self.write_ref(a, TOP)
        self.set(dest, res)
        if t.get("t") is None:
            return "diverge"
        fr.bb = t["t"]
        return "ok"


class Fork:
    def __init__(self, alts):
        self.alts = alts


def _freeze(p):
    return tuple(p) if isinstance(p, list) else p


# ---- model table -------------------------------------------------------------------------------

class Models:
    def __init__(self):
        self.h = []

    def on(self, pred, handler):
        self.h.append((pred, handler))

    def apply(self, ex, st, fr, t, args):
        f = t["f"]
        for pred, h in self.h:
            if pred(f):
                r = h(ex, st, fr, t, args)
                if r is not NotImplemented:
                    return r
        return NotImplemented


def by(trait=None, name=None, path_has=None):
    names = set(name) if isinstance(name, (list, tuple, set)) else ({name} if name else None)

    def pred(f):
        if trait is not None and not f.get("trait", "").endswith(trait):
            return False
        if names is not None and f.get("name") not in names:
            return False
        if path_has is not None and path_has not in f.get("path", "") and path_has not in (f.get("res") or ""):
            return False
        return True
    return pred


def ring_models(extra=None):
    """default model of ring-like operator traits and ark_ff::Field helpers, acting on Q values"""
    m = Models()
    if extra:
        extra(m)

    def structured(v):
        return isinstance(v, Obj) and (v.fields or v.adt is not None) and not (v.name is not None and not v.fields)

    def binop(fun):
        def h(ex, st, fr, t, args):
            da, db = ex.deref(args[0]), ex.deref(args[1])
            if structured(da) or structured(db):
                return NotImplemented      # aggregate operands: evaluate the real implementation
            a, b = q_of(da), q_of(db)
            if a is None or b is None:
                return TOP
            return fun(a, b)
        return h

    def assignop(fun):
        def h(ex, st, fr, t, args):
            da, db = ex.deref(args[0]), ex.deref(args[1])
            if structured(da) or structured(db):
                return NotImplemented
            a, b = q_of(da), q_of(db)
            ex.write_ref(args[0], fun(a, b) if a is not None and b is not None else TOP)
            return Obj(adt="()")
        return h
    m.on(by("core::ops::arith::Add", "add"), binop(lambda a, b: a + b))
    m.on(by("core::ops::arith::Sub", "sub"), binop(lambda a, b: a - b))
    m.on(by("core::ops::arith::Mul", "mul"), binop(lambda a, b: a * b))
    m.on(by("core::ops::arith::Div", "div"), binop(lambda a, b: a / b))
    m.on(by("core::ops::arith::AddAssign", "add_assign"), assignop(lambda a, b: a + b))
    m.on(by("core::ops::arith::SubAssign", "sub_assign"), assignop(lambda a, b: a - b))
    m.on(by("core::ops::arith::MulAssign", "mul_assign"), assignop(lambda a, b: a * b))
    m.on(by("core::ops::arith::DivAssign", "div_assign"), assignop(lambda a, b: a / b))

    def neg(ex, st, fr, t, args):
        d = ex.deref(args[0])
        if structured(d):
            return NotImplemented
        a = q_of(d)
        return -a if a is not None else TOP
    m.on(by("core::ops::arith::Neg", "neg"), neg)

    def clone(ex, st, fr, t, args):
        v = ex.deref(args[0])
        return copy.deepcopy(v)
    m.on(by("core::clone::Clone", "clone"), clone)

    def mem_swap(ex, st, fr, t, a):
        # core::mem::swap(&mut x, &mut y)
        if len(a) != 2 or not (isinstance(a[0], Ref) and isinstance(a[1], Ref)):
            return NotImplemented
        x, y = copy.deepcopy(ex.deref(a[0])), copy.deepcopy(ex.deref(a[1]))
        ex.write_ref(a[0], y)
        ex.write_ref(a[1], x)
        return Obj(adt="()")
    m.on(by(None, "swap"), mem_swap)
    def borrow(ex, st, fr, t, a):
        # `&T -> &U`: when T is itself a reference, the result is that inner reference
        r = a[0]
        if isinstance(r, Ref):
            loc = ("cell", r.cell)
            for p in r.projs:
                loc = ex.step(None, loc, p) if loc else None
            inner = ex.get(loc)
            if isinstance(inner, Ref):
                return inner
        return r
    m.on(by("core::borrow::Borrow", "borrow"), borrow)
    m.on(by("core::convert::AsRef", "as_ref"), borrow)

    def unary_ret(fun):
        def h(ex, st, fr, t, args):
            d = ex.deref(args[0])
            if structured(d):
                return NotImplemented
            a = q_of(d)
            return fun(a) if a is not None else TOP
        return h

    def unary_inplace(fun):
        def h(ex, st, fr, t, args):
            d = ex.deref(args[0])
            if structured(d):
                return NotImplemented
            a = q_of(d)
            ex.write_ref(args[0], fun(a) if a is not None else TOP)
            return args[0]
        return h
    F = "ark_ff::fields::Field"
    AG = "ark_ff::fields::AdditiveGroup"
    m.on(by(F, "square"), unary_ret(lambda a: a * a))
    m.on(by(F, "square_in_place"), unary_inplace(lambda a: a * a))
    m.on(by(AG, "double"), unary_ret(lambda a: a + a))
    m.on(by(AG, "double_in_place"), unary_inplace(lambda a: a + a))
    m.on(by(AG, "neg_in_place"), unary_inplace(lambda a: -a))
    m.on(by(None, "zero"), lambda ex, st, fr, t, a: Q.const(0) if not a and t["f"].get("trait", "").endswith("Zero") else NotImplemented)
    m.on(by(None, "one"), lambda ex, st, fr, t, a: Q.const(1) if not a and t["f"].get("trait", "").endswith("One") else NotImplemented)

    def is_zero(ex, st, fr, t, args):
        d = ex.deref(args[0])
        if structured(d):
            return NotImplemented
        a = q_of(d)
        if a is None:
            return TOP
        if a.is_zero():
            return True
        if a.is_poly() and a.n.is_const():
            return False
        return Cond("zero", a)
    m.on(by("Zero", "is_zero"), is_zero)

    def is_one(ex, st, fr, t, args):
        d = ex.deref(args[0])
        if structured(d):
            return NotImplemented
        a = q_of(d)
        if a is None:
            return TOP
        if a.equals(Q.const(1)):
            return True
        if a.is_poly() and a.n.is_const():
            return False
        return Cond("eq", a, Q.const(1))
    m.on(by("One", "is_one"), is_one)

    def eq(ex, st, fr, t, args):
        a, b = q_of(ex.deref(args[0])), q_of(ex.deref(args[1]))
        if a is None or b is None:
            return NotImplemented
        if a.equals(b):
            return True
        return Cond("eq", a, b)
    m.on(by("core::cmp::PartialEq", "eq"), eq)

    def ne(ex, st, fr, t, args):
        r = eq(ex, st, fr, t, args)
        if isinstance(r, bool):
            return not r
        if isinstance(r, Cond):
            return r.negate()
        return r
    m.on(by("core::cmp::PartialEq", "ne"), ne)

    def inverse(ex, st, fr, t, args):
        a = q_of(ex.deref(args[0]))
        if a is None:
            return TOP
        if a.is_zero():
            return none()
        return Fork([(Cond("zero", a), none()), (Cond("zero", a, neg=True), some(a.inv()))])
    m.on(by(F, "inverse"), inverse)

    def inverse_in_place(ex, st, fr, t, args):
        a = q_of(ex.deref(args[0]))
        if a is None:
            return TOP
        r = args[0]

        def do(s2):
            return some(r)
        # the in-place form returns Option<&mut Self>; the write happens on the non-zero path
        ex.write_ref(args[0], a.inv())
        return some(args[0])
    m.on(by(F, "inverse_in_place"), inverse_in_place)

    def unwrap(ex, st, fr, t, args):
        v = args[0]
        if isinstance(v, Obj) and v.variant == "Some":
            return v.fields.get(0, TOP)
        if isinstance(v, Obj) and v.variant == "None":
            st.flags.add("panic")     # unwrap of None: the path ends in a panic, not in a result
            return TOP
        return TOP
    m.on(by(None, ("unwrap", "expect", "unwrap_unchecked"), "core::option::Option"), unwrap)

    def opt_map(ex, st, fr, t, args):
        v = args[0]
        if isinstance(v, Obj) and v.variant == "None":
            return none()
        if isinstance(v, Obj) and v.variant == "Some":
            r = ex.call_closure(st, args[1], [v.fields.get(0, TOP)])
            if t["f"].get("name") == "map":
                return some(r) if r is not TOP else TOP
            return r
        return TOP
    m.on(by(None, ("map", "and_then"), "core::option::Option"), opt_map)

    def opt_map_or(ex, st, fr, t, args):
        v = args[0]
        n = t["f"].get("name")
        if isinstance(v, Obj) and v.variant == "None":
            return args[1] if n in ("map_or", "unwrap_or") else TOP
        if isinstance(v, Obj) and v.variant == "Some":
            if n == "unwrap_or":
                return v.fields.get(0, TOP)
            return ex.call_closure(st, args[2], [v.fields.get(0, TOP)])
        return TOP
    m.on(by(None, ("map_or", "unwrap_or"), "core::option::Option"), opt_map_or)

    def opt_unwrap_or_else(ex, st, fr, t, args):
        v = args[0]
        if isinstance(v, Obj) and v.variant == "Some":
            return v.fields.get(0, TOP)
        if isinstance(v, Obj) and v.variant == "None":
            if isinstance(args[1], Obj) and args[1].adt == "closure":
                return ex.call_closure(st, args[1], [])
            if isinstance(args[1], Obj) and args[1].adt == "fn":
                nm = (args[1].variant or "").rsplit("::", 1)[-1]
                if nm == "zero":
                    return Q.const(0)
                if nm == "one":
                    return Q.const(1)
        return TOP
    m.on(by(None, ("unwrap_or_else", "unwrap_or_default"), "core::option::Option"), opt_unwrap_or_else)

    def try_branch(ex, st, fr, t, args):
        v = args[0]
        if isinstance(v, Obj) and v.variant == "Some":
            return Obj(adt="core::ops::control_flow::ControlFlow", variant="Continue", vidx=0, fields={0: v.fields.get(0, TOP)})
        if isinstance(v, Obj) and v.variant == "None":
            return Obj(adt="core::ops::control_flow::ControlFlow", variant="Break", vidx=1, fields={0: none()})
        return NotImplemented
    m.on(by("core::ops::try_trait::Try", "branch"), try_branch)

    def from_residual(ex, st, fr, t, args):
        v = args[0]
        if isinstance(v, Obj) and v.variant == "None":
            return none()
        return NotImplemented
    m.on(by("core::ops::try_trait::FromResidual", "from_residual"), from_residual)

    def from_int(ex, st, fr, t, args):
        if len(args) == 1 and isinstance(args[0], int) and not isinstance(args[0], bool):
            return Q.const(args[0])
        return NotImplemented
    m.on(by("core::convert::From", "from"), from_int)

    def sum_of_products(ex, st, fr, t, args):
        a, b = ex.deref(args[0]), ex.deref(args[1])
        if isinstance(a, Obj) and isinstance(b, Obj) and a.fields and len(a.fields) == len(b.fields):
            acc = Q.const(0)
            for k in sorted(a.fields):
                x, y = q_of(ex.deref(a.fields[k])), q_of(ex.deref(b.fields[k]))
                if x is None or y is None:
                    return TOP
                acc = acc + x * y
            return acc
        return TOP
    m.on(by(F, "sum_of_products"), sum_of_products)
    return m
