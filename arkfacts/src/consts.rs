// Constant table: every closed `const` / associated const of the crate (including trait-default
// constants as inherited by closed impls), evaluated by rustc's const evaluator and decoded
// type-directed into JSON integers / lists / records.
use crate::json::J;
use crate::mir_dump::scalar_int;
use crate::{path_str, span_str, ty_str};
use rustc_abi::Size;
use rustc_hir::def::DefKind;
use rustc_middle::mir::interpret::{alloc_range, AllocId, GlobalAlloc, Scalar};
use rustc_middle::mir::{ConstValue, UnevaluatedConst};
use rustc_middle::ty::{self, Ty, TyCtxt, TypeVisitableExt};
use rustc_span::DUMMY_SP;

struct D<'tcx> {
    tcx: TyCtxt<'tcx>,
    env: ty::TypingEnv<'tcx>,
    budget: usize,
}

impl<'tcx> D<'tcx> {
    fn size_of(&self, ty: Ty<'tcx>) -> Option<Size> {
        self.tcx.layout_of(self.env.as_query_input(ty)).ok().map(|l| l.size)
    }

    fn read_scalar_at(&self, alloc_id: AllocId, off: Size, size: Size, prov: bool) -> Option<Scalar> {
        match self.tcx.global_alloc(alloc_id) {
            GlobalAlloc::Memory(a) => a.inner().read_scalar(&self.tcx, alloc_range(off, size), prov).ok(),
            GlobalAlloc::Static(did) => {
                let a = self.tcx.eval_static_initializer(did).ok()?;
                a.inner().read_scalar(&self.tcx, alloc_range(off, size), prov).ok()
            }
            _ => None,
        }
    }

    fn ptr_parts(&self, s: Scalar) -> Option<(AllocId, Size)> {
        match s {
            Scalar::Ptr(p, _) => {
                let (prov, off) = p.into_raw_parts();
                Some((prov.alloc_id(), off))
            }
            _ => None,
        }
    }

    /// Decode the value of type `ty` stored at (`alloc_id`, `off`).
    fn read_at(&mut self, alloc_id: AllocId, off: Size, ty: Ty<'tcx>, depth: usize) -> J {
        match ty.kind() {
            ty::Bool | ty::Int(_) | ty::Uint(_) | ty::Char => {
                let Some(sz) = self.size_of(ty) else { return J::Null };
                match self.read_scalar_at(alloc_id, off, sz, false) {
                    Some(Scalar::Int(s)) => scalar_int(s, ty),
                    _ => J::Null,
                }
            }
            _ => self.decode(ConstValue::Indirect { alloc_id, offset: off }, ty, depth),
        }
    }

    fn decode(&mut self, val: ConstValue, ty: Ty<'tcx>, depth: usize) -> J {
        let tcx = self.tcx;
        if depth > 24 || self.budget == 0 {
            return J::obj(vec![("$trunc", J::B(true))]);
        }
        self.budget -= 1;
        match ty.kind() {
            ty::Bool | ty::Int(_) | ty::Uint(_) | ty::Char => match val {
                ConstValue::Scalar(Scalar::Int(s)) => scalar_int(s, ty),
                ConstValue::Indirect { alloc_id, offset } => self.read_at(alloc_id, offset, ty, depth + 1),
                _ => J::Null,
            },
            ty::Adt(def, _) if def.is_phantom_data() => J::Null,
            ty::Adt(..) | ty::Array(..) | ty::Tuple(..) => {
                if let ty::Tuple(ts) = ty.kind() {
                    if ts.is_empty() {
                        return J::A(vec![]);
                    }
                }
                if matches!(val, ConstValue::ZeroSized) {
                    if let ty::Adt(def, _) = ty.kind() {
                        return J::M(vec![("$adt".to_string(), J::S(path_str(tcx, def.did())))]);
                    }
                    return J::A(vec![]);
                }
                let Some(d) = tcx.try_destructure_mir_constant_for_user_output(val, ty) else {
                    return J::obj(vec![("$undecoded", J::S(ty_str(ty)))]);
                };
                match ty.kind() {
                    ty::Adt(def, _) => {
                        let vidx = d.variant.unwrap_or(rustc_abi::FIRST_VARIANT);
                        let v = def.variant(vidx);
                        let mut m = vec![("$adt".to_string(), J::S(path_str(tcx, def.did())))];
                        if def.is_enum() {
                            m.push(("$variant".to_string(), J::S(v.name.to_string())));
                        }
                        for (i, (fv, fty)) in d.fields.iter().enumerate() {
                            let name = v.fields.iter().nth(i).map(|f| f.name.to_string()).unwrap_or(i.to_string());
                            m.push((name, self.decode(*fv, *fty, depth + 1)));
                        }
                        J::M(m)
                    }
                    _ => J::A(d.fields.iter().map(|(fv, fty)| self.decode(*fv, *fty, depth + 1)).collect()),
                }
            }
            ty::Ref(_, inner, _) | ty::RawPtr(inner, _) => {
                let ptr_size = tcx.data_layout.pointer_size();
                match inner.kind() {
                    ty::Slice(_) | ty::Str => {
                        let (data, doff, len) = match val {
                            ConstValue::Slice { alloc_id, meta } => (alloc_id, Size::ZERO, meta),
                            ConstValue::Indirect { alloc_id, offset } => {
                                let Some(p) = self.read_scalar_at(alloc_id, offset, ptr_size, true) else {
                                    return J::obj(vec![("$undecoded", J::s("fatptr"))]);
                                };
                                let Some(Scalar::Int(l)) = self.read_scalar_at(alloc_id, offset + ptr_size, ptr_size, false) else {
                                    return J::obj(vec![("$undecoded", J::s("fatptr-len"))]);
                                };
                                let len = l.to_bits(ptr_size) as u64;
                                match self.ptr_parts(p) {
                                    Some((a, o)) => (a, o, len),
                                    None => {
                                        if len == 0 {
                                            return J::A(vec![]);
                                        }
                                        return J::obj(vec![("$undecoded", J::s("fatptr-noprov"))]);
                                    }
                                }
                            }
                            _ => return J::obj(vec![("$undecoded", J::s("slice-scalar"))]),
                        };
                        if inner.is_str() {
                            if let GlobalAlloc::Memory(a) = tcx.global_alloc(data) {
                                let a = a.inner();
                                let lo = doff.bytes() as usize;
                                let hi = (lo + len as usize).min(a.len());
                                let bytes = a.inspect_with_uninit_and_ptr_outside_interpreter(lo..hi);
                                return J::S(String::from_utf8_lossy(bytes).to_string());
                            }
                            return J::Null;
                        }
                        let ty::Slice(elem) = inner.kind() else { unreachable!() };
                        let Some(esz) = self.size_of(*elem) else { return J::Null };
                        let mut out = Vec::new();
                        for i in 0..len {
                            out.push(self.read_at(data, doff + esz * i, *elem, depth + 1));
                        }
                        J::A(out)
                    }
                    _ => {
                        // thin pointer to a sized value
                        let target = match val {
                            ConstValue::Scalar(s) => self.ptr_parts(s),
                            ConstValue::Indirect { alloc_id, offset } => {
                                self.read_scalar_at(alloc_id, offset, ptr_size, true).and_then(|s| self.ptr_parts(s))
                            }
                            _ => None,
                        };
                        match target {
                            Some((a, o)) => self.read_at(a, o, *inner, depth + 1),
                            None => J::obj(vec![("$undecoded", J::s("thinptr"))]),
                        }
                    }
                }
            }
            ty::FnDef(did, _) => J::M(vec![("$fn".to_string(), J::S(path_str(tcx, *did)))]),
            _ => J::obj(vec![("$undecoded", J::S(ty_str(ty)))]),
        }
    }
}

pub fn decode_value<'tcx>(tcx: TyCtxt<'tcx>, v: ConstValue, ty: Ty<'tcx>) -> J {
    let env = ty::TypingEnv::fully_monomorphized();
    let Ok(ty) = tcx.try_normalize_erasing_regions(env, ty::Unnormalized::new_wip(ty)) else { return J::Null };
    let mut d = D { tcx, env, budget: 20_000 };
    d.decode(v, ty, 0)
}

pub fn dump_consts<'tcx>(tcx: TyCtxt<'tcx>) -> J {
    let env = ty::TypingEnv::fully_monomorphized();
    let mut out: Vec<J> = Vec::new();
    let mut n_err = 0usize;
    // (1) closed consts written in this crate
    for ldid in tcx.hir_body_owners() {
        let did = ldid.to_def_id();
        let kind = tcx.def_kind(did);
        if !matches!(kind, DefKind::Const { .. } | DefKind::AssocConst { .. }) {
            continue;
        }
        if tcx.generics_of(did).count() != 0 || tcx.trait_of_assoc(did).is_some() {
            continue;
        }
        let ty = tcx.type_of(did).instantiate_identity().skip_norm_wip();
        let Ok(ty) = tcx.try_normalize_erasing_regions(env, ty::Unnormalized::new_wip(ty)) else { continue };
        if ty.has_non_region_param() {
            continue;
        }
        let name = tcx.opt_item_name(did).map(|s| s.to_string()).unwrap_or_default();
        let (file, line) = span_str(tcx, tcx.def_span(did));
        let mut rec: Vec<(&'static str, J)> = vec![
            ("id", J::S(path_str(tcx, did))),
            ("name", J::S(name)),
            ("ty", J::S(ty_str(ty))),
            ("file", J::S(file)),
            ("line", J::I(line as i128)),
            ("inherited", J::B(false)),
        ];
        if let Some(imp) = tcx.impl_of_assoc(did) {
            let st = tcx.type_of(imp).instantiate_identity().skip_norm_wip();
            rec.push(("owner", J::S(ty_str(st))));
            rec.push(("impl", J::S(path_str(tcx, imp))));
            if tcx.impl_is_of_trait(imp) {
                let tr = tcx.impl_trait_ref(imp).instantiate_identity().skip_norm_wip();
                rec.push(("trait", J::S(path_str(tcx, tr.def_id))));
            }
        }
        let r = std::panic::catch_unwind(std::panic::AssertUnwindSafe(|| match tcx.const_eval_poly(did) {
            Ok(v) => {
                let mut d = D { tcx, env, budget: 200_000 };
                Some(d.decode(v, ty, 0))
            }
            Err(_) => None,
        }));
        match r {
            Ok(Some(v)) => rec.push(("val", v)),
            Ok(None) => rec.push(("val", J::obj(vec![("$error", J::s("eval"))]))),
            Err(_) => {
                n_err += 1;
                rec.push(("val", J::obj(vec![("$error", J::s("panic"))])));
            }
        }
        out.push(J::obj(rec));
    }
    // (2) trait-default constants as inherited by closed impls of this crate
    for id in tcx.hir_crate_items(()).free_items() {
        let imp = id.owner_id.to_def_id();
        let DefKind::Impl { of_trait: true } = tcx.def_kind(imp) else { continue };
        if tcx.generics_of(imp).count() != 0 {
            continue;
        }
        let tr = tcx.impl_trait_ref(imp).instantiate_identity().skip_norm_wip();
        if tr.args.has_non_region_param() {
            continue;
        }
        let provided: Vec<String> =
            tcx.associated_item_def_ids(imp).iter().map(|&d| tcx.associated_item(d).opt_name().map(|s| s.to_string()).unwrap_or_default()).collect();
        let st = tcx.type_of(imp).instantiate_identity().skip_norm_wip();
        for &tit in tcx.associated_item_def_ids(tr.def_id) {
            if !matches!(tcx.def_kind(tit), DefKind::AssocConst { .. }) {
                continue;
            }
            let ai = tcx.associated_item(tit);
            let name = ai.opt_name().map(|s| s.to_string()).unwrap_or_else(|| "<rpitit>".to_string());
            if provided.contains(&name) || !ai.defaultness(tcx).has_value() {
                continue;
            }
            if tcx.generics_of(tit).own_params.len() != 0 {
                continue;
            }
            let ty = tcx.type_of(tit).instantiate(tcx, tr.args).skip_norm_wip();
            let Ok(ty) = tcx.try_normalize_erasing_regions(env, ty::Unnormalized::new_wip(ty)) else { continue };
            if ty.has_non_region_param() {
                continue;
            }
            let (file, line) = span_str(tcx, tcx.def_span(imp));
            let mut rec: Vec<(&'static str, J)> = vec![
                ("id", J::S(path_str(tcx, tit))),
                ("name", J::S(name)),
                ("ty", J::S(ty_str(ty))),
                ("file", J::S(file)),
                ("line", J::I(line as i128)),
                ("inherited", J::B(true)),
                ("owner", J::S(ty_str(st))),
                ("impl", J::S(path_str(tcx, imp))),
                ("trait", J::S(path_str(tcx, tr.def_id))),
            ];
            let uv = UnevaluatedConst { def: tit, args: tr.args, promoted: None };
            let r = std::panic::catch_unwind(std::panic::AssertUnwindSafe(|| {
                match tcx.const_eval_resolve(env, uv, DUMMY_SP) {
                    Ok(v) => {
                        let mut d = D { tcx, env, budget: 200_000 };
                        Some(d.decode(v, ty, 0))
                    }
                    Err(_) => None,
                }
            }));
            match r {
                Ok(Some(v)) => rec.push(("val", v)),
                Ok(None) => rec.push(("val", J::obj(vec![("$error", J::s("eval"))]))),
                Err(_) => {
                    n_err += 1;
                    rec.push(("val", J::obj(vec![("$error", J::s("panic"))])));
                }
            }
            out.push(J::obj(rec));
        }
    }
    // (3) constants that generic trait impls derive for the closed field types of this crate
    //     (e.g. <Fp<MontBackend<C, N>, N> as PrimeField>::TWO_ADICITY): evaluated per concrete type.
    derived_field_consts(tcx, env, &mut out);
    let _ = n_err;
    J::A(out)
}

const FIELD_TRAITS: &[&str] = &[
    "ark_ff::fields::prime::PrimeField",
    "ark_ff::fields::fft_friendly::FftField",
    "ark_ff::fields::Field",
    "ark_ff::fields::AdditiveGroup",
];
const FIELD_ADTS: &[&str] = &[
    "ark_ff::fields::models::fp::Fp",
    "ark_ff::fields::models::quadratic_extension::QuadExtField",
    "ark_ff::fields::models::cubic_extension::CubicExtField",
];

fn collect_field_types<'tcx>(tcx: TyCtxt<'tcx>, ty: Ty<'tcx>, out: &mut Vec<Ty<'tcx>>, depth: usize) {
    if depth > 8 {
        return;
    }
    match ty.kind() {
        ty::Adt(def, args) => {
            let p = path_str(tcx, def.did());
            if FIELD_ADTS.contains(&p.as_str()) && !ty.has_non_region_param() && !out.contains(&ty) {
                out.push(ty);
            }
            for a in args.iter() {
                if let Some(t) = a.as_type() {
                    collect_field_types(tcx, t, out, depth + 1);
                }
            }
        }
        ty::Ref(_, t, _) | ty::Slice(t) | ty::Array(t, _) | ty::RawPtr(t, _) => collect_field_types(tcx, *t, out, depth + 1),
        ty::Tuple(ts) => {
            for t in ts.iter() {
                collect_field_types(tcx, t, out, depth + 1);
            }
        }
        _ => {}
    }
}

fn derived_field_consts<'tcx>(tcx: TyCtxt<'tcx>, env: ty::TypingEnv<'tcx>, out: &mut Vec<J>) {
    // closed field types mentioned by the types of this crate's own closed constants
    let mut tys: Vec<Ty<'tcx>> = Vec::new();
    for ldid in tcx.hir_body_owners() {
        let did = ldid.to_def_id();
        if !matches!(tcx.def_kind(did), DefKind::Const { .. } | DefKind::AssocConst { .. }) {
            continue;
        }
        if tcx.generics_of(did).count() != 0 || tcx.trait_of_assoc(did).is_some() {
            continue;
        }
        let ty = tcx.type_of(did).instantiate_identity().skip_norm_wip();
        if let Ok(ty) = tcx.try_normalize_erasing_regions(env, ty::Unnormalized::new_wip(ty)) {
            collect_field_types(tcx, ty, &mut tys, 0);
        }
    }
    if tys.is_empty() {
        return;
    }
    let traits: Vec<_> = tcx
        .all_traits_including_private()
        .filter(|d| FIELD_TRAITS.contains(&path_str(tcx, *d).as_str()))
        .collect();
    for ty in tys {
        // only types whose configuration lives in this crate (avoid repeating a dependency's fields)
        let s = ty_str(ty);
        let local = crate::CRATE.with(|c| c.borrow().clone());
        if !s.contains(&format!("{}::", local)) {
            continue;
        }
        for &tr in &traits {
            for &tit in tcx.associated_item_def_ids(tr) {
                if !matches!(tcx.def_kind(tit), DefKind::AssocConst { .. }) {
                    continue;
                }
                let name = tcx.associated_item(tit).opt_name().map(|s| s.to_string()).unwrap_or_default();
                let args = tcx.mk_args_trait(ty, []);
                if tcx.generics_of(tit).count() != 1 {
                    continue;
                }
                let uv = UnevaluatedConst { def: tit, args, promoted: None };
                let r = std::panic::catch_unwind(std::panic::AssertUnwindSafe(|| {
                    match ty::Instance::try_resolve(tcx, env, tit, args) {
                        Ok(Some(_)) => {}
                        _ => return None,
                    }
                    let cty = tcx.type_of(tit).instantiate(tcx, args).skip_norm_wip();
                    let cty = tcx.try_normalize_erasing_regions(env, ty::Unnormalized::new_wip(cty)).ok()?;
                    match tcx.const_eval_resolve(env, uv, DUMMY_SP) {
                        Ok(v) => {
                            let mut d = D { tcx, env, budget: 200_000 };
                            Some((d.decode(v, cty, 0), ty_str(cty)))
                        }
                        Err(_) => None,
                    }
                }));
                if let Ok(Some((v, cty))) = r {
                    out.push(J::obj(vec![
                        ("id", J::S(path_str(tcx, tit))),
                        ("name", J::S(name)),
                        ("ty", J::S(cty)),
                        ("file", J::S(String::new())),
                        ("line", J::I(0)),
                        ("inherited", J::B(true)),
                        ("derived_for_type", J::B(true)),
                        ("owner", J::S(s.clone())),
                        ("trait", J::S(path_str(tcx, tr))),
                        ("val", v),
                    ]));
                }
            }
        }
    }
}
