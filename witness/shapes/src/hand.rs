//! Hand-written `MontConfig` implementations that inherit every default method of the trait
//! (the generic Montgomery backend), for modulus shapes with and without a spare top bit.
use ark_ff::{fields::{Fp, MontBackend, MontConfig}, BigInt, MontFp};

pub struct Hand64NoSpareConfig;
impl MontConfig<1> for Hand64NoSpareConfig {
    const MODULUS: BigInt<1> = ark_ff::BigInt!("18446744073709551557");
    const GENERATOR: Fp<MontBackend<Self, 1>, 1> = MontFp!("2");
    const TWO_ADIC_ROOT_OF_UNITY: Fp<MontBackend<Self, 1>, 1> = MontFp!("2296021864060584341");
}
pub type Hand64NoSpare = Fp<MontBackend<Hand64NoSpareConfig, 1>, 1>;

pub struct Hand127Config;
impl MontConfig<2> for Hand127Config {
    const MODULUS: BigInt<2> = ark_ff::BigInt!("170141183460469231731687303715884105727");
    const GENERATOR: Fp<MontBackend<Self, 2>, 2> = MontFp!("3");
    const TWO_ADIC_ROOT_OF_UNITY: Fp<MontBackend<Self, 2>, 2> = MontFp!("170141183460469231731687303715884105726");
}
pub type Hand127 = Fp<MontBackend<Hand127Config, 2>, 2>;

pub struct Hand128NoSpareConfig;
impl MontConfig<2> for Hand128NoSpareConfig {
    const MODULUS: BigInt<2> = ark_ff::BigInt!("340282366920938463463374607431768211297");
    const GENERATOR: Fp<MontBackend<Self, 2>, 2> = MontFp!("5");
    const TWO_ADIC_ROOT_OF_UNITY: Fp<MontBackend<Self, 2>, 2> = MontFp!("278152612286619921126407258624955093703");
}
pub type Hand128NoSpare = Fp<MontBackend<Hand128NoSpareConfig, 2>, 2>;

pub struct Hand255Config;
impl MontConfig<4> for Hand255Config {
    const MODULUS: BigInt<4> = ark_ff::BigInt!("57896044618658097711785492504343953926634992332820282019728792003956564819949");
    const GENERATOR: Fp<MontBackend<Self, 4>, 4> = MontFp!("2");
    const TWO_ADIC_ROOT_OF_UNITY: Fp<MontBackend<Self, 4>, 4> = MontFp!("19681161376707505956807079304988542015446066515923890162744021073123829784752");
}
pub type Hand255 = Fp<MontBackend<Hand255Config, 4>, 4>;
