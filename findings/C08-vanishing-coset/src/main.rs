use ark_ff::{FftField, One};
use ark_poly::univariate::DensePolynomial;
use ark_poly::{DenseUVPolynomial, EvaluationDomain, Polynomial, Radix2EvaluationDomain};
use ark_test_curves::bls12_381::Fr;
fn main() {
    let p = DensePolynomial::<Fr>::from_coefficients_vec((1..=11u64).map(Fr::from).collect());
    let sub = Radix2EvaluationDomain::<Fr>::new(4).unwrap();
    let coset = sub.get_coset(Fr::GENERATOR).unwrap();
    for (name, d) in [("subgroup", sub), ("coset", coset)] {
        let z: DensePolynomial<Fr> = d.vanishing_polynomial().into();
        let m = p.mul_by_vanishing_poly(d);
        let (q, r) = p.divide_by_vanishing_poly(d);
        let back = &(&q * &z) + &r;
        // the vanishing polynomial vanishes on the domain: so must p * Z
        let vanishes = d.elements().all(|e| m.evaluate(&e) == Fr::from(0u64));
        println!("{name}: mul_by_vanishing_poly == p * Z_D: {}; p*Z_D vanishes on D: {}; q*Z_D + r == p: {}; deg r < size: {}",
                 m == &p * &z, vanishes, back == p, r.degree() < d.size());
    }
    let _ = Fr::one();
}
