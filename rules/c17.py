"""C17 — multilinear extensions and sparse multivariate polynomials: the clauses visible in the code's shape.

  R-FOLD     the three folding kernels are the defining recurrences (expression reconstruction over MIR,
             compared as polynomials, so algebraically equal rewritings are accepted):
               dense fix_variables:  t[b] <- t[2b] + r_i (t[2b+1] - t[2b]),  r_i = point[i], 2^(nv-i-1) entries in
                                     round i, result = first 2^(nv-dim) entries with nv-dim variables;
               precompute_eq:        dp[0] = 1-g0, dp[1] = g0;  dp[b+2^i] = dp[b] g_i, then dp[b] = dp[b] - dp[b+2^i];
               sparse fix_variables: acc[idx >> w] += eq[idx & (2^w - 1)] * v.
  R-SWAPBITS swap_bits(x, a, b, k) exchanges the bit windows [a, a+k) and [b, b+k) of x and nothing else, for every
             64-bit x and every admissible (a, b, k): proof by abstract interpretation of its MIR in the domain of
             GF(2)-affine bit vectors (each result bit = XOR of input bits).
  R-KERNEL   element-wise closures of the operators are the ring operations they stand for (symbolic evaluation).
  R-OPS      operators defined through other operators compute the right combination
             (Sub = self + (-rhs), SubAssign = self - rhs, AddAssign = self + rhs, by-value forms delegate).
  R-GUARD    shape guards precede the work: |point| <= num_vars, |evaluations| = 2^num_vars, |point| = num_vars,
             sparse index < 2^num_vars; dense and sparse `relabel` accept the same windows (b + k <= num_vars).
  R-LAZY     no side-effecting closure sits in a lazy iterator adaptor that is driven by a non-exhausting consumer
             (next / next_back / nth / find ...): such a loop silently processes one element.
  R-CANON    multivariate SparsePolynomial values are built only by from_coefficients_vec (sort, merge, drop zeros)
             or by the sorted merge of Add followed by the zero filter; SparseTerm only by SparseTerm::new.
  Not decided: that the recurrences, iterated over all rounds, equal the hypercube sum for every table (induction over
  run-time sizes); hash-map iteration; rand.
"""
from arklib import dataflow as DF, symex as SX
from arklib.poly import Q
from arklib.facts import op_local, op_place, place_parts, closure_args
from rules.c07 import norm, E, show, A, C, qeq

MLE = "ark_poly::evaluations::multivariate::multilinear::"
DENSE = MLE + "dense::DenseMultilinearExtension"
SPARSE = MLE + "sparse::SparseMultilinearExtension"
MVSP = "ark_poly::polynomial::multivariate::sparse::SparsePolynomial"
TERM = "ark_poly::polynomial::multivariate::SparseTerm"
MLT = MLE + "MultilinearExtension"


# ---- terms -> polynomials ---------------------------------------------------------------------------------

class NotPoly(Exception):
    pass


def to_q(t, leaf):
    """interpret a reconstructed expression as a polynomial; `leaf(term)` names opaque sub-terms (or raises NotPoly).
    Integer index arithmetic (Shl by a constant, Add, Sub, Mul) and ring calls (add, sub, mul, neg) are interpreted."""
    if isinstance(t, int) and not isinstance(t, bool):
        return Q.const(t)
    if isinstance(t, tuple):
        h = t[0]
        if h == "bin":
            op = t[1]
            if op in ("Add", "Sub", "Mul"):
                a, b = to_q(t[2], leaf), to_q(t[3], leaf)
                return a + b if op == "Add" else (a - b if op == "Sub" else a * b)
            if op == "Shl" and isinstance(t[3], int):
                return to_q(t[2], leaf) * Q.const(1 << t[3])
        if h == "call" and not (len(t) > 3 and t[3]):
            n, args = t[1], t[2]
            if n in ("add", "sub", "mul") and len(args) == 2:
                a, b = to_q(args[0], leaf), to_q(args[1], leaf)
                return a + b if n == "add" else (a - b if n == "sub" else a * b)
            if n == "neg" and len(args) == 1:
                return Q.const(0) - to_q(args[0], leaf)
    v = leaf(t)
    if v is None:
        raise NotPoly(show(t))
    return v if isinstance(v, Q) else Q.var(v)


def int_leaf(names):
    """leaf namer for integer index expressions: `names` maps terms to variable names; 2^e becomes pow2<e>"""
    def leaf(t):
        if t in names:
            return names[t]
        if isinstance(t, tuple) and t[0] == "bin" and t[1] == "Shl" and t[2] == 1:
            return "pow2<%s>" % to_q(t[3], leaf)
        return None
    return leaf


def mle_fns(facts, head, unit="ws"):
    out = {}
    for f in facts.fns(unit=unit, crate="ark_poly"):
        if f.kind == "Closure" or "::tests::" in f.id:
            continue
        slf = (f.impl or {}).get("self") or ""
        if f.self_head == head or (slf.startswith("&") and __import__("re").sub(r"^&('[a-z_]+ )?(mut )?", "", slf).startswith(head + "<")):
            out.setdefault((f.name, f.trait_impl, (f.impl or {}).get("self"), tuple((f.impl or {}).get("trait_args") or ())), f)
    return out


def pick(fns, name, trait_suffix=None):
    for (n, tr, _s, _ta), f in fns.items():
        if n == name and (trait_suffix is None or (tr or "").endswith(trait_suffix)):
            return f
    return None


def stores(fn):
    """(bb, dest-term, value-term) for every store through a pointer produced by index_mut / a deref'd reference"""
    out = []
    defs = fn.defs()
    for bi, si, s in fn.stmts():
        if "d" not in s:
            continue
        l, projs = place_parts(s["d"])
        if not (projs and projs[0] == "*"):
            continue
        ds = defs.get(l, [])
        dest = None
        if len(ds) == 1 and ds[0][2] == "call":
            t = ds[0][3]
            dest = ("call", t["f"].get("name"), tuple(E(fn, a) for a in t["args"]))
        elif len(ds) == 1 and ds[0][2] == "assign":
            dest = E(fn, {"c": l})
        if s["r"]["k"] == "use":
            out.append((bi, dest, E(fn, s["r"]["o"])))
    return out


def dominates(fn, a, b):
    return a in DF.dominators(fn).get(b, ()) if hasattr(DF, "dominators") else True


# ---- R-FOLD -----------------------------------------------------------------------------------------------

def check_fold(res, facts, dense_proved=False):
    """`dense_proved`: R-MLE evaluated dense fix_variables for every nv of its range and found the partial evaluation.  Then a
    body that no longer matches the one-round template below is not a violation here (its rounds are decided together,
    whatever their shape); the template documents the pinned shape."""
    rule = res.rule("R-FOLD", "folding kernels of fix_variables / precompute_eq are the defining recurrences (compared as polynomials)", 3)
    # --- dense ---
    fn = pick(mle_fns(facts, DENSE), "fix_variables", "MultilinearExtension")
    key = "ark_poly|DenseMultilinearExtension::fix_variables"
    if fn is None:
        rule.bad(key, "anchor missing")
    else:
        problems = []
        nv, dim = A(1, "num_vars"), C("len", A(2))
        ev = A(1, "evaluations")
        sts = [(bb, d, v) for bb, d, v in stores(fn) if isinstance(d, tuple) and d[0] == "call" and d[1] == "index_mut"]
        if len(sts) != 1:
            problems.append("expected exactly one table update, found %d" % len(sts))
        else:
            bb, dest, val = sts[0]
            dest_idx = dest[2][1]
            # loop variables occurring in the destination index and the value
            iters = set()

            def collect(t):
                if isinstance(t, tuple) and t:
                    if t[0] in ("iter", "iter="):
                        iters.add(t)
                    for x in t:
                        collect(x)
            collect(val)
            collect(dest_idx)
            inner = [t for t in iters if any(isinstance(x, tuple) and x and x[0] in ("iter", "iter=") for x in _subterms(t[2]))]
            outer = [t for t in iters if t not in inner]
            if len(inner) != 1 or len(outer) != 1:
                problems.append("could not identify the round / entry loops (%s)" % [show(t) for t in iters])
            else:
                b, i = inner[0], outer[0]
                names = {b: "b", i: "i", nv: "nv", dim: "dim"}
                il = int_leaf(names)
                try:
                    s_ = to_q(i[1], il)                 # first value of the round variable
                    e_ = to_q(i[2], il) + (Q.const(1) if i[0] == "iter=" else Q.const(0))
                    t_round = Q.var("i") - s_            # 0-based round number
                    if not qeq(e_ - s_, Q.var("dim")):
                        problems.append("the round loop runs %s times, not once per fixed variable (len(partial_point))" % (e_ - s_))
                    # entries per round: 2^(nv - round - 1)
                    bound = b[2]
                    okb = isinstance(bound, tuple) and bound[0] == "bin" and bound[1] == "Shl" and bound[2] == 1 and b[1] == 0 and qeq(to_q(bound[3], il), Q.var("nv") - t_round - Q.const(1))
                    if not okb:
                        problems.append("round i folds entries %s..%s instead of 0..2^(nv-i-1)" % (show(b[1]), show(bound)))

                    def vleaf(t):
                        if isinstance(t, tuple) and t[0] == "call" and t[1] == "index" and t[2][0] == ev:
                            return "T[%s]" % to_q(t[2][1], il)
                        if isinstance(t, tuple) and t[0] == "arg" and t[1] == 2 and len(t[2]) == 1 and t[2][0][0] == "idx":
                            return "P[%s]" % to_q(t[2][0][1], il)
                        if isinstance(t, tuple) and t[0] == "call" and t[1] == "index" and len(t) == 3 and t[2][0] == A(2):
                            return "P[%s]" % to_q(t[2][1], il)
                        return None
                    got = to_q(val, vleaf)
                    twob = Q.var("b") * Q.const(2)
                    L, R, r = Q.var("T[%s]" % twob), Q.var("T[%s]" % (twob + Q.const(1))), Q.var("P[%s]" % t_round)
                    want = L + r * (R - L)
                    if not qeq(got, want):
                        problems.append("entry update is %s; the multilinear fold is T[2b] + P[i]*(T[2b+1] - T[2b]) = %s" % (got, want))
                    if not qeq(to_q(dest_idx, il), Q.var("b")):
                        problems.append("the folded value is stored at index %s instead of b" % to_q(dest_idx, il))
                except NotPoly as e:
                    problems.append("kernel is not a polynomial expression of table entries: %s" % e)
        # result: first 2^(nv-dim) entries, nv - dim variables
        outs = [t for _, t in fn.calls() if t["f"].get("name") in ("from_evaluations_slice", "from_evaluations_vec")]
        if len(outs) != 1:
            problems.append("result is not built by from_evaluations_slice")
        else:
            a0, a1 = E(fn, outs[0]["args"][0]), E(fn, outs[0]["args"][1])
            wantn = ("bin", "Sub", A(1, "num_vars"), C("len", A(2)))
            wantsl = C("index", A(1, "evaluations"), ("agg", "RangeTo", (("bin", "Shl", 1, wantn),)))
            if a0 != wantn:
                problems.append("result has %s variables instead of num_vars - len(partial_point)" % show(a0))
            if a1 != wantsl:
                problems.append("result table is %s instead of the first 2^(num_vars - len(partial_point)) entries" % show(a1))
        if problems and dense_proved:
            rule.ok(key, "round template not matched (%s); the iterated rounds are proved equal to the partial evaluation under R-MLE" % "; ".join(problems)[:120], fn.loc)
        else:
            (rule.bad if problems else rule.ok)(key, "; ".join(problems) if problems else "T[b] <- T[2b] + P[i](T[2b+1]-T[2b]) over 2^(nv-i-1) entries per round, dim rounds; result = first 2^(nv-dim) entries", fn.loc)
    # --- precompute_eq ---
    fns = [f for f in facts.fns(unit="ws", crate="ark_poly") if f.id == MLE + "sparse::precompute_eq"]
    key = "ark_poly|sparse::precompute_eq"
    if not fns:
        rule.bad(key, "anchor missing")
    else:
        fn = fns[0]
        problems = []
        sts = [(bb, d, v) for bb, d, v in stores(fn) if isinstance(d, tuple) and d[0] == "call" and d[1] == "index_mut"]
        g = A(1)
        try:
            its = set()

            def collect(t):
                if isinstance(t, tuple) and t:
                    if t[0] in ("iter", "iter="):
                        its.add(t)
                    for x in t:
                        collect(x)
            for _, d, v in sts:
                collect(d)
                collect(v)
            inner = [t for t in its if any(isinstance(x, tuple) and x and x[0] in ("iter", "iter=") for x in _subterms(t[2]))]
            outer = [t for t in its if t not in inner]
            names = {C("len", g): "dim"}
            if len(inner) == 1 and len(outer) == 1:
                names[inner[0]] = "b"
                names[outer[0]] = "i"
            il = int_leaf(names)
            table = None

            def vleaf(t):
                if isinstance(t, tuple) and t[0] == "call" and t[1] == "index" and len(t[2]) == 2:
                    return "D[%s]" % to_q(t[2][1], il)
                if isinstance(t, tuple) and t[0] == "arg" and t[1] == 1 and len(t[2]) == 1:
                    sel = t[2][0]
                    if sel[0] == "idx":
                        return "G[%s]" % to_q(sel[1], il)
                    if sel[0] == "cidx" and not sel[2]:
                        return "G[%s]" % Q.const(sel[1])
                return None
            got = []
            for bb, d, v in sts:
                got.append((bb, to_q(d[2][1], il), to_q(v, vleaf)))
            p2i = Q.var("pow2<%s>" % Q.var("i"))
            bq = Q.var("b")
            G = lambda q: Q.var("G[%s]" % q)
            D = lambda q: Q.var("D[%s]" % q)
            want = [
                (Q.const(0), Q.const(1) - G(Q.const(0))),
                (Q.const(1), G(Q.const(0))),
                (bq + p2i, D(bq) * G(Q.var("i"))),
                (bq, D(bq) - D(bq + p2i)),
            ]
            if len(got) != 4:
                problems.append("expected four table writes (two initial, two per step), found %d" % len(got))
            else:
                # the second write of a step may read back the first (dp[b] - dp[b + 2^i]) or reuse its value
                # (prev - upper): express it over the table as it was before the step
                hi_name = "D[%s]" % (bq + p2i)
                if hi_name in got[3][2].vars() and got[2][2].is_poly() and qeq(got[2][1], bq + p2i):
                    got[3] = (got[3][0], got[3][1], got[3][2].subst(hi_name, got[2][2].n))
                want[3] = (bq, D(bq) - D(bq) * G(Q.var("i")))
                for (bb, di, dv), (wi, wv) in zip(got, want):
                    if not (qeq(di, wi) and qeq(dv, wv)):
                        problems.append("write dp[%s] = %s; the eq-table recurrence has dp[%s] = %s" % (di, dv, wi, wv))
                # order: the write of dp[b + 2^i] precedes the write of dp[b] (which reads it)
                if not problems and not (got[2][0] < got[3][0] and _reaches(fn, got[2][0], got[3][0])):
                    problems.append("dp[b] is updated before dp[b + 2^i]")
            if len(inner) == 1 and len(outer) == 1:
                b, i = inner[0], outer[0]
                if not (b[1] == 0 and b[2] == ("bin", "Shl", 1, i)):
                    problems.append("step i runs over %s..%s instead of 0..2^i" % (show(b[1]), show(b[2])))
                if not (i[1] == 1 and i[2] == C("len", g) and i[0] == "iter"):
                    problems.append("steps run over %s..%s instead of 1..len(g)" % (show(i[1]), show(i[2])))
            else:
                problems.append("could not identify the two loops")
        except NotPoly as e:
            problems.append("kernel is not a polynomial expression: %s" % e)
        (rule.bad if problems else rule.ok)(key, "; ".join(problems) if problems else "dp[0]=1-g0, dp[1]=g0; dp[b+2^i]=dp[b]g_i then dp[b]-=dp[b+2^i], b<2^i, i=1..dim", fn.loc)
    # --- sparse fix_variables ---
    fn = pick(mle_fns(facts, SPARSE), "fix_variables", "MultilinearExtension")
    key = "ark_poly|SparseMultilinearExtension::fix_variables"
    if fn is None:
        rule.bad(key, "anchor missing")
    else:
        problems = []
        accs = [t for _, t in fn.calls() if t["f"].get("name") == "add_assign"]
        if len(accs) != 1:
            problems.append("expected one accumulation, found %d" % len(accs))
        else:
            dst, val = E(fn, accs[0]["args"][0]), E(fn, accs[0]["args"][1])
            # val = mul(index(pre, idx & (2^w - 1)), v)     dst = or_insert(entry(map, idx >> w), 0)
            okv = isinstance(val, tuple) and val[0] == "call" and val[1] == "mul" and len(val[2]) == 2
            gz = val[2][0] if okv else None
            if okv and not (isinstance(gz, tuple) and gz[0] == "call" and gz[1] == "index"):
                gz, other = val[2][1], val[2][0]
            else:
                other = val[2][1] if okv else None
            okg = isinstance(gz, tuple) and gz[0] == "call" and gz[1] == "index" and isinstance(gz[2][0], tuple) and gz[2][0][0] == "call" and gz[2][0][1] == "precompute_eq"
            if not (okv and okg):
                problems.append("accumulated value is %s, expected eq[idx & (2^w-1)] * v" % show(val)[:200])
            else:
                focus = gz[2][0][2][0]
                # w = number of variables of the eq table = len(focus); when focus is cut as point[..k] or
                # point.split_at(k).0 its length is k (the cut panics otherwise), so k is accepted as w too
                ws = [C("len", focus)]
                if isinstance(focus, tuple) and focus[0] == "call" and focus[1] == "index" and len(focus) == 3 and isinstance(focus[2][1], tuple) and focus[2][1][:2] == ("agg", "RangeTo"):
                    ws.append(focus[2][1][2][0])
                if isinstance(focus, tuple) and focus[0] == "call" and focus[1] == "split_at" and len(focus) == 4 and focus[3] == ("0",):
                    ws.append(focus[2][1])
                idx = gz[2][1]
                w = next((w_ for w_ in ws if isinstance(idx, tuple) and idx[0] == "bin" and idx[1] == "BitAnd" and ("bin", "Sub", ("bin", "Shl", 1, w_), 1) in (idx[2], idx[3])), ws[0])
                okmask = isinstance(idx, tuple) and idx[0] == "bin" and idx[1] == "BitAnd" and ("bin", "Sub", ("bin", "Shl", 1, w), 1) in (idx[2], idx[3])
                old = (idx[2] if idx[3] == ("bin", "Sub", ("bin", "Shl", 1, w), 1) else idx[3]) if okmask else None
                if not okmask:
                    problems.append("eq-table index is %s, expected idx & (2^w - 1) with w = len(focus)" % show(idx)[:160])
                okd = isinstance(dst, tuple) and dst[0] == "call" and dst[1] == "or_insert" and dst[2][1] == 0 and isinstance(dst[2][0], tuple) and dst[2][0][1] == "entry"
                if not okd:
                    problems.append("accumulator is %s, expected entry(idx >> w).or_insert(0)" % show(dst)[:160])
                elif okmask:
                    nidx = dst[2][0][2][1]
                    if nidx != ("bin", "Shr", old, w):
                        problems.append("new index is %s, expected idx >> w (the same idx and w as in the mask)" % show(nidx)[:160])
                    # the value multiplied is the entry's value (.1 of the same map item whose .0 is idx)
                    if not (isinstance(old, tuple) and isinstance(other, tuple) and _strip_last(old) == _strip_last(other) and _last(old) == "0" and _last(other) == "1"):
                        problems.append("index %s and value %s do not come from the same table entry" % (show(old)[:80], show(other)[:80]))
        outs = []
        for bi, si, s in fn.stmts():
            r = s.get("r")
            if r and r["k"] == "agg" and r.get("adt") == SPARSE:
                outs.append(dict(zip(r.get("fields") or [], [E(fn, o) for o in r["ops"]])))
        if len(outs) != 1 or outs[0].get("num_vars") != ("bin", "Sub", A(1, "num_vars"), C("len", A(2))):
            problems.append("result num_vars is %s, expected num_vars - len(partial_point)" % [show(o.get("num_vars")) for o in outs])
        (rule.bad if problems else rule.ok)(key, "; ".join(problems) if problems else "acc[idx >> w] += eq[idx & (2^w-1)] * v, w = len(focus); num_vars - dim variables remain", fn.loc)


def _subterms(t):
    out = []
    st = [t]
    while st:
        x = st.pop()
        if isinstance(x, tuple):
            out.append(x)
            st.extend(x)
    return out


def _last(t):
    if isinstance(t, tuple) and t[0] in ("call",) and len(t) > 3 and t[3]:
        return t[3][-1]
    if isinstance(t, tuple) and t[0] in ("proj", "arg", "phi") and t[2]:
        return t[2][-1]
    return None


def _strip_last(t):
    if isinstance(t, tuple) and t[0] == "call" and len(t) > 3 and t[3]:
        return t[:3] + (t[3][:-1],) + t[4:]
    if isinstance(t, tuple) and t[0] in ("proj", "arg", "phi") and t[2]:
        return t[:2] + (t[2][:-1],)
    return t


def _reaches(fn, a, b):
    succ = fn.succ()
    seen, st = set(), [a]
    while st:
        x = st.pop()
        if x == b:
            return True
        if x in seen:
            continue
        seen.add(x)
        st.extend(succ[x])
    return False


# ---- R-SWAPBITS (proof by abstract interpretation over GF(2)-affine bit vectors) -------------------------

from arklib import bvinterp as BI
W = BI.W


def bv_eval(fn, a, b, n):
    """abstractly run swap_bits' MIR with x symbolic and (a, b, n) concrete; returns BV or a string (why undecided)"""
    try:
        vals, end = BI.run(fn, {1: BI.BV.word(0), 2: a, 3: b, 4: n})
    except BI.Stop as e:
        return str(e)
    return vals.get(0) if end == "return" else "did not return"


def check_swapbits(res, facts, tier):
    rule = res.rule("R-SWAPBITS", "swap_bits exchanges windows [a,a+k) and [b,b+k) for every 64-bit x and every admissible (a,b,k) [GF(2)-affine abstract interpretation of its MIR]", 1)
    fns = [f for f in facts.fns(unit="ws", crate="ark_poly") if f.id == MLE + "swap_bits"]
    key = "ark_poly|swap_bits"
    if not fns:
        rule.bad(key, "anchor missing")
        return
    fn = fns[0]
    limit = W
    n_cases = 0
    for k in range(1, limit // 2 + 1):
        for a in range(0, limit - 2 * k + 1):
            for b in range(a + k, limit - k + 1):
                n_cases += 1
                out = bv_eval(fn, a, b, k)
                if isinstance(out, str) or out is None:
                    rule.undecided(key, "abstract interpretation stopped at (a,b,k)=(%d,%d,%d): %s" % (a, b, k, out), fn.loc)
                    return
                for j in range(W):
                    src = j
                    if a <= j < a + k:
                        src = j - a + b
                    elif b <= j < b + k:
                        src = j - b + a
                    if out.rows[j] != (1 << src) or (out.const >> j) & 1:
                        rule.bad(key, "for (a, b, k) = (%d, %d, %d) result bit %d is %s instead of input bit %d" % (a, b, k, j, _bits(out.rows[j], (out.const >> j) & 1), src), fn.loc)
                        return
    # also the highest windows (b + k = 64) in the quick tier
    if tier != "thorough":
        for k in (1, 2, 7, 16, 32):
            for a in (0, 1, 31 - k if 31 - k >= 0 else 0):
                b = W - k
                if a + k > b:
                    continue
                n_cases += 1
                out = bv_eval(fn, a, b, k)
                if isinstance(out, str) or out is None:
                    rule.undecided(key, "abstract interpretation stopped at (a,b,k)=(%d,%d,%d): %s" % (a, b, k, out), fn.loc)
                    return
                for j in range(W):
                    src = j - a + b if a <= j < a + k else (j - b + a if b <= j < b + k else j)
                    if out.rows[j] != (1 << src) or (out.const >> j) & 1:
                        rule.bad(key, "for (a, b, k) = (%d, %d, %d) result bit %d is %s instead of input bit %d" % (a, b, k, j, _bits(out.rows[j], (out.const >> j) & 1), src), fn.loc)
                        return
    rule.ok(key, "bit permutation verified for all 2^64 inputs x and %d windows (a < a+k <= b, b+k <= %d%s)" % (n_cases, limit, "" if tier == "thorough" else " plus top-of-word windows"), fn.loc)
    # the same windows with the two positions passed in descending order: when swap_bits is not symmetric in (a, b),
    # every caller has to order its arguments first
    asym = None
    for k in (1, 2, 3):
        for a in (0, 1, 5):
            for b in (a + k, a + k + 2, 2 * a + k + 7):
                out = bv_eval(fn, b, a, k)
                okp = not (isinstance(out, str) or out is None) and all(
                    out.rows[j] == (1 << (j - a + b if a <= j < a + k else (j - b + a if b <= j < b + k else j))) and not (out.const >> j) & 1 for j in range(W))
                if not okp and asym is None:
                    asym = (b, a, k)
    if asym is None:
        rule.ok(key + "|symmetric", "the same permutation when the positions are passed in descending order (27 windows)", fn.loc)
        return
    allf = {f.id: f for f in facts.fns(unit="ws", crate="ark_poly")}
    for f in allf.values():
        if "::tests::" in f.id or not any((t["f"].get("name") or "") == "swap_bits" for _, t in f.calls()):
            continue
        scope = [f]
        pid = f.id
        while "::{closure#" in pid:
            pid = pid.rsplit("::{closure#", 1)[0]
            if pid in allf:
                scope.append(allf[pid])
        names = {(t["f"].get("name") or "") for g in scope for _, t in g.calls()}
        ordered = "swap" in names or {"min", "max"} <= names
        ckey = "ark_poly|swap_bits|caller %s" % f.id.rsplit("::", 2)[-2 if "{closure" in f.id else -1]
        if ordered:
            rule.ok(ckey, "swap_bits is not symmetric in its positions (wrong for (a, b, k) = %s); this caller orders them first" % (asym,), f.loc)
        else:
            rule.bad(ckey, "swap_bits is only right for positions in ascending order (wrong for (a, b, k) = %s) and this caller passes them as given, without ordering them" % (asym,), f.loc)
    res.note_evaluations = n_cases


def _bits(row, c):
    xs = [str(i) for i in range(W) if (row >> i) & 1]
    return ("x[" + "]^x[".join(xs) + "]" if xs else "0") + ("^1" if c else "")


# ---- R-KERNEL ---------------------------------------------------------------------------------------------

def run_closure(facts, clo, args, upvals):
    ex = SX.Engine(facts, clo.unit, SX.ring_models(), max_paths=8, max_depth=3, inline_limit=0)
    ups = clo.d.get("upvars") or []
    fields = {}
    for i, u in enumerate(ups):
        v = upvals[i] if i < len(upvals) else SX.Obj(name="up%d" % i)
        fields[i] = SX.Ref(SX.Cell(v)) if u.get("by") in ("mut", "ref") else v
    env = SX.Obj(adt="closure", variant=clo.id, fields=fields)
    a1 = SX.Ref(SX.Cell(env)) if clo.local_ty(1).startswith("&") else env
    paths = ex.run(clo, [a1] + list(args))
    if len(paths) != 1:
        return None, ex
    return paths[0], ex


def closures_of(facts, fn, name):
    out = []
    for bb, t in fn.calls():
        if t["f"].get("name") == name:
            for cid in closure_args(fn, t):
                c = facts.get(cid, fn.unit)
                if c is not None:
                    out.append((t, c))
    return out


def check_kernel(res, facts):
    rule = res.rule("R-KERNEL", "element-wise closures of the MLE / multivariate operators are the ring operations they stand for [symbolic evaluation]", 6)
    a, b, f_, x = Q.var("a"), Q.var("b"), Q.var("f"), Q.var("x")
    dense = mle_fns(facts, DENSE)
    sparse = mle_fns(facts, SPARSE)
    mv = mle_fns(facts, MVSP)

    def ref(name):
        return SX.Ref(SX.Cell(SX.Obj(name=name)))

    def tup(*vals):
        return SX.Obj(adt="tuple", fields={i: v for i, v in enumerate(vals)})
    jobs = []
    # dense
    for (n, tr, slf, ta), fn in dense.items():
        if n == "add" and (tr or "").endswith("ops::arith::Add") and (slf or "").startswith("&"):
            jobs.append(("Dense::add", fn, "map", [tup(ref("a"), ref("b"))], [], lambda r, ex: SX.q_of(ex.deref(r)), a + b))
        if n == "neg":
            jobs.append(("Dense::neg", fn, "map", [ref("x")], [], lambda r, ex: SX.q_of(ex.deref(r)), Q.const(0) - x))
        if n == "add_assign" and len(ta) > 1 and ta[1].startswith("(F,"):
            jobs.append(("Dense::add_assign(f,other)", fn, "map", [ref("x")], [SX.Obj(name="f")], lambda r, ex: SX.q_of(ex.deref(r)), f_ * x))
        if n == "mul" and (slf or "").startswith("&"):
            jobs.append(("Dense::mul(scalar)", fn, "map", [ref("x")], [ref("f")], lambda r, ex: SX.q_of(ex.deref(r)), f_ * x))
    for (n, tr, slf, ta), fn in sparse.items():
        if n == "neg":
            jobs.append(("Sparse::neg", fn, "map", [tup(ref("i"), ref("x"))], [], lambda r, ex: (SX.q_of(ex.deref(ex.deref(r).fields[0])), SX.q_of(ex.deref(ex.deref(r).fields[1]))), (Q.var("i"), Q.const(0) - x)))
        if n == "add_assign" and len(ta) > 1 and ta[1].startswith("(F,"):
            jobs.append(("Sparse::add_assign(f,other)", fn, "map", [tup(ref("i"), ref("x"))], [SX.Obj(name="f")], lambda r, ex: (SX.q_of(ex.deref(ex.deref(r).fields[0])), SX.q_of(ex.deref(ex.deref(r).fields[1]))), (Q.var("i"), f_ * x)))
    for key, fn, adaptor, args, ups, read, want in jobs:
        k = "ark_poly|%s" % key
        cl = closures_of(facts, fn, adaptor)
        if len(cl) != 1:
            rule.bad(k, "expected one `%s` closure, found %d" % (adaptor, len(cl)), fn.loc)
            continue
        t, clo = cl[0]
        # the scalar-multiplication kernels take the scalar as their only capture
        if ups and len(clo.d.get("upvars") or []) != len(ups):
            rule.undecided(k, "closure captures %d values" % len(clo.d.get("upvars") or []), clo.loc)
            continue
        if key == "Dense::mul(scalar)":
            args = [SX.Obj(name="x")] if not clo.local_ty(2).startswith("&") else args
        p, ex = run_closure(facts, clo, args, ups)
        if p is None or isinstance(p.ret, SX.Top):
            rule.undecided(k, "closure body not evaluable", clo.loc)
            continue
        try:
            got = read(p.ret, ex)
        except Exception as e:
            rule.undecided(k, "result not readable: %s" % e, clo.loc)
            continue
        same = all(qeq(g, w) for g, w in zip(got, want)) if isinstance(want, tuple) else qeq(got, want)
        if same:
            rule.ok(k, "element -> %s" % (want,), clo.loc)
        else:
            rule.bad(k, "element-wise closure computes %s; the operator needs %s" % (got, want), clo.loc)


# ---- R-OPS ------------------------------------------------------------------------------------------------

def _short_ty(t):
    import re
    return re.sub(r"[A-Za-z_0-9]+::", "", t).replace("'a ", "")


def _mentions(v, x):
    if v == x or (isinstance(x, tuple) and isinstance(v, tuple) and len(v) >= 3 and v[0] == "arg" and x[0] == "arg" and v[1] == x[1]):
        return True
    return isinstance(v, (tuple, list)) and any(_mentions(c, x) for c in v)


def _mentions_call(v, names):
    if isinstance(v, tuple) and len(v) >= 2 and v[0] == "call" and v[1] in names:
        return True
    return isinstance(v, (tuple, list)) and any(_mentions_call(c, names) for c in v)


def check_ops(res, facts):
    rule = res.rule("R-OPS", "operators defined through other operators compute the right combination", 14)
    for head, short in ((DENSE, "Dense"), (SPARSE, "Sparse"), (MVSP, "MvSparse")):
        fns = mle_fns(facts, head)
        for (n, tr, slf, ta), fn in sorted(fns.items(), key=lambda kv: str(kv[0])):
            tshort = (tr or "").rsplit("::", 1)[-1]
            if tshort not in ("Add", "Sub", "AddAssign", "SubAssign", "Mul", "MulAssign"):
                continue
            byref = (slf or "").startswith("&")
            key = "ark_poly|%s::%s<%s>%s" % (short, tshort, _short_ty(ta[1]) if len(ta) > 1 else "", "&" if byref else "")
            ret = E(fn, {"c": 0})
            calls = [(t["f"].get("name"), tuple(E(fn, a) for a in t["args"])) for _, t in fn.calls() if t["f"].get("name") not in DF.TRANSPARENT]
            stores_ = [v for _, d, v in stores(fn) if d == A(1) or d is None or (isinstance(d, tuple) and d[0] == "arg" and d[1] == 1)]
            if tshort == "Sub" and byref:
                want = C("add", A(1), C("neg", A(2)))
                (rule.ok if ret == want else rule.bad)(key, "self + (-rhs)" if ret == want else "computes %s, expected self + (-rhs)" % show(ret), fn.loc)
            elif tshort in ("Add", "Sub", "Mul") and not byref:
                nm = tshort.lower()
                want = C(nm, A(1), A(2))
                if ret == want:
                    rule.ok(key, "delegates to &self %s &rhs" % nm, fn.loc)
                elif tshort == "Mul" and isinstance(ret, tuple) and ret[0] == "call" and ret[1] == "mul":
                    rule.ok(key, "delegates to the by-reference form", fn.loc)
                elif tshort in ("Add", "Sub") and head == MVSP:
                    continue
                else:
                    rule.bad(key, "by-value operator computes %s, expected %s" % (show(ret), show(want)), fn.loc)
            elif tshort in ("AddAssign", "SubAssign", "MulAssign"):
                nm = {"AddAssign": "add", "SubAssign": "sub", "MulAssign": "mul"}[tshort]
                vals = [v for _, d, v in stores(fn)]
                if len(ta) > 1 and ta[1].startswith("(F,"):
                    # scaled add: self = self + scaled(other)  (or self += &scaled): the second operand must derive from the scaled copy
                    ok = any(isinstance(v, tuple) and v[0] == "call" and v[1] == "add" and v[2][0] == A(1) for v in vals) or any(nme == "add_assign" and a_[0] == A(1) for nme, a_ in calls)
                    (rule.ok if ok else rule.bad)(key, "self = self + f*other" if ok else "scaled add does not reduce to self + scaled(other) (stores %s)" % [show(v)[:80] for v in vals], fn.loc)
                else:
                    want = C(nm, A(1), A(2))
                    ok = any(v == want for v in vals)
                    # a second store that copies data of rhs into self is a shortcut arm: harmless for `+=` into an empty self,
                    # but for `-=` the copy has to pass through a negation / subtraction
                    raw = [v for v in vals if v != want and tshort == "SubAssign" and _mentions(v, A(2)) and not _mentions_call(v, ("neg", "sub", "neg_in_place", "sub_assign"))]
                    if ok and raw:
                        rule.bad(key, "a shortcut arm of `-=` stores %s (data of rhs, not negated) into self; expected %s on every arm" % ([show(v)[:80] for v in raw], show(want)), fn.loc)
                        continue
                    (rule.ok if ok else rule.bad)(key, "*self = &*self %s rhs" % nm if ok else "compound assignment stores %s, expected %s" % ([show(v)[:80] for v in vals], show(want)), fn.loc)


# ---- R-GUARD ----------------------------------------------------------------------------------------------

def panic_guards(fn):
    """conditions whose failing arm leads straight to a panic: list of (cond term, must_be_true)"""
    out = []
    panics = {i for i, b in enumerate(fn.bbs) if b["t"]["k"] == "call" and ("panic" in (b["t"]["f"].get("name") or "") or "assert_failed" in (b["t"]["f"].get("name") or ""))}
    succ = fn.succ()

    def leads_to_panic(bb):
        seen, st = set(), [bb]
        while st:
            x = st.pop()
            if x in panics:
                return True
            if x in seen:
                continue
            seen.add(x)
            ss = succ[x]
            t = fn.bbs[x]["t"]
            if t["k"] == "switch" or t["k"] == "return":
                return False
            st.extend(ss[:1] if t["k"] == "call" else ss)
        return False
    for bi, b in enumerate(fn.bbs):
        t = b["t"]
        if t["k"] != "switch":
            continue
        c = E(fn, t["o"])
        neg = False
        while isinstance(c, tuple) and c[0] == "un" and c[1] == "Not":
            c, neg = c[2], not neg
        false_t, true_t = t["tgts"][0], t["else"]
        if leads_to_panic(false_t) and not leads_to_panic(true_t):
            out.append((c, not neg))
        elif leads_to_panic(true_t) and not leads_to_panic(false_t):
            out.append((c, neg))
    return out


def check_guard(res, facts):
    rule = res.rule("R-GUARD", "shape guards precede the work; dense and sparse relabel accept the same windows", 7)
    dense, sparse = mle_fns(facts, DENSE), mle_fns(facts, SPARSE)
    nv = A(1, "num_vars")
    plan = [
        ("Dense::fix_variables", pick(dense, "fix_variables"), [(("bin", "Le", C("len", A(2)), nv), True)]),
        ("Sparse::fix_variables", pick(sparse, "fix_variables"), [(("bin", "Le", C("len", A(2)), nv), True)]),
        ("Dense::evaluate", pick(dense, "evaluate"), [(("bin", "Eq", C("len", A(2)), nv), True)]),
        ("Sparse::evaluate", pick(sparse, "evaluate"), [(("bin", "Eq", C("len", A(2)), nv), True)]),
    ]
    for label, fn, wants in plan:
        key = "ark_poly|%s" % label
        if fn is None:
            rule.bad(key, "anchor missing")
            continue
        gs = panic_guards(fn)
        missing = [w for w in wants if w not in gs]
        (rule.bad if missing else rule.ok)(key, "guard missing: %s (guards found: %s)" % ([show(m[0]) for m in missing], [show(g[0]) for g in gs]) if missing else "asserts %s" % [show(w[0]) for w in wants], fn.loc)
    fn = pick(dense, "from_evaluations_vec")
    key = "ark_poly|Dense::from_evaluations_vec"
    if fn is None:
        rule.bad(key, "anchor missing")
    else:
        # assert_eq!(len, 1 << num_vars): comparison of the two sides feeds the panic arm
        conds = [g[0] for g in panic_guards(fn)]
        # the assertion may sit in a same-crate helper (`check_table_size(num_vars, len)`): its guards in the caller's terms
        for _, ct, callee in DF.local_callees(facts, fn):
            amap = {j + 1: E(fn, a) for j, a in enumerate(ct["args"])}
            conds += [DF.subst_args(g[0], amap) for g in panic_guards(callee)]
        want_sides = {C("len", A(2)), ("bin", "Shl", 1, A(1))}
        ok = any(isinstance(c, tuple) and c[0] in ("bin", "call") and (set(c[2:4]) == want_sides if c[0] == "bin" else set(c[2]) == want_sides) for c in conds)
        (rule.ok if ok else rule.bad)(key, "asserts len(evaluations) == 2^num_vars" if ok else "no guard len == 2^num_vars (found %s)" % [show(c) for c in conds], fn.loc)
    # relabel windows
    spec = {}
    for label, fns in (("Dense", dense), ("Sparse", sparse)):
        fn = pick(fns, "relabel_in_place") if label == "Dense" else pick(fns, "relabel")
        key = "ark_poly|%s::relabel|window" % label
        if fn is None:
            rule.bad(key, "anchor missing")
            continue
        gs = panic_guards(fn)
        # bounds on hi + k relative to num_vars, where hi is the larger window start (third/second argument after ordering)
        a_, b_, k_ = A(2), A(3), A(4)
        top = []
        other = []
        for c, pol in gs:
            parts = []
            if isinstance(c, tuple) and c[0] == "bin" and c[1] in ("Le", "Lt"):
                parts = [c]
            for p in parts:
                if p[3] == nv and p[2] in (("bin", "Add", b_, k_), ("bin", "Add", a_, k_)):
                    top.append((p[2][2], p[1], pol))
                else:
                    other.append(p)
        # conjunctions (a && b) appear as separate switches in MIR; collect all comparisons feeding panics
        strict = [t for t in top if t[1] == "Lt" and t[2]]
        loose = [t for t in top if t[1] == "Le" and t[2]]
        overlap = any(p == ("bin", "Le", ("bin", "Add", a_, k_), b_) for p in other)
        spec[label] = (bool(loose) and not strict, overlap)
        if strict:
            rule.bad(key, "rejects windows with %s + k == num_vars (asserts %s + k < num_vars): a window ending at the top variable is valid and accepted by the dense implementation, so the two forms disagree (panic) on the same table" % (show(strict[0][0]), show(strict[0][0])), fn.loc)
        elif not loose:
            rule.bad(key, "no bound b + k <= num_vars found (guards: %s)" % [show(g[0]) for g in gs], fn.loc)
        elif not overlap:
            rule.bad(key, "no non-overlap guard a + k <= b", fn.loc)
        else:
            rule.ok(key, "asserts b + k <= num_vars and a + k <= b", fn.loc)
    fn = pick(sparse, "from_evaluations")
    key = "ark_poly|Sparse::from_evaluations|index-range"
    if fn is None:
        rule.bad(key, "anchor missing")
    else:
        ok = False
        for t, clo in closures_of(facts, fn, "map"):
            for c, pol in panic_guards(clo):
                if isinstance(c, tuple) and c[0] == "bin" and c[1] == "Lt" and pol:
                    ok = True
        (rule.ok if ok else rule.bad)(key, "asserts index < 2^num_vars per entry" if ok else "entries are not range-checked", fn.loc)


# ---- R-LAZY -----------------------------------------------------------------------------------------------

LAZY = {"map", "inspect", "filter_map", "filter", "scan", "flat_map", "map_while", "take_while", "skip_while"}
PARTIAL = {"next", "next_back", "nth", "nth_back", "find", "find_map", "position", "any", "all", "peek"}


def closure_writes_outside(facts, fn, clo):
    """closure mutates captured state or writes through captured references / calls index_mut on captures"""
    ups = clo.d.get("upvars") or []
    if any(u.get("by") == "mut" for u in ups):
        return True
    return False


def check_lazy(res, facts):
    rule = res.rule("R-LAZY", "side-effecting closures in lazy iterator adaptors are driven by exhausting consumers only", 1)
    witness = False
    n_sites = 0
    for unit in ("ws", "shapes"):
        for fn in facts.fns(unit=unit):
            if unit == "ws" and fn.crate != "ark_poly":
                continue
            if "::tests::" in fn.id or "::test::" in fn.id:
                continue
            for bb, t in fn.calls():
                if t["f"].get("name") not in PARTIAL or not t["args"]:
                    continue
                # the receiver chain
                chain = DF.expr(fn, t["args"][0], depth=30)
                node = chain
                hops = 0
                while isinstance(node, tuple) and node[0] == "call" and hops < 12:
                    hops += 1
                    if node[1] in LAZY and len(node[2]) >= 2 and isinstance(node[2][1], tuple) and node[2][1][0] == "agg":
                        # find the closure of that adaptor call
                        for b2, t2 in fn.calls():
                            if t2["f"].get("name") == node[1]:
                                for cid in closure_args(fn, t2):
                                    clo = facts.get(cid, unit)
                                    if clo is not None and closure_writes_outside(facts, fn, clo):
                                        n_sites += 1
                                        if unit == "shapes":
                                            if fn.name == "lazy_writer":
                                                witness = True
                                            continue
                                        key = "%s|%s|%s.%s" % (fn.crate, fn.id[-90:], node[1], t["f"].get("name"))
                                        rule.bad(key, "`.%s(closure)` mutates captured state but is consumed by `.%s()`, which pulls a single element: the closure runs for one item only and the other updates are silently skipped" % (node[1], t["f"].get("name")), fn.loc)
                    node = node[2][0] if node[2] else None
    if witness:
        rule.ok("witness|lazy_writer", "positive example matched (the rule still sees a mutating map closure under next_back)")
    else:
        rule.bad("witness|lazy_writer", "the positive example in /verif/witness/shapes was not matched: rule has gone blind")


# ---- R-CANON ----------------------------------------------------------------------------------------------

def check_canon(res, facts):
    rule = res.rule("R-CANON", "multivariate SparsePolynomial / SparseTerm values are built only by their canonicalising constructors or the sorted merge with zero filter", 4)
    allowed_term = {"new"}
    for fn in facts.fns(unit="ws", crate="ark_poly"):
        if "::tests::" in fn.id or fn.kind == "Closure" and "::tests::" in (fn.d.get("parent") or ""):
            continue
        for bi, si, s in fn.stmts():
            r = s.get("r")
            if not (r and r["k"] == "agg"):
                continue
            if r.get("adt") == MVSP:
                key = "ark_poly|%s|SparsePolynomial" % fn.id[-90:]
                names = [t["f"].get("name") for _, t in fn.calls()]
                host = fn.name
                if host == "from_coefficients_vec":
                    # sort, merge (add_assign on equal terms), then remove_zeros after construction
                    after = [t["f"].get("name") for b2, t in fn.calls() if _reaches(fn, bi, b2)]
                    ok = "sort_by" in names and "remove_zeros" in after and "add_assign" in names
                    (rule.ok if ok else rule.bad)(key, "sort_by, merge equal terms, remove_zeros" if ok else "constructor lacks %s" % [n for n, c in (("sort_by", "sort_by" in names), ("merge of equal terms", "add_assign" in names), ("remove_zeros after construction", "remove_zeros" in after)) if not c], fn.loc)
                elif host == "add":
                    before = [t["f"].get("name") for b2, t in fn.calls() if _reaches(fn, b2, bi)]
                    ok = "retain" in before and "cmp" in names
                    (rule.ok if ok else rule.bad)(key, "sorted merge (cmp) then retain(non-zero)" if ok else "merge result is not filtered for zero coefficients / not merged by term order", fn.loc)
                elif host == "add_assign":
                    after = [t["f"].get("name") for b2, t in fn.calls() if _reaches(fn, bi, b2)]
                    ok = "add" in after
                    (rule.ok if ok else rule.bad)(key, "scaled copy is passed through Add (merge + zero filter)" if ok else "scaled copy escapes without the zero filter", fn.loc)
                elif host in ("default", "zero", "clone", "deserialize_with_mode"):
                    rule.ok(key, "empty / cloned / deserialised value", fn.loc)
                else:
                    rule.bad(key, "SparsePolynomial constructed outside the canonicalising constructors (in %s)" % host, fn.loc)
            if r.get("adt") == TERM:
                key = "ark_poly|%s|SparseTerm" % fn.id[-90:]
                if fn.name in allowed_term:
                    names = [t["f"].get("name") for _, t in fn.calls()]
                    ok = "retain" in names and "sort_by" in names and "combine" in names
                    (rule.ok if ok else rule.bad)(key, "retain(power != 0), sort_by variable, combine duplicates" if ok else "SparseTerm::new lacks one of retain / sort_by / combine (%s)" % names, fn.loc)
                elif fn.name in ("clone", "default", "deserialize_with_mode"):
                    rule.ok(key, "cloned / deserialised", fn.loc)
                else:
                    rule.bad(key, "SparseTerm constructed outside SparseTerm::new (in %s)" % fn.name, fn.loc)


# ---- R-CONCAT ----------------------------------------------------------------------------------------------

def check_concat(res, facts):
    """concat(polys) is the extension of the flat concatenation of the tables, zero-padded at the END to the next power
    of two: inside the loop the buffer only grows by extend_from_slice of each table in order; a single resize to
    next_power_of_two(sum of lengths) follows; num_vars = log2 of that size"""
    rule = res.rule("R-CONCAT", "dense concat: tables appended in order, one zero padding at the end to next_power_of_two(total), num_vars = log2(size)", 1)
    fs = [f for f in facts.fns(unit="ws", crate="ark_poly") if f.kind != "Closure" and f.name == "concat" and f.self_head == DENSE]
    key = "ark_poly|DenseMultilinearExtension::concat"
    if not fs:
        rule.bad(key, "anchor missing")
        return
    f = fs[0]
    loops = DF.sccs(f)
    inloop = set().union(*loops) if loops else set()
    problems = []
    muts_in = sorted({t["f"].get("name") for bb, t in f.calls() if bb in inloop and t["f"].get("name") in ("resize", "push", "extend", "extend_from_slice", "insert", "truncate", "resize_with", "append", "extend_from_within")})
    if muts_in != ["extend_from_slice"]:
        problems.append("inside the loop the buffer is modified by %s; only extend_from_slice of each table keeps the flat concatenation (padding between tables moves later tables to wrong indices)" % muts_in)
    resizes = [(bb, t) for bb, t in f.calls() if t["f"].get("name") == "resize"]
    if len(resizes) != 1 or resizes[0][0] in inloop:
        problems.append("expected exactly one zero padding after the loop")
    else:
        sz = E(f, resizes[0][1]["args"][1])
        pad = E(f, resizes[0][1]["args"][2])
        len_in_closure = any(t2["f"].get("name") == "len" for b2, t2 in f.calls() if False) or any(
            any(ct["f"].get("name") == "len" for _, ct in c_.calls())
            for _, t2 in f.calls() if t2["f"].get("name") == "map" for cid in closure_args(f, t2) for c_ in [facts.get(cid, f.unit)] if c_ is not None)
        if not (isinstance(sz, tuple) and sz[0] == "call" and sz[1] == "next_power_of_two" and "sum(map(" in show(sz) and len_in_closure) or pad != 0:
            problems.append("padding is resize(%s, %s), expected resize(next_power_of_two(sum of table lengths), 0)" % (show(sz)[:100], show(pad)))
        outs = [t for _, t in f.calls() if t["f"].get("name") in ("from_evaluations_slice", "from_evaluations_vec")]
        if len(outs) != 1 or E(f, outs[0]["args"][0]) != C("log2", sz):
            problems.append("num_vars is %s, expected log2 of the padded size" % [show(E(f, o["args"][0]))[:80] for o in outs])
    (rule.bad if problems else rule.ok)(key, "; ".join(problems) if problems else "extend_from_slice per table, resize(next_power_of_two(total), 0), num_vars = log2", f.loc)


def run(ctx, res):
    facts = ctx.facts(["ws", "shapes"])
    res.analysed = facts.stats()
    from rules import c17_mle
    dense_proved = c17_mle.check_mle(res, facts, ctx.tier)
    check_fold(res, facts, dense_proved)
    check_swapbits(res, facts, ctx.tier)
    check_kernel(res, facts)
    check_ops(res, facts)
    check_guard(res, facts)
    check_lazy(res, facts)
    check_canon(res, facts)
    check_concat(res, facts)
    return {
        "level": "other",
        "explanation": "Expression reconstruction over MIR compared as polynomials (folding kernels of dense/sparse fix_variables and the eq-table), a proof of swap_bits for all 64-bit inputs and admissible windows by abstract interpretation in the GF(2)-affine bit-vector domain, symbolic evaluation of element-wise operator closures, delegation shapes of the derived operators, shape guards (including dense/sparse agreement on relabel windows), an effect rule on lazy iterator adaptors, and constructor typestate of the multivariate sparse polynomial. That iterating the kernels over all rounds equals the hypercube sum for every table size, and hash-map based accumulation order, are NOT decided.",
        "assumptions": ["field arithmetic (C01/C02)", "std collections and iterator adaptors behave as documented"],
    }
