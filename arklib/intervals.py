"""Interval abstract interpretation of small, loop-free scalar MIR bodies.

Every integer local is abstracted to an interval [lo, hi] of mathematical integers; casts wrap an interval into the
target type when it fits one 2^bits window (else: the whole type); checked operators (`AddWithOverflow`, ...) yield the
wrapped value and a flag interval in {0}, {1}, {0,1}.  `assert` terminators whose condition may differ from the expected
value are reported with the message rustc attached (Overflow(Sub), DivisionByZero, ...): these are the panics of a
debug build.  No refinement on branches (sound, imprecise); joins are interval hulls.  A body with a back edge is
rejected (Unsupported) rather than widened.
"""
from .facts import place_parts, op_place, term_succs

BITS = {"u8": 8, "u16": 16, "u32": 32, "u64": 64, "u128": 128, "usize": 64,
        "i8": 8, "i16": 16, "i32": 32, "i64": 64, "i128": 128, "isize": 64, "bool": 1}


class Unsupported(Exception):
    pass


def ty_range(ty):
    if ty == "bool":
        return (0, 1)
    b = BITS.get(ty)
    if b is None:
        return None
    if ty[0] == "i":
        return (-(1 << (b - 1)), (1 << (b - 1)) - 1)
    return (0, (1 << b) - 1)


def wrap(iv, ty):
    """the set {x mod 2^bits (as a value of ty) : x in iv} as an interval (exact if iv fits one window)"""
    r = ty_range(ty)
    if r is None or iv is None:
        return r
    lo, hi = iv
    dlo, dhi = r
    size = dhi - dlo + 1
    klo, khi = (lo - dlo) // size, (hi - dlo) // size
    if klo == khi:
        return (lo - klo * size, hi - klo * size)
    return r


def overflow_flag(iv, ty):
    r = ty_range(ty)
    lo, hi = iv
    if r[0] <= lo and hi <= r[1]:
        return (0, 0)
    if hi < r[0] or lo > r[1]:
        return (1, 1)
    return (0, 1)


def hull(a, b):
    if a is None:
        return b
    if b is None:
        return a
    return (min(a[0], b[0]), max(a[1], b[1]))


def _arith(op, a, b):
    if op == "Add":
        return (a[0] + b[0], a[1] + b[1])
    if op == "Sub":
        return (a[0] - b[1], a[1] - b[0])
    if op == "Mul":
        c = [a[0] * b[0], a[0] * b[1], a[1] * b[0], a[1] * b[1]]
        return (min(c), max(c))
    if op == "Div":
        if b[0] <= 0 <= b[1]:
            b = (max(b[0], 1), b[1]) if b[1] >= 1 else None
            if b is None:
                return None
        c = [int(a[0] / b[0]) if False else _tdiv(a[0], b[0]), _tdiv(a[0], b[1]), _tdiv(a[1], b[0]), _tdiv(a[1], b[1])]
        return (min(c), max(c))
    if op == "Rem":
        if a[0] >= 0 and b[0] > 0:
            if a[1] < b[0]:
                return a
            return (0, min(a[1], b[1] - 1))
        m = max(abs(b[0]), abs(b[1])) - 1
        return (-m if a[0] < 0 else 0, m if a[1] > 0 else 0)
    if op == "Shl":
        if b[0] < 0:
            return None
        c = [a[0] << b[0], a[0] << b[1], a[1] << b[0], a[1] << b[1]]
        return (min(c), max(c))
    if op == "Shr":
        if b[0] < 0:
            return None
        c = [a[0] >> b[0], a[0] >> b[1], a[1] >> b[0], a[1] >> b[1]]
        return (min(c), max(c))
    if op == "BitAnd":
        if a[0] >= 0 and b[0] >= 0:
            return (0, min(a[1], b[1]))
        return None
    if op in ("BitOr", "BitXor"):
        if a[0] >= 0 and b[0] >= 0:
            return (0, (1 << max(a[1].bit_length(), b[1].bit_length())) - 1)
        return None
    return None


def _tdiv(x, y):
    q = abs(x) // abs(y)
    return q if (x >= 0) == (y >= 0) else -q


def _cmp(op, a, b):
    if op == "Eq":
        if a[0] == a[1] == b[0] == b[1]:
            return (1, 1)
        if a[1] < b[0] or b[1] < a[0]:
            return (0, 0)
        return (0, 1)
    if op == "Ne":
        r = _cmp("Eq", a, b)
        return (1 - r[1], 1 - r[0])
    if op == "Lt":
        return (1, 1) if a[1] < b[0] else (0, 0) if a[0] >= b[1] else (0, 1)
    if op == "Le":
        return (1, 1) if a[1] <= b[0] else (0, 0) if a[0] > b[1] else (0, 1)
    if op == "Gt":
        return _cmp("Lt", b, a)
    if op == "Ge":
        return _cmp("Le", b, a)
    return None


def analyse(fn, args):
    """args: {param local: (lo, hi)}.  Returns (panics, ret): panics = [(msg, line, 'always'|'maybe')], ret = interval of
    the return value (None if not an integer)."""
    n = len(fn.bbs)
    succs = [[s for s in term_succs(b["t"]) if s is not None and s != b["t"].get("u")] for b in fn.bbs]
    # topological order; reject cycles
    indeg = [0] * n
    reach = set()
    stack = [0]
    while stack:
        x = stack.pop()
        if x in reach:
            continue
        reach.add(x)
        stack.extend(succs[x])
    for x in reach:
        for s in succs[x]:
            indeg[s] += 1
    order, ready = [], [0]
    while ready:
        x = ready.pop()
        order.append(x)
        for s in succs[x]:
            indeg[s] -= 1
            if indeg[s] == 0:
                ready.append(s)
    if len(order) != len(reach):
        raise Unsupported("loop in %s" % fn.id)
    states = {0: dict(args)}
    panics = []
    ret = None

    def get(env, o):
        if "k" in o:
            v = o["k"].get("v")
            if isinstance(v, bool):
                v = int(v)
            return (v, v) if isinstance(v, int) else None
        l, projs = place_parts(op_place(o))
        if not projs:
            return env.get(l)
        if len(projs) == 1 and isinstance(projs[0], (list, tuple)) and projs[0][0] == "f":
            return env.get((l, projs[0][1]))
        return None

    def oty(o):
        if "k" in o:
            return o["k"].get("ty")
        l, projs = place_parts(op_place(o))
        return fn.local_ty(l) if not projs else None

    for bb in order:
        env = states.get(bb)
        if env is None:
            continue
        env = dict(env)
        b = fn.bbs[bb]
        for s in b["s"]:
            if "d" not in s:
                continue
            dl, dprojs = place_parts(s["d"])
            if dprojs:
                continue
            for kk in [kk for kk in env if isinstance(kk, tuple) and kk[0] == dl]:
                del env[kk]
            # facts about other locals that mention dl die with this assignment
            for kk in [kk for kk in env if isinstance(kk, tuple) and kk[0] in ("alias", "cmp") and (kk[1] == dl or dl in env[kk][-1])]:
                del env[kk]
            r = s["r"]
            k = r["k"]
            dty = fn.local_ty(dl)
            val = None
            if k == "use":
                val = get(env, r["o"])
                sl = op_place(r["o"])
                if sl is not None and not place_parts(sl)[1]:
                    src = place_parts(sl)[0]
                    for kk in [kk for kk in env if isinstance(kk, tuple) and kk[0] == src]:
                        env[(dl, kk[1])] = env[kk]
                    root = env.get(("alias", src), (src, (src,)))[0]
                    env[("alias", dl)] = (root, (root, src))
            elif k == "cast":
                v = get(env, r["o"])
                val = wrap(v, r["ty"]) if v is not None else ty_range(r["ty"])
            elif k == "bin":
                op = r["op"]
                a, c = get(env, r["a"]), get(env, r["b"])
                aty = oty(r["a"])
                if a is None:
                    a = ty_range(aty) if aty else None
                if c is None:
                    c = ty_range(oty(r["b"])) if oty(r["b"]) else None
                if a is not None and c is not None:
                    if op in ("Eq", "Ne", "Lt", "Le", "Gt", "Ge"):
                        val = _cmp(op, a, c)
                        la = place_parts(op_place(r["a"]))[0] if "k" not in r["a"] and not place_parts(op_place(r["a"]))[1] else None
                        lb = place_parts(op_place(r["b"]))[0] if "k" not in r["b"] and not place_parts(op_place(r["b"]))[1] else None
                        env[("cmp", dl)] = (op, la, lb, a, c, tuple(x for x in (la, lb) if x is not None))
                    elif op.endswith("WithOverflow"):
                        raw = _arith(op[:-12], a, c)
                        if raw is not None and aty in BITS:
                            env[(dl, 0)] = wrap(raw, aty)
                            env[(dl, 1)] = overflow_flag(raw, aty)
                        val = None
                    else:
                        base = op.replace("Unchecked", "")
                        raw = _arith(base, a, c)
                        val = wrap(raw, aty) if raw is not None and aty in BITS else (ty_range(aty) if aty in BITS else None)
            elif k == "un" and r.get("op") == "Not":
                v = get(env, r["o"])
                if v is not None and dty == "bool":
                    val = (1 - v[1], 1 - v[0])
            elif k == "un" and r.get("op") == "Neg":
                v = get(env, r["o"])
                if v is not None:
                    val = wrap((-v[1], -v[0]), dty)
            if val is None and dty in BITS and k != "bin":
                val = ty_range(dty)
            if val is None and k == "bin" and not r["op"].endswith("WithOverflow") and dty in BITS:
                val = ty_range(dty)
            if val is None:
                env.pop(dl, None)
            else:
                env[dl] = val
        t = b["t"]
        tk = t["k"]
        outs = []
        if tk == "return":
            ret = hull(ret, env.get(0))
        elif tk == "goto":
            outs = [t["t"]]
        elif tk == "assert":
            c = get(env, t["c"]) or (0, 1)
            exp = 1 if t.get("exp") else 0
            if c != (exp, exp):
                panics.append((t.get("msg"), t.get("ln"), "always" if c[0] == c[1] else "maybe"))
            if c[0] <= exp <= c[1]:
                outs = [t["t"]]
        elif tk == "switch":
            c = get(env, t["o"])
            if c is not None and c[0] == c[1]:
                outs = [t["tgts"][t["vals"].index(c[0])] if c[0] in t["vals"] else t["else"]]
            else:
                outs = list(dict.fromkeys(t["tgts"] + [t["else"]]))
                cl = place_parts(op_place(t["o"]))[0] if "k" not in t["o"] else None
                cd = env.get(("cmp", cl)) if cl is not None else None
                if cd is None and cl is not None and ("alias", cl) in env:
                    cd = env.get(("cmp", env[("alias", cl)][0]))
                if cd is not None and fn.local_ty(cl) == "bool" and t["vals"] == [0] and len(outs) == 2:
                    # refine the compared locals (and every copy of them) on each edge
                    for tgt, truth in ((t["else"], True), (t["tgts"][0], False)):
                        e2 = _refine(dict(env), cd, truth)
                        if e2 is not None:
                            _merge(states, tgt, e2)
                    continue
        elif tk == "call":
            raise Unsupported("call to %s in %s" % (t["f"].get("name"), fn.id))
        else:
            outs = [s for s in succs[bb]]
        for o in outs:
            if o is None:
                continue
            _merge(states, o, env)
    return panics, ret


def _merge(states, o, env):
    if o in states:
        old = states[o]
        out = {}
        for kk in old:
            if kk not in env:
                continue
            if isinstance(kk, tuple) and kk[0] in ("alias", "cmp"):
                if old[kk] == env[kk]:
                    out[kk] = old[kk]
            else:
                out[kk] = hull(old[kk], env[kk])
        states[o] = out
    else:
        states[o] = dict(env)


_NEG = {"Lt": "Ge", "Ge": "Lt", "Le": "Gt", "Gt": "Le", "Eq": "Ne", "Ne": "Eq"}


def _refine(env, cd, truth):
    """env restricted by `a OP b` being `truth`; None if that is impossible"""
    op, la, lb, a, b, _ = cd
    if la is not None:
        a = env.get(la, a)
    if lb is not None:
        b = env.get(lb, b)
    if not truth:
        op = _NEG[op]
    if op == "Lt":
        na, nb = (a[0], min(a[1], b[1] - 1)), (max(b[0], a[0] + 1), b[1])
    elif op == "Le":
        na, nb = (a[0], min(a[1], b[1])), (max(b[0], a[0]), b[1])
    elif op == "Gt":
        na, nb = (max(a[0], b[0] + 1), a[1]), (b[0], min(b[1], a[1] - 1))
    elif op == "Ge":
        na, nb = (max(a[0], b[0]), a[1]), (b[0], min(b[1], a[1]))
    elif op == "Eq":
        na = nb = (max(a[0], b[0]), min(a[1], b[1]))
    else:
        na, nb = a, b
    if na[0] > na[1] or nb[0] > nb[1]:
        return None
    for l, iv in ((la, na), (lb, nb)):
        if l is None:
            continue
        root = env.get(("alias", l), (l, ()))[0]
        for kk in list(env):
            if kk == l or kk == root or (isinstance(kk, tuple) and kk[0] == "alias" and env[kk][0] == root and False):
                pass
        group = {l, root} | {kk[1] for kk in env if isinstance(kk, tuple) and kk[0] == "alias" and env[kk][0] == root}
        for g in group:
            cur = env.get(g)
            if cur is None:
                env[g] = iv
            else:
                lo, hi = max(cur[0], iv[0]), min(cur[1], iv[1])
                if lo > hi:
                    return None
                env[g] = (lo, hi)
    return env
