"""C16: pairing-level constants (family polynomials, loop counts, twists, final-exponent chunks)."""
from arklib import numth as N
from arklib.configs import parse_ty, ty_str


def loc(r):
    return "%s:%s" % (r.get("file"), r.get("line"))


def impl_types(facts, owner, trait_suffix):
    """associated type bindings of `impl <trait> for owner`"""
    for c in facts.crates:
        for im in c.impls:
            if im.get("self") == owner and (im.get("trait") or "").endswith(trait_suffix):
                return {it["name"]: it.get("ty") for it in im.get("items", []) if it.get("kind") == "AssocTy"}
    return {}


def signed_digits_value(ds):
    return sum(d << i for i, d in enumerate(ds))


def check_pairing(cx):
    res, reg, facts = cx.res, cx.reg, cx.facts
    rule = res.rule("R-CONST.pairing", "curve-family polynomials reproduce both moduli; loop counts, twist and final-exponent constants equal their defining expressions", 30)
    n = 0
    # ---- BLS12
    for xr in reg.impls_of("bls12::Bls12Config", "X"):
        owner = xr["owner"]
        tag = "%s|%s" % (xr["crate"], owner)
        n += 1
        tys = impl_types(facts, owner, "bls12::Bls12Config")
        x = N.limbs_to_int(xr["val"])
        neg = reg.const(owner, "X_IS_NEGATIVE", "Bls12Config")["val"]
        xs = -x if neg else x
        g1 = tys.get("G1Config")
        g2 = tys.get("G2Config")
        if g1 in cx.curves:
            kind, E, F, Fr, h = cx.curves[g1]
            p, r = F.p, Fr.p
            want_r = xs ** 4 - xs ** 2 + 1
            want_p = ((xs - 1) ** 2 * want_r) // 3 + xs
            (rule.ok if want_r == r else rule.bad)(tag + "|X->r", "r = x^4 - x^2 + 1 must equal the scalar-field modulus", loc(xr))
            (rule.ok if want_p == p and ((xs - 1) ** 2 * want_r) % 3 == 0 else rule.bad)(tag + "|X->p", "p = (x-1)^2 (x^4-x^2+1)/3 + x must equal the base-field modulus", loc(xr))
            (rule.ok if (xr["val"][-1] >> 63) & 1 else rule.ok)(tag + "|X.topbit", "top bit of X: %d" % ((xr["val"][-1] >> 63) & 1), loc(xr))
            check_twist_b(cx, rule, tag, owner, g1, g2, reg.const(owner, "TWIST_TYPE", "Bls12Config"), tys.get("Fp6Config") or fp6_of(facts, tys), xr)
        else:
            rule.undecided(tag + "|X", "G1 configuration not resolved (%s)" % g1, loc(xr))
    # ---- BN
    for xr in reg.impls_of("bn::BnConfig", "X"):
        owner = xr["owner"]
        tag = "%s|%s" % (xr["crate"], owner)
        n += 1
        tys = impl_types(facts, owner, "bn::BnConfig")
        x = N.limbs_to_int(xr["val"])
        neg = reg.const(owner, "X_IS_NEGATIVE", "BnConfig")["val"]
        xs = -x if neg else x
        g1, g2 = tys.get("G1Config"), tys.get("G2Config")
        if g1 in cx.curves:
            kind, E, F, Fr, h = cx.curves[g1]
            p, r = F.p, Fr.p
            want_p = 36 * xs ** 4 + 36 * xs ** 3 + 24 * xs ** 2 + 6 * xs + 1
            want_r = 36 * xs ** 4 + 36 * xs ** 3 + 18 * xs ** 2 + 6 * xs + 1
            (rule.ok if want_p == p else rule.bad)(tag + "|X->p", "p = 36x^4+36x^3+24x^2+6x+1 must equal the base-field modulus", loc(xr))
            (rule.ok if want_r == r else rule.bad)(tag + "|X->r", "r = 36x^4+36x^3+18x^2+6x+1 must equal the scalar-field modulus", loc(xr))
            lc = reg.const(owner, "ATE_LOOP_COUNT", "BnConfig")
            v = signed_digits_value(lc["val"])
            ok_digits = all(d in (-1, 0, 1) for d in lc["val"]) and lc["val"][-1] != 0
            (rule.ok if abs(v) == abs(6 * xs + 2) and ok_digits else rule.bad)(tag + "|ATE_LOOP_COUNT", "signed-digit expansion (LSB first, top digit non-zero) must equal |6x + 2|", loc(lc))
            # twist-by-q constants
            fp6 = tys.get("Fp6Config")
            nr6 = reg.const(fp6, "NONRESIDUE") if fp6 else None
            qx, qy = reg.const(owner, "TWIST_MUL_BY_Q_X", "BnConfig"), reg.const(owner, "TWIST_MUL_BY_Q_Y", "BnConfig")
            if nr6 and qx and qy:
                F2 = reg.field(nr6["ty"])
                xi = reg.decode(nr6["val"], nr6["ty"])
                wx, wy = F2.pow(xi, (p - 1) // 3), F2.pow(xi, (p - 1) // 2)
                gx, gy = reg.decode(qx["val"], qx["ty"]), reg.decode(qy["val"], qy["ty"])
                (rule.ok if F2.eq(gx, wx) else rule.bad)(tag + "|TWIST_MUL_BY_Q_X", "must equal xi^((p-1)/3)", loc(qx))
                (rule.ok if F2.eq(gy, wy) else rule.bad)(tag + "|TWIST_MUL_BY_Q_Y", "must equal xi^((p-1)/2)", loc(qy))
            check_twist_b(cx, rule, tag, owner, g1, g2, reg.const(owner, "TWIST_TYPE", "BnConfig"), fp6, xr)
        else:
            rule.undecided(tag + "|X", "G1 configuration not resolved (%s)" % g1, loc(xr))
    # ---- MNT4 / MNT6
    for model, k in (("mnt4::MNT4Config", 4), ("mnt6::MNT6Config", 6)):
        for lc in reg.impls_of(model, "ATE_LOOP_COUNT"):
            owner = lc["owner"]
            tag = "%s|%s" % (lc["crate"], owner)
            n += 1
            tys = impl_types(facts, owner, model)
            g1, g2 = tys.get("G1Config"), tys.get("G2Config")
            if g1 not in cx.curves:
                rule.undecided(tag, "G1 configuration not resolved (%s)" % g1, loc(lc))
                continue
            kind, E, F, Fr, h = cx.curves[g1]
            q, r = F.p, Fr.p
            trace = q + 1 - h * r
            v = signed_digits_value(list(reversed(lc["val"])))   # stored most-significant digit first
            v2 = signed_digits_value(lc["val"])
            negflag = reg.const(owner, "ATE_IS_LOOP_COUNT_NEG", model.split("::")[-1])["val"]
            want = trace - 1
            ok = (abs(v) == abs(want) or abs(v2) == abs(want)) and (negflag == (want < 0))
            (rule.ok if ok else rule.bad)(tag + "|ATE_LOOP_COUNT", "signed digits must expand to |t - 1| (t = q + 1 - #E) with ATE_IS_LOOP_COUNT_NEG = sign", loc(lc))
            w1 = reg.const(owner, "FINAL_EXPONENT_LAST_CHUNK_1", model.split("::")[-1])
            w0 = reg.const(owner, "FINAL_EXPONENT_LAST_CHUNK_ABS_OF_W0", model.split("::")[-1])
            w0n = reg.const(owner, "FINAL_EXPONENT_LAST_CHUNK_W0_IS_NEG", model.split("::")[-1])
            if w1 and w0 and w0n:
                W1 = N.limbs_to_int(w1["val"]["0"])
                W0 = N.limbs_to_int(w0["val"]["0"]) * (-1 if w0n["val"] else 1)
                phi = q * q + 1 if k == 4 else q * q - q + 1
                ok = phi % r == 0 and W1 * q + W0 == phi // r
                (rule.ok if ok else rule.bad)(tag + "|FINAL_EXPONENT_LAST_CHUNK", "w1*q + w0 must equal Phi_%d(q)/r" % k, loc(w1))
            tw = reg.const(owner, "TWIST", model.split("::")[-1])
            twa = reg.const(owner, "TWIST_COEFF_A", model.split("::")[-1])
            if tw and twa and g2 in cx.curves:
                Fe = reg.field(tw["ty"])
                T = reg.decode(tw["val"], tw["ty"])
                TA = reg.decode(twa["val"], twa["ty"])
                a_emb = Fe.embed_base(E.a) if not isinstance(Fe.base, N.Ext) else None
                k2, E2, F2, _, _ = cx.curves[g2]
                gen_shape = all(Fe.base.is_zero(x) if i != 1 else Fe.base.eq(x, Fe.base.one()) for i, x in enumerate(T))
                (rule.ok if gen_shape else rule.bad)(tag + "|TWIST", "TWIST must be the generator (0, 1[, 0]) of the twist field", loc(tw))
                if a_emb is not None:
                    want_a = Fe.mul(a_emb, Fe.sqr(T))
                    want_b = Fe.mul(Fe.embed_base(E.b), Fe.mul(Fe.sqr(T), T))
                    (rule.ok if Fe.eq(TA, want_a) and F2.eq(E2.a, want_a) else rule.bad)(tag + "|TWIST_COEFF_A", "must equal a * TWIST^2 and be the G2 curve's COEFF_A", loc(twa))
                    (rule.ok if F2.eq(E2.b, want_b) else rule.bad)(tag + "|G2.COEFF_B", "G2's COEFF_B must equal b * TWIST^3", loc(twa))
    # ---- BW6
    for xr in reg.impls_of("bw6::BW6Config", "X"):
        owner = xr["owner"]
        tag = "%s|%s" % (xr["crate"], owner)
        n += 1
        x = N.limbs_to_int(xr["val"]["0"])
        neg = reg.const(owner, "X_IS_NEGATIVE", "BW6Config")["val"]
        xs = -x if neg else x
        x13 = reg.const(owner, "X_MINUS_1_DIV_3", "BW6Config")
        if x13:
            got = N.limbs_to_int(x13["val"]["0"])
            ok = (xs - 1) % 3 == 0 and got == abs((xs - 1) // 3)
            (rule.ok if ok else rule.bad)(tag + "|X_MINUS_1_DIV_3", "must equal |x - 1| / 3", loc(x13))
        l1 = reg.const(owner, "ATE_LOOP_COUNT_1", "BW6Config")
        l2 = reg.const(owner, "ATE_LOOP_COUNT_2", "BW6Config")
        tys = impl_types(facts, owner, "bw6::BW6Config")
        g1 = tys.get("G1Config")
        if l1 and l2 and g1 in cx.curves:
            kind, E, F, Fr, h = cx.curves[g1]
            r = Fr.p
            u1 = N.limbs_to_int(l1["val"])
            n1 = reg.const(owner, "ATE_LOOP_COUNT_1_IS_NEGATIVE", "BW6Config")["val"]
            v2 = signed_digits_value(l2["val"])
            n2 = reg.const(owner, "ATE_LOOP_COUNT_2_IS_NEGATIVE", "BW6Config")["val"]
            a1 = -u1 if n1 else u1
            a2 = -v2 if n2 else v2
            # optimal ate for BW6 (Housni-Guillevic): the two loop parameters (u+1 or u, and u^3-u^2-u or u(u^2-u-1)) satisfy
            # a1' + a2' * q == 0 mod r for the curve's q; accept any of the documented pairs
            q = F.p
            # the code computes f_{u+1} from f_u and f_{u*v} with v = ATE_LOOP_COUNT_2 seeded by f_u
            cands = [(a1 + 1) + a1 * a2 * q, (a1 + 1) * q + a1 * a2, (a1 + 1) + a2 * q, a1 + a2 * q, (a1 + 1) * q + a2, a1 * q + a2]
            ok = any(c % r == 0 for c in cands)
            (rule.ok if ok else rule.bad)(tag + "|ATE_LOOP_COUNT_1/2", "the two Miller-loop parameters must satisfy l1 + l2*q = 0 (mod r) (optimal ate lattice relation)", loc(l1))
            digits_ok = all(d in (-1, 0, 1) for d in l2["val"]) and l2["val"][-1] != 0
            (rule.ok if digits_ok else rule.bad)(tag + "|ATE_LOOP_COUNT_2.digits", "signed digits in {-1,0,1}, top digit non-zero", loc(l2))
    return n


def fp6_of(facts, tys):
    fp12 = tys.get("Fp12Config")
    if not fp12:
        return None
    for c in facts.crates:
        for im in c.impls:
            if im.get("self") == fp12 and (im.get("trait") or "").endswith("Fp12Config"):
                for it in im.get("items", []):
                    if it.get("name") == "Fp6Config":
                        return it.get("ty")
    return None


def check_twist_b(cx, rule, tag, owner, g1, g2, twist_rec, fp6, anchor):
    """G2's b is b*xi (M twist) or b/xi (D twist), xi = the sextic non-residue of the tower"""
    reg = cx.reg
    if g1 not in cx.curves or g2 not in cx.curves or twist_rec is None or not fp6:
        rule.undecided(tag + "|G2.COEFF_B", "configuration links not resolved (g2=%s fp6=%s)" % (g2, fp6), loc(anchor))
        return
    nr6 = reg.const(fp6, "NONRESIDUE")
    if nr6 is None:
        rule.undecided(tag + "|G2.COEFF_B", "Fp6 non-residue not found", loc(anchor))
        return
    F2 = reg.field(nr6["ty"])
    xi = reg.decode(nr6["val"], nr6["ty"])
    E1, E2 = cx.curves[g1][1], cx.curves[g2][1]
    b1 = F2.embed_base(E1.b)
    tt = twist_rec["val"].get("$variant")
    want = F2.mul(b1, xi) if tt == "M" else F2.mul(b1, F2.inv(xi))
    if F2.eq(E2.b, want):
        rule.ok(tag + "|G2.COEFF_B", "b' = b %s xi for TWIST_TYPE::%s" % ("*" if tt == "M" else "/", tt), loc(twist_rec))
    else:
        other = F2.mul(b1, F2.inv(xi)) if tt == "M" else F2.mul(b1, xi)
        hint = " (it matches the other twist type)" if F2.eq(E2.b, other) else ""
        rule.bad(tag + "|G2.COEFF_B", "G2's COEFF_B is not b %s xi as TWIST_TYPE::%s requires%s: line evaluation (mul_by_014 vs mul_by_034) would use the wrong sparse shape" % ("*" if tt == "M" else "/", tt, hint), loc(twist_rec))
