"""Shared serialization rules: mode-flag propagation (R-FLOW) used by C10 and C18."""
from arklib import dataflow as DF, pathsim as PS
from arklib.facts import op_local, op_place, place_parts

COMPRESS = "ark_serialize::Compress"
VALIDATE = "ark_serialize::Validate"

# mode-pinning wrappers: ignore the outer flags by contract
PINNED = {
    "CompressedChecked": ("Yes", "Yes"),
    "CompressedUnchecked": ("Yes", "No"),
    "UncompressedChecked": ("No", "Yes"),
    "UncompressedUnchecked": ("No", "No"),
}


def mode_params(fn):
    """(compress local, validate local) among the parameters, or None"""
    c = v = None
    for a in range(1, fn.d["argc"] + 1):
        t = fn.local_ty(a)
        if t == COMPRESS:
            c = a
        elif t == VALIDATE:
            v = a
    return c, v


def origin(facts, fn, operand, depth=10):
    """where a mode operand comes from: ('param', n) | ('variant', 'Yes'/'No') | ('unknown',)"""
    defs = fn.defs()
    o = operand
    for _ in range(depth):
        if "k" in o:
            k = o["k"]
            if "variant" in k:
                return ("variant", k["variant"])
            for d in k.get("pdefs", []):
                if d.startswith("variant:"):
                    return ("variant", d.split("::")[-1].split("#")[0])
            return ("unknown",)
        p = op_place(o)
        l, projs = place_parts(p)
        # closure upvar: (*_1).i  /  _1.i  (possibly one more deref for by-ref captures)
        if fn.kind == "Closure" and l == 1 and projs:
            idx = next((pr[1] for pr in projs if isinstance(pr, list) and pr[0] == "f"), None)
            if idx is not None:
                parent = facts.get(fn.d.get("parent"), fn.unit) if fn.d.get("parent") else None
                # the creating function may itself be a closure's parent chain; search all fns of the crate
                for cand in facts.fns(unit=fn.unit, crate=fn.crate):
                    for bi, si, s in cand.stmts():
                        r = s.get("r")
                        if r and r.get("k") == "agg" and r.get("closure") == fn.id and idx < len(r["ops"]):
                            return origin(facts, cand, r["ops"][idx], depth - 1)
                return ("unknown",)
        if projs and projs != ["*"]:
            return ("unknown",)
        if 1 <= l <= fn.d["argc"] and (not projs) and not [d for d in defs.get(l, [])]:
            return ("param", l)
        ds = defs.get(l, [])
        if not ds and 1 <= l <= fn.d["argc"]:
            return ("param", l)
        if len(ds) != 1 or ds[0][2] != "assign":
            return ("unknown",)
        r = ds[0][3]["r"]
        if r["k"] in ("use", "cast"):
            o = r["o"]
        elif r["k"] == "agg" and r.get("ak") == "adt" and not r.get("ops") and r.get("variant"):
            return ("variant", r["variant"])
        elif r["k"] == "ref":
            pl, pp = place_parts(r["p"])
            if pp and pp != ["*"]:
                # &(*_1).i inside closures
                o = {"c": r["p"]}
                if fn.kind == "Closure" and pl == 1:
                    continue
                return ("unknown",)
            o = {"c": pl}
        else:
            return ("unknown",)
    return ("unknown",)


def inner_mode_calls(fn):
    """calls whose callee takes Compress/Validate arguments: [(bb, term, compress_operand, validate_operand)]"""
    out = []
    for bb, t in fn.calls():
        c = v = None
        for a in t["args"]:
            l = op_local(a)
            ty = None
            if l is not None and not place_parts(op_place(a))[1]:
                ty = fn.local_ty(l)
            elif "k" in a:
                ty = a["k"].get("ty")
            if ty == COMPRESS:
                c = a
            elif ty == VALIDATE:
                v = a
        if c is not None or v is not None:
            out.append((bb, t, c, v))
    return out


def pinned_wrapper(fn):
    im = fn.impl
    if not im:
        return None
    s = im.get("self", "")
    for w, modes in PINNED.items():
        if ("::%s<" % w) in s:
            return w, modes
    return None


def check_flow(rule_c, rule_v, facts, units, name_filter=("deserialize_with_mode",), crates=None):
    """every inner call receives the function's own compress flag; validate is passed through, or
    pinned to No with a check/batch_check on the Yes arm afterwards"""
    n = 0
    for fn in facts.fns():
        if fn.unit not in units or (crates and fn.crate not in crates):
            continue
        base = fn
        if fn.kind == "Closure":
            root = fn.d.get("parent", "")
            if not any(root.endswith("::" + nm) or ("::" + nm + "::") in root for nm in name_filter):
                continue
        elif fn.name not in name_filter:
            continue
        if "::tests::" in fn.id or "::test::" in fn.id:
            continue
        calls = inner_mode_calls(fn)
        if not calls:
            continue
        pw = pinned_wrapper(fn) if fn.kind != "Closure" else None
        cpar, vpar = mode_params(fn)
        for bb, t, c, v in calls:
            cal = t["f"].get("name")
            key = "%s|%s|%s" % (fn.crate, fn.id[-150:], cal)
            n += 1
            if c is not None:
                oc = origin(facts, fn, c)
                if pw:
                    if oc == ("variant", pw[1][0]):
                        rule_c.ok(key + "|pinned", "mode-pinning wrapper passes Compress::%s" % pw[1][0], fn.loc)
                    else:
                        rule_c.bad(key + "|pinned", "mode-pinning wrapper %s passes %s instead of Compress::%s" % (pw[0], oc, pw[1][0]), fn.loc)
                elif oc[0] == "param":
                    rule_c.ok(key, "compress passed through", fn.loc)
                elif oc[0] == "variant":
                    rule_c.bad(key, "inner %s call is given the constant Compress::%s instead of the caller's compress flag: writer/reader/size disagree in the other mode" % (cal, oc[1]), "%s (line %s)" % (fn.loc, t.get("ln")))
                else:
                    rule_c.undecided(key, "origin of compress argument not understood", fn.loc)
            if v is not None:
                ov = origin(facts, fn, v)
                if pw:
                    if ov == ("variant", pw[1][1]):
                        rule_v.ok(key + "|pinned", "mode-pinning wrapper passes Validate::%s" % pw[1][1], fn.loc)
                    else:
                        rule_v.bad(key + "|pinned", "mode-pinning wrapper %s passes %s instead of Validate::%s" % (pw[0], ov, pw[1][1]), fn.loc)
                elif ov[0] == "param":
                    rule_v.ok(key, "validate passed through", fn.loc)
                elif ov == ("variant", "Yes"):
                    rule_v.ok(key, "validation forced on", fn.loc)
                elif ov == ("variant", "No"):
                    # must be compensated: on the Validate::Yes arm a check / batch_check follows
                    owner = fn if fn.kind != "Closure" else facts.get(fn.d.get("parent"), fn.unit)
                    if owner is None or not compensated(owner):
                        rule_v.bad(key, "inner %s call is pinned to Validate::No and no check/batch_check on the Validate::Yes arm follows: validation is silently dropped" % cal, "%s (line %s)" % (fn.loc, t.get("ln")))
                    else:
                        rule_v.ok(key, "Validate::No compensated by check/batch_check on the Yes arm", fn.loc)
                else:
                    rule_v.undecided(key, "origin of validate argument not understood", fn.loc)
    return n


def compensated(fn):
    """under validate == Yes, every normal-return path passes a call named check / batch_check whose
    block is entered through a comparison of the validate parameter"""
    cpar, vpar = mode_params(fn)
    if vpar is None:
        return False
    checks = {bb for bb, t in fn.calls() if t["f"].get("name") in ("check", "batch_check") and t["f"].get("trait", "").endswith("Valid")}
    if not checks:
        return False

    def oracle(st, bb, t):
        f = t["f"]
        if f.get("trait") == "core::cmp::PartialEq" and f.get("name") in ("eq", "ne") and f.get("self") == VALIDATE:
            # explored world: the validate parameter is Yes; the other side is whatever constant is written
            sides = [origin(None, fn, a) for a in t["args"]]
            consts = [x[1] for x in sides if x[0] == "variant"]
            if len(consts) != 1:
                return PS.UNKNOWN
            r = consts[0] == "Yes"
            return r if f.get("name") == "eq" else (not r)
        if f.get("name") == "branch" and f.get("trait", "").endswith("Try"):
            return 0      # the `?` continues
        return PS.UNKNOWN
    ends = PS.explore(fn, oracle, init={vpar: 0}, max_states=3000)
    ok_paths = [st for st, e in ends if e == "return"]
    if not ok_paths:
        return False
    return all(any(bb in checks for bb in st.trace) for st in ok_paths if st.env.get(0, 0) == 0)
