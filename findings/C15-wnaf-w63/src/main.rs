use ark_ff::{BigInt, BigInteger};

fn value(digits: &[i64]) -> i128 {
    digits.iter().rev().fold(0i128, |acc, &d| 2 * acc + d as i128)
}

fn main() {
    // debug build (cargo run): window 63 is admitted by find_wnaf's guard (2..64)
    for (x, w) in [(0x1234_5678_9abc_def1u64, 62usize), ((1u64 << 62) | 1, 63)] {
        let r = std::panic::catch_unwind(|| BigInt::<1>::from(x).find_wnaf(w));
        match r {
            Ok(Some(d)) => println!("find_wnaf({:#x}, w={}) reconstructs {} (want {})", x, w, value(&d), x),
            Ok(None) => println!("find_wnaf({:#x}, w={}) = None", x, w),
            Err(_) => println!("find_wnaf({:#x}, w={}) PANICKED", x, w),
        }
    }
}
