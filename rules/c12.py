"""C12 — subgroup membership tests and cofactor clearing: structural clauses.

  R-PRED.default   the default membership tests (SW and TE) return `true` unconditionally only on the
                   cofactor_is_one() arm and otherwise the *group-level* identity test of
                   mul_affine(item, ScalarField::characteristic()).
  R-PRED.override  every override depends on its argument, decides by group-level comparisons
                   (equality / is_zero of points, not of a single coordinate), and returns a constant
                   only for a configuration whose COFACTOR is 1.
  R-ENDO           for endomorphism-based overrides (membership and cofactor clearing) the relation the
                   code tests / the combination it returns is extracted symbolically at the group level
                   (points as module elements, endomorphisms as commuting symbols), the endomorphism's
                   coordinate formula is extracted symbolically from its helper, and both are
                   discharged numerically on the configuration's generator with the constants of the
                   constant table (sigma(G) = [lambda]G etc.): the fast path accepts the subgroup and
                   clears by the stated linear combination.
  R-CLEAR          default cofactor clearing multiplies by COFACTOR; mul_by_cofactor_inv by COFACTOR_INV;
                   sampling (Distribution impls) returns only through cofactor clearing; Affine::new /
                   Projective::new assert both tests.
  Constants (COFACTOR * COFACTOR_INV, h*r, GLV): C16.
"""
import re
from arklib import dataflow as DF, symex as SX, numth as N
from arklib.facts import op_local, op_place, place_parts
from arklib.poly import Q, Poly
from arklib.configs import Registry

UNITS = ["ws", "curves"]
POINT_HEADS = ("ark_ec::models::short_weierstrass::group::Projective", "ark_ec::models::short_weierstrass::affine::Affine",
               "ark_ec::models::twisted_edwards::group::Projective", "ark_ec::models::twisted_edwards::affine::Affine")
SUBGROUP = "is_in_correct_subgroup_assuming_on_curve"


def is_point_ty(s):
    return any(h + "<" in (s or "") for h in POINT_HEADS)


def check_default(res, facts):
    rule = res.rule("R-PRED.default", "default subgroup test: true only if cofactor is one, else is_zero of the point r*item", 2)
    for fn in facts.fns(unit="ws", crate="ark_ec"):
        if fn.name != SUBGROUP or not fn.default_of or fn.kind == "Closure":
            continue
        key = "ark_ec|%s::%s(default)" % (fn.default_of.rsplit("::", 1)[-1], fn.name)
        dep = DF.Dep(fn)
        cd = DF.control_deps(fn)
        problems = []
        # constant-true assignments to the return place must be control dependent on cofactor_is_one()
        for bi, si, s in fn.stmts():
            if s.get("d") == 0 and s["r"]["k"] == "use" and "k" in s["r"]["o"] and s["r"]["o"]["k"].get("v") is True:
                ok = False
                for (sw, succ) in cd.get(bi, ()):
                    o = fn.bbs[sw]["t"].get("o")
                    l = op_local(o) if o else None
                    if l is not None and any(c["f"].get("name") == "cofactor_is_one" for _, c in dep.calls_in_slice([l])):
                        ok = True
                if not ok:
                    problems.append("returns the constant `true` outside the cofactor_is_one() arm")
            if s.get("d") == 0 and s["r"]["k"] == "use" and "k" in s["r"]["o"] and s["r"]["o"]["k"].get("v") is False:
                problems.append("returns the constant `false`")
        # the computed answer: is_zero at the group level of mul_affine(item, characteristic())
        zs = [(bb, t) for bb, t in fn.calls() if t["f"].get("name") == "is_zero"]
        if not zs:
            problems.append("no identity test of r*item")
        for bb, t in zs:
            if not is_point_ty(t["f"].get("self")):
                problems.append("the identity test is applied to `%s`, not to the point r*item (a single coordinate being zero does not characterise the identity)" % (t["f"].get("self") or "?")[-60:])
            if place_parts(t["d"])[0] != 0 and 0 not in dep.slice([0]) and place_parts(t["d"])[0] not in dep.slice([0]):
                problems.append("result of the identity test does not reach the return value")
            a = op_local(t["args"][0]) if t["args"] else None
            feeding = [c["f"].get("name") for _, c in dep.calls_in_slice([a])] if a is not None else []
            if not any(n in ("mul_affine", "mul_bigint", "mul_projective") for n in feeding):
                problems.append("tested point is not a scalar multiple of the argument")
            if "characteristic" not in feeding:
                problems.append("the multiplier is not ScalarField::characteristic()")
            else:
                ch = [c for _, c in dep.calls_in_slice([a]) if c["f"].get("name") == "characteristic"][0]
                if "ScalarField" not in (ch["f"].get("self") or ""):
                    problems.append("characteristic() is taken of `%s`, not of the scalar field" % (ch["f"].get("self") or "?")[-50:])
            if a is not None and 1 not in dep.args_in_slice([a]):
                problems.append("tested point does not depend on the argument")
        if problems:
            rule.bad(key, "; ".join(sorted(set(problems))), fn.loc)
        else:
            rule.ok(key, "true only on cofactor_is_one(); otherwise is_zero(mul_affine(item, r)) on the point", fn.loc)


def check_overrides(res, facts, reg):
    rule = res.rule("R-PRED.override", "overridden subgroup tests depend on the argument, compare points (not coordinates) and are constant only for cofactor 1", 5)
    for fn in facts.fns():
        if fn.unit not in UNITS or fn.name != SUBGROUP or not fn.trait_impl or fn.kind == "Closure":
            continue
        owner = fn.impl["self"]
        key = "%s|%s" % (fn.crate, owner)
        dep = DF.Dep(fn)
        ret_sl = dep.slice([0])
        depends = 1 in ret_sl
        consts = [s["r"]["o"]["k"]["v"] for bi, si, s in fn.stmts() if s.get("d") == 0 and s["r"]["k"] == "use" and "k" in s["r"]["o"] and isinstance(s["r"]["o"]["k"].get("v"), bool)]
        cmps = [(bb, t) for bb, t in fn.calls() if t["f"].get("name") in ("eq", "ne", "is_zero") and place_parts(t["d"])[0] in ret_sl | {0}]
        coord_cmps = [t for bb, t in cmps if not is_point_ty(t["f"].get("self")) and "bool" not in (t["f"].get("self") or "")]
        if not depends:
            cof = reg.const(owner, "COFACTOR", "CurveConfig")
            h = N.limbs_to_int(cof["val"]) if cof else None
            if consts == [True] and h == 1:
                rule.ok(key, "constant true and COFACTOR = 1 (every curve point is in the subgroup)", fn.loc)
            else:
                rule.bad(key, "the membership test ignores its argument (returns %s) although COFACTOR = %s" % (consts, h), fn.loc)
            continue
        if coord_cmps:
            rule.bad(key, "the answer is decided by comparing a coordinate / field element (`%s` on %s) instead of points" % (coord_cmps[0]["f"].get("name"), (coord_cmps[0]["f"].get("self") or "?")[-50:]), fn.loc)
        elif not cmps:
            rule.bad(key, "no group-level comparison feeds the answer", fn.loc)
        else:
            rule.ok(key, "decided by %s on points" % sorted({t["f"].get("name") for _, t in cmps}), fn.loc)


# ---- R-ENDO ----------------------------------------------------------------------------------------

def group_models(helpers, scalars):
    """points are module elements (ring symbols); scalar multiplications multiply by a named symbol"""
    def extra(m):
        def smul(ex, st, fr, t, a):
            p = SX.q_of(ex.deref(a[0]))
            k = a[1] if len(a) > 1 else None
            name = None
            # scalar operand: constant by name
            kk = DF.direct_const(fr.fn, t["args"][1]) if len(t["args"]) > 1 else None
            if kk is not None:
                if "promoted" in kk:
                    cand = [d for d in (kk.get("pdefs") or []) if not d.startswith(("lit:", "variant:"))]
                    name = cand[0].rsplit("::", 1)[-1] if cand else None
                elif kk.get("def"):
                    name = kk["def"].rsplit("::", 1)[-1]
            if name is None:
                l = op_local(t["args"][1]) if len(t["args"]) > 1 else None
                if l is not None:
                    dep = DF.Dep(fr.fn)
                    # a named configuration constant somewhere in the scalar's computation (e.g. BigInt::new([X[0], 0, 0, 0]))
                    nc = [(kk2.get("def") or (kk2.get("pdefs") or [""])[0]).rsplit("::", 1)[-1] for kk2 in dep.consts_in_slice([l]) if (kk2.get("def") and "promoted" not in kk2) or kk2.get("pdefs")]
                    nc = [n for n in nc if n and not n.startswith(("lit:", "variant:")) and n.isupper()]
                    if nc:
                        name = nc[0]
                    else:
                        # value produced by a helper call (e.g. one_minus_x().into_bigint()): name it after the helper
                        hs = [c["f"].get("name") for _, c in dep.calls_in_slice([l]) if c["f"].get("name") not in ("into_bigint", "as_ref", "deref", "borrow", "into", "new")]
                        if hs:
                            name = "fn:" + hs[0]
            if p is None or name is None:
                return SX.TOP
            scalars.add(name)
            return Q.var("k:" + name) * p
        for n in ("mul_bigint", "mul_affine", "mul_projective"):
            m.on(SX.by(None, n), smul)
        ident = lambda ex, st, fr, t, a: ex.deref(a[0]) if a else NotImplemented
        for n in ("into_group", "into_affine", "into", "from", "clone", "borrow", "to_owned"):
            m.on(SX.by(None, n), lambda ex, st, fr, t, a: (ex.deref(a[0]) if (a and SX.q_of(ex.deref(a[0])) is not None) else NotImplemented))

        def helper(ex, st, fr, t, a):
            n = t["f"].get("name")
            if n in helpers and a:
                p = SX.q_of(ex.deref(a[0]))
                if p is None:
                    return SX.TOP
                return Q.var("e:" + n) * p
            return NotImplemented
        m.on(lambda f: f.get("name") in helpers, helper)
    return SX.ring_models(extra)


class FieldEval:
    """evaluate a polynomial whose variables denote elements of a finite field"""

    def __init__(self, F):
        self.F = F

    def poly(self, p, env):
        F = self.F
        acc = F.zero()
        for mono, c in p.t.items():
            term = F.from_int(c)
            for v, e in mono:
                if v not in env:
                    raise KeyError(v)
                if isinstance(env[v], tuple):
                    raise ValueError("variable %s denotes an extension-field element but is used as a base-field leaf" % v)
                term = F.mul(term, F.pow(env[v], e))
            acc = F.add(acc, term)
        return acc

    def q(self, q, env):
        n = self.poly(q.n, env)
        if q.d == Poly.const(1):
            return n
        return self.F.mul(n, self.F.inv(self.poly(q.d, env)))


def local_helpers(facts, fn):
    """crate-local point -> point helpers called (transitively) by fn: candidates for endomorphisms"""
    out = {}
    for bb, t in fn.calls():
        callee = facts.get(t["f"].get("res") or t["f"].get("path"), fn.unit)
        if callee is None or callee.crate != fn.crate or callee.impl or callee.default_of:
            continue
        if callee.d["argc"] == 1 and is_point_ty(callee.local_ty(1)) and is_point_ty(callee.local_ty(0)):
            out[callee.name] = callee
    return out


def check_endo(res, facts, reg, curves):
    rule = res.rule("R-ENDO", "endomorphism-based subgroup tests / cofactor clearing: extracted relation holds on the generator with the configured constants", 6)
    for fn in facts.fns():
        if fn.unit not in UNITS or fn.kind == "Closure" or not fn.trait_impl or fn.name not in (SUBGROUP, "clear_cofactor"):
            continue
        owner = fn.impl["self"]
        helpers = local_helpers(facts, fn)
        key = "%s|%s::%s" % (fn.crate, owner, fn.name)
        if owner not in curves:
            continue
        kind, E, F, Fr, h = curves[owner]
        r = Fr.p
        scalars = set()
        md = group_models(set(helpers), scalars)
        env = {rr["name"]: rr["val"] for rr in reg.recs if rr["crate"] == fn.crate and isinstance(rr["val"], bool) and not rr.get("derived_for_type")}
        ex = SX.Engine(facts, fn.unit, md, env=env, max_paths=40, max_depth=3, inline_limit=0)
        ex.const_fields = {"infinity": False}
        pt = SX.Ref(SX.Cell(SX.Obj(name="P")))
        try:
            paths = ex.run(fn, [pt])
        except Exception as e:
            rule.undecided(key, "symbolic evaluation failed: %s" % e, fn.loc)
            continue
        rels = []
        for p in paths:
            # a path contributes when its value is well formed (unknown values poison what they flow into, so a
            # well-formed point expression cannot depend on an unmodelled call other than scalar plumbing)
            if p.flags & {"cut", "diverge"}:
                continue
            if fn.name == SUBGROUP:
                rv = p.ret
                if isinstance(rv, SX.Cond) and rv.kind == "eq" and not rv.neg and isinstance(rv.a, Q) and isinstance(rv.b, Q):
                    rels.append(("eq", rv.a - rv.b))
                elif isinstance(rv, SX.Cond) and rv.kind == "zero" and not rv.neg:
                    rels.append(("eq", rv.a))
            else:
                q = SX.q_of(p.ret)
                if q is not None:
                    rels.append(("val", q))
        if not rels:
            rels = []
            if not helpers and not scalars:
                continue   # plain default-style override: nothing endomorphism-based to discharge
            rule.undecided(key, "could not extract a group-level relation (helpers %s)" % sorted(helpers), fn.loc)
            continue
        # numeric discharge on the generator
        from rules.c16_curves import generator_of
        G, grec = generator_of(type("X", (), {"reg": reg})(), owner, kind, F)
        if G is None:
            rule.undecided(key, "no generator", fn.loc)
            continue
        try:
            images = {n: endo_image(facts, reg, helpers[n], kind, E, F, G, owner) for n in helpers}
            for n in images:
                images[n](G)      # formulas must be evaluable on the generator
        except Exception as e:
            rule.undecided(key, "endomorphism formula not extracted: %s" % str(e)[:200], fn.loc)
            continue
        svals = {}
        ok_s = True
        for s in scalars:
            v = scalar_value(reg, facts, fn, s, r)
            if v is None:
                ok_s = False
            svals[s] = v
        if not ok_s:
            rule.undecided(key, "scalar constant(s) %s not resolved" % [s for s in scalars if svals[s] is None], fn.loc)
            continue
        verdicts = []
        for tag, q in rels:
            # q is linear in P: coefficient polynomial in scalar / endomorphism symbols
            tot = None if kind == "sw" else E.identity()
            okq = True
            for mono, c in q.n.t.items():
                vs = dict(mono)
                if vs.get("P") != 1:
                    okq = False
                    break
                pt_img = G
                k = c
                for v, e in mono:
                    if v == "P":
                        continue
                    if v.startswith("k:"):
                        k *= svals[v[2:]] ** e
                    elif v.startswith("e:"):
                        for _ in range(e):
                            pt_img = images[v[2:]](pt_img)
                term = E.mul(k % (r * max(h, 1)) if k >= 0 else -((-k) % (r * max(h, 1))), pt_img) if kind == "sw" else E.mul(k % (r * max(h, 1)), pt_img)
                tot = E.add(tot, term)
            if not okq or q.d != Poly.const(1):
                verdicts.append(None)
                continue
            if tag == "eq":
                verdicts.append((tot is None) if kind == "sw" else E.is_identity(tot))
            else:
                # cofactor clearing: the image of the generator (already in the subgroup) must be a non-zero multiple
                # and the map must agree with multiplication by a fixed integer: check image has order r and equals
                # [c]G for the integer c obtained by replacing each endomorphism with its eigenvalue on G
                in_sub = (E.mul(r, tot) is None) if kind == "sw" else E.is_identity(E.mul(r, tot))
                nonzero = tot is not None if kind == "sw" else not E.is_identity(tot)
                verdicts.append(in_sub and nonzero)
        # documented shape of psi-based G2 clearing (Budroni-Pintore / RFC 9380 App. G.4):
        #   h_eff * P = [x^2 - x - 1] P + [x - 1] psi(P) + psi^2(2 P)
        if fn.name == "clear_cofactor" and {"p_power_endomorphism", "double_p_power_endomorphism"} <= set(helpers) and rels:
            P_, psi, psi2, X = Q.var("P"), Q.var("e:p_power_endomorphism"), Q.var("e:double_p_power_endomorphism"), Q.var("k:X")
            xneg = env.get("X_IS_NEGATIVE")
            x = -X if xneg else X
            want = (x * x - x - Q.const(1)) * P_ + (x - Q.const(1)) * psi * P_ + Q.const(2) * psi2 * P_
            got = rels[0][1]
            fkey = key + "|formula"
            if got.equals(want):
                rule.ok(fkey, "returned combination equals [x^2-x-1]P + [x-1]psi(P) + psi^2(2P) with x = %sX" % ("-" if xneg else "+"), fn.loc)
            else:
                rule.bad(fkey, "returned combination %s differs from the effective-cofactor formula [x^2-x-1]P + [x-1]psi(P) + psi^2(2P) for x = %sX (X_IS_NEGATIVE = %s)" % (str(got)[:160], "-" if xneg else "+", xneg), fn.loc)
        if any(v is None for v in verdicts):
            rule.undecided(key, "relation not linear in the point", fn.loc)
        elif all(verdicts):
            what = "tested relation %s vanishes on the generator" % [str(q)[:70] for t, q in rels][:2] if fn.name == SUBGROUP else "image of the generator %s is a non-identity point of order r" % [str(q)[:90] for t, q in rels][:1]
            rule.ok(key, what, fn.loc)
        else:
            rule.bad(key, "with the configured constants the relation %s does NOT hold on the subgroup generator: the fast %s would %s" % (
                [str(q)[:100] for t, q in rels][:2], "membership test" if fn.name == SUBGROUP else "cofactor clearing", "reject subgroup points" if fn.name == SUBGROUP else "leave the subgroup or map to the identity"), fn.loc)


def scalar_value(reg, facts, fn, name, r):
    """numeric value of a named scalar constant (limbs) used by the override, sign not applied"""
    if name.startswith("fn:"):
        # helper returning a scalar-field element computed from X (e.g. one_minus_x / x_minus_one): evaluate its
        # formula symbolically and plug in X
        hn = name[3:]
        cands = [f for f in facts.fns(unit=fn.unit, crate=fn.crate) if f.name == hn and f.d["argc"] == 0]
        if not cands:
            return None
        h = cands[0]
        md = SX.ring_models()

        def cv(d, k, ctx=()):
            # constants of the helper (e.g. `const X: Fr = Fr::from_sign_and_limbs(..)`) by def path: numeric value
            for rr in reg.recs:
                if rr.get("id") == d and rr["crate"] == fn.crate:
                    try:
                        v = reg.decode(rr["val"], rr["ty"])
                    except Exception:
                        return None
                    if isinstance(v, int):
                        return Q.const(v)
            return None
        ex = SX.Engine(facts, fn.unit, md, max_paths=10, max_depth=2, inline_limit=0, const_value=cv)
        paths = ex.run(h, [])
        vals = set()
        for p in paths:
            q = SX.q_of(p.ret)
            if q is None or not q.is_poly() or not q.n.is_const():
                return None
            vals.add(q.n.const_value() % r)
        if len(vals) != 1:
            return None
        return vals.pop()
    rs = [rr for rr in reg.recs if rr["crate"] == fn.crate and rr["name"] == name and not rr.get("derived_for_type")]
    if not rs:
        return None
    for rr in rs:
        v = rr["val"]
        if isinstance(v, list) and all(isinstance(x, int) for x in v):
            return N.limbs_to_int(v)
        if isinstance(v, dict) and isinstance(v.get("0"), list) and all(isinstance(x, int) for x in v["0"]):
            return N.limbs_to_int(v["0"])
    return None


def endo_image(facts, reg, helper, kind, E, F, G, owner):
    """turn a coordinate-wise endomorphism helper into a Python function on affine points, from its
    symbolically extracted coordinate formulas and the crate's constants"""
    from rules.c02_towers import quad, flat, tower_models
    is_ext = isinstance(F, N.Ext)
    proj = "group::Projective" in helper.local_ty(1)

    def mk(n):
        if is_ext and F.d == 2:
            return quad(n)
        return SX.Obj(name=n)
    head = helper.local_ty(1).lstrip("&").split("<")[0]
    if proj:
        pt = SX.Obj(adt=head, fields={0: mk("p.x"), 1: mk("p.y"), 2: mk("p.z")})
    else:
        pt = SX.Obj(adt=head, fields={0: mk("p.x"), 1: mk("p.y"), 2: False})
    arg = SX.Ref(SX.Cell(pt)) if helper.local_ty(1).startswith("&") else pt
    consts = {}

    def cv(d, k, ctx=()):
        name = d.rsplit("::", 1)[-1]
        if name in ("ZERO", "ONE"):
            return None
        if name == "DEGREE_OVER_BASE_PRIME_FIELD":
            from rules.c02_towers import DEG
            for c in [" ".join(k.get("args") or [])] + list(ctx):
                best = None
                for w, v in DEG.items():
                    i = c.find(w + "<")
                    if i >= 0 and (best is None or i < best[0]):
                        best = (i, v)
                if best:
                    return best[1]
            return None
        cfg_owner = None
        if d.endswith(("ExtConfig::FROBENIUS_COEFF_C1", "ExtConfig::NONRESIDUE", "Fp2Config::NONRESIDUE", "Fp2Config::FROBENIUS_COEFF_FP2_C1")):
            # generic template constant: map to the configuration named by the instantiating wrapper
            c = " ".join(k.get("args") or []) + " " + " ".join(ctx)
            found = [m for m in re.findall(r"Fp2ConfigWrapper<([A-Za-z0-9_:]+)>", c) + re.findall(r"<([A-Za-z0-9_:]+) as ark_ff::fields::models::fp2::Fp2Config>", c) if "::" in m]
            if found:
                cfg_owner = found[0]
                name = {"FROBENIUS_COEFF_C1": "FROBENIUS_COEFF_FP2_C1"}.get(name, name)
        rs = [rr for rr in reg.recs if rr["crate"] == helper.crate and rr["name"] == name and not rr.get("derived_for_type") and (cfg_owner is None or rr.get("owner") == cfg_owner)]
        # prefer the record whose id matches the def path
        rs = sorted(rs, key=lambda rr: rr.get("id") != d)
        if not rs:
            return None
        rec = rs[0]
        try:
            Fc = reg.field(rec["ty"].lstrip("&").strip("[]"))
        except Exception:
            Fc = None
        val = reg.decode(rec["val"], rec["ty"])
        if isinstance(val, list):
            # table: symbolic children by index
            o = SX.Obj(name="tab:" + name)
            for i, x in enumerate(val):
                consts["tab:%s.%d" % (name, i)] = x
                consts["tab:%s.deref.%d" % (name, i)] = x
            return o
        if isinstance(val, tuple) and len(val) == 2 and is_ext:
            consts[name + ".c0"], consts[name + ".c1"] = val
            return SX.Obj(adt=quad("x").adt, fields={0: SX.Obj(name=name + ".c0"), 1: SX.Obj(name=name + ".c1")})
        consts[name] = val
        return SX.Obj(name=name)
    md = tower_models()

    def frob_leaf(ex2, st, fr, t, a):
        d = ex2.deref(a[0])
        if isinstance(d, SX.Obj) and (d.fields or d.adt):
            return NotImplemented      # structured element: evaluate the real tower implementation
        return a[0]                    # prime-field leaf: Frobenius is the identity
    md.on(SX.by("ark_ff::fields::Field", "frobenius_map_in_place"), frob_leaf)
    md.h.insert(0, md.h.pop())
    ex = SX.Engine(facts, helper.unit, md, max_paths=20, max_depth=8, inline_limit=300, const_value=cv)
    paths = [p for p in ex.run(helper, [arg]) if not (p.flags & {"cut", "diverge"} or any(f.startswith("unmodelled") for f in p.flags))]
    if len(paths) != 1:
        raise ValueError("helper %s: %d evaluable paths" % (helper.name, len(paths)))
    out = ex.deref(paths[0].ret)
    fx, fy = flat(ex, out.fields[0]), flat(ex, out.fields[1])
    if None in fx or None in fy:
        raise ValueError("helper %s: coordinates not ring values" % helper.name)
    Fp = F.base_prime() if is_ext else F
    fe = FieldEval(Fp)

    def image(P):
        if P is None:
            return None
        x, y = P
        env = dict(consts)
        if is_ext and F.d == 2:
            env.update({"p.x.c0": x[0], "p.x.c1": x[1], "p.y.c0": y[0], "p.y.c1": y[1], "p.z.c0": 1, "p.z.c1": 0})
            nx = tuple(fe.q(c, env) for c in fx)
            ny = tuple(fe.q(c, env) for c in fy)
        else:
            env.update({"p.x": x, "p.y": y, "p.z": 1})
            nx, ny = fe.q(fx[0], env), fe.q(fy[0], env)
        return (nx, ny)
    return image


def check_clear(res, facts):
    rule = res.rule("R-CLEAR", "default cofactor operations use COFACTOR / COFACTOR_INV; sampling returns only cleared points; checked constructors assert both tests", 8)
    for fn in facts.fns(unit="ws", crate="ark_ec"):
        if fn.kind == "Closure" or "::tests::" in fn.id:
            continue
        key = "ark_ec|%s" % fn.id[-110:]
        names = [t["f"].get("name") for _, t in fn.calls()]
        consts = set()
        for bi, si, s in fn.stmts():
            r = s.get("r")
            for o in (r.get("ops") or ([r["o"]] if r and "o" in r else [])) if r else []:
                k = o.get("k") if isinstance(o, dict) else None
                if k:
                    for d in [k.get("def") or ""] + (k.get("pdefs") or []):
                        consts.add(d.rsplit("::", 1)[-1])
        for _, t in fn.calls():
            for a in t["args"]:
                k = a.get("k")
                if k:
                    for d in [k.get("def") or ""] + (k.get("pdefs") or []):
                        consts.add(d.rsplit("::", 1)[-1])
        if fn.name == "mul_by_cofactor_to_group" and fn.self_head in POINT_HEADS:
            (rule.ok if "COFACTOR" in consts and "mul_affine" in names else rule.bad)(key, "multiplies by Config::COFACTOR (constants seen: %s)" % sorted(c for c in consts if c), fn.loc)
        elif fn.name == "mul_by_cofactor_inv" and fn.self_head in POINT_HEADS:
            (rule.ok if "COFACTOR_INV" in consts else rule.bad)(key, "multiplies by Config::COFACTOR_INV (constants seen: %s)" % sorted(c for c in consts if c), fn.loc)
        elif fn.name == "clear_cofactor" and fn.default_of:
            (rule.ok if "mul_by_cofactor" in names else rule.bad)(key, "default clear_cofactor = mul_by_cofactor", fn.loc)
        elif fn.name == "sample" and fn.trait_impl and fn.trait_impl.endswith("Distribution") and is_point_ty((fn.impl.get("trait_args") or ["", ""])[1]):
            # every normal return passes a cofactor-clearing call
            clear = {bb for bb, t in fn.calls() if t["f"].get("name") in ("mul_by_cofactor", "mul_by_cofactor_to_group", "clear_cofactor", "sample")}
            if clear and not fn.can_reach_exit_avoiding(0, clear):
                rule.ok(key, "returns only through cofactor clearing", fn.loc)
            else:
                rule.bad(key, "a sampled point can be returned without cofactor clearing (random points are outside the subgroup when the cofactor is > 1)", fn.loc)
        elif fn.name == "new" and fn.self_head in POINT_HEADS and not fn.trait_impl:
            need = {"is_on_curve", "is_in_correct_subgroup_assuming_on_curve"}
            if need <= set(names) or ("new" in names and len(fn.bbs) < 8):
                rule.ok(key, "asserts curve equation and subgroup membership (or delegates to the affine constructor)", fn.loc)
            else:
                rule.bad(key, "checked constructor does not test %s" % sorted(need - set(names)), fn.loc)


def check_cofone(res, facts):
    """cofactor_is_one(): limb 0 is compared with 1 and *every* further limb with zero"""
    rule = res.rule("R-COFONE", "cofactor_is_one inspects all limbs of COFACTOR: limb 0 == 1, all limbs from index 1 are zero", 1)
    for fn in facts.fns(unit="ws", crate="ark_ec"):
        if fn.name != "cofactor_is_one" or not fn.default_of:
            continue
        key = "ark_ec|CurveConfig::cofactor_is_one"
        calls = [(bb, t) for bb, t in fn.calls()]
        names = [t["f"].get("name") for _, t in calls]
        # position bookkeeping along the (single) iterator chain feeding `all`
        alls = [t for _, t in calls if t["f"].get("name") == "all"]
        if not alls:
            rule.bad(key, "no check over the remaining limbs (all(is_zero))", fn.loc)
            continue
        from rules.c07 import E, show
        problems = []

        def start(t):
            """index of the first limb the iterator / slice expression visits (None: not a plain suffix of COFACTOR)"""
            if t == "COFACTOR":
                return 0
            if isinstance(t, tuple) and t[0] == "call" and len(t) == 3:
                n, a = t[1], t[2]
                if n in ("iter", "into_iter") and len(a) == 1:
                    return start(a[0])
                if n == "skip" and len(a) == 2 and isinstance(a[1], int):
                    s0 = start(a[0])
                    return None if s0 is None else s0 + a[1]
                if n == "index" and len(a) == 2 and isinstance(a[1], tuple) and a[1][:2] == ("agg", "RangeFrom") and isinstance(a[1][2][0], int):
                    s0 = start(a[0])
                    return None if s0 is None else s0 + a[1][2][0]
            return None
        recv = E(fn, alls[0]["args"][0])
        pos = start(recv)
        if pos is None:
            problems.append("the zero test runs over %s, which is not a plain suffix of COFACTOR (limbs may be hidden from the test)" % show(recv)[:120])
        elif pos != 1:
            problems.append("the zero test starts at limb %d instead of limb 1 (limb%s never inspected)" % (pos, "s 1..%d" % (pos - 1) if pos > 2 else (" 1" if pos == 2 else " 0 counted twice")))
        # limb 0 == 1
        eq1 = False
        limb0 = ("proj", "COFACTOR", (("idx", 0),))
        for bi, si, s in fn.stmts():
            r = s.get("r")
            if r and r["k"] == "bin" and r["op"] in ("Eq", "Ne") and {0: 0}.get(0) == 0:
                ea, eb = E(fn, r["a"]), E(fn, r["b"])
                if (ea, eb) in ((limb0, 1), (1, limb0)):
                    eq1 = True
        for _, c in fn.calls():
            if c["f"].get("name") in ("eq", "ne") and len(c["args"]) == 2:
                ea, eb = E(fn, c["args"][0]), E(fn, c["args"][1])
                if (ea, eb) in ((limb0, 1), (1, limb0)):
                    eq1 = True
        if not eq1:
            problems.append("limb 0 is not compared with 1")
        (rule.bad if problems else rule.ok)(key, "; ".join(problems) if problems else "limb 0 == 1 and all limbs from 1 are zero", fn.loc)


def check_endoinf(res, facts):
    """the affine endomorphism helpers behind the fast subgroup tests / cofactor clearing map the identity to the
    identity: they act on the coordinates of a COPY of their argument (so the infinity flag is carried over); a helper
    that builds a fresh point (new_unchecked / new) without looking at the flag turns the identity into the finite
    pseudo-point (0, 0)"""
    rule = res.rule("R-ENDOINF", "affine endomorphism helpers preserve the point at infinity", 6)
    AFF = "ark_ec::models::short_weierstrass::affine::Affine"
    for unit in UNITS:
        for f in facts.fns(unit=unit):
            if f.kind == "Closure" or "endomorphism" not in f.name or f.crate == "ark_ec" or "::tests" in f.id:
                continue
            if not f.local_ty(0).startswith(AFF):
                continue
            key = "%s|%s" % (f.crate, f.id[-70:])
            fresh = [t["f"].get("name") for _, t in f.calls() if t["f"].get("name") in ("new_unchecked", "new") and (t["f"].get("self_head") or t["f"].get("self") or "").startswith(AFF)]
            fresh += ["struct literal" for _, _, s_ in f.stmts() if s_.get("r", {}).get("k") == "agg" and s_["r"].get("adt") == AFF]
            guards = []
            for b in f.bbs:
                if b["t"]["k"] == "switch":
                    guards.append(DF.show(DF.expr(f, b["t"]["o"], depth=10)))
            guarded = any("infinity" in g or "is_zero(arg1" in g or "is_zero(" in g and "arg1)" in g for g in guards)
            ret = DF.expr(f, {"c": 0}, depth=10)
            if fresh and not guarded:
                rule.bad(key, "builds its result with %s without testing the argument's infinity flag: the image of the identity is the finite pseudo-point (psi(O) = (0, 0)), so the endomorphism-based subgroup test rejects the identity and cofactor clearing of the identity leaves the curve" % sorted(set(fresh)), f.loc)
            elif ret[0] in ("arg", "phi"):
                rule.ok(key, "acts on a copy of its argument (flag carried over)", f.loc)
            elif fresh and guarded:
                rule.ok(key, "fresh point under an identity guard", f.loc)
            else:
                rule.undecided(key, "result is %s" % DF.show(ret)[:80], f.loc)


def run(ctx, res):
    facts = ctx.facts(UNITS)
    res.analysed = facts.stats()
    reg = Registry(facts, UNITS)
    check_default(res, facts)
    check_cofone(res, facts)
    check_endoinf(res, facts)
    check_overrides(res, facts, reg)
    # curve table (as in C16) for the numeric discharge
    from rules import c16_curves
    cx = type("Cx", (), {})()
    cx.reg, cx.facts = reg, facts
    cx.curves = {}
    for cof in reg.impls_of("CurveConfig", "COFACTOR"):
        info = c16_curves.curve_of(cx, cof["owner"])
        if info:
            kind, E, F, Fr, _ = info
            cx.curves[cof["owner"]] = (kind, E, F, Fr, N.limbs_to_int(cof["val"]))
    check_endo(res, facts, reg, cx.curves)
    check_clear(res, facts)
    return {
        "level": "other",
        "explanation": "Dataflow rules over the MIR of the default subgroup tests / cofactor operations in ark-ec and of every override in the curve crates and test-curves; for endomorphism-based overrides the tested relation (membership) or returned combination (clearing) is extracted by symbolic evaluation at the group level, the endomorphisms' coordinate formulas are extracted symbolically from their helpers, and both are discharged on the configuration's generator with the constants of the constant table. Equivalence of the endomorphism criteria with r*P = O on points OUTSIDE the subgroup is a theorem about the curves and is NOT decided.",
        "assumptions": ["endomorphisms act on the prime-order subgroup as multiplication by a scalar (eigenvalue)", "point arithmetic realises the group law (C03)"],
    }
