"""C11 — square roots and quadratic-residue tests are exact: structural clauses.

  R-VERIFIED   every computed root that is handed out (Some(x) / then_some(_, x)) in
               SqrtPrecomputation::sqrt (Tonelli-Shanks and the 3-mod-4 variant) and in the general arm
               of QuadExtField::sqrt is guarded by the comparison x.square() == input.  With C01/C02
               this makes "the reported root squares to x" hold on those sites for all inputs.
  R-ZEROARM    Tonelli-Shanks returns Some(0) on the is_zero arm before any exponentiation.
  R-LEGENDRE   Fp::legendre raises to MODULUS_MINUS_ONE_DIV_TWO and classifies zero / one / other into
               Zero / QuadraticResidue / QuadraticNonResidue (outcome enumeration); extension fields
               delegate to norm().legendre().
  R-DELEGATE   the c1 = 0 arm of QuadExtField::sqrt returns (sqrt(c0), 0) on the residue arm and
               (0, sqrt(c0 / NONRESIDUE)) on the other.
  Precomputed constants and the choice of algorithm per modulus: C16 (SQRT_PRECOMP, (p+1)/4,
  TRACE_MINUS_ONE_DIV_TWO, Fp3 parameters).
"""
from arklib import dataflow as DF, pathsim as PS
from arklib.facts import op_local, op_place, place_parts, closure_args

QUAD = "ark_ff::fields::models::quadratic_extension::QuadExtField"
FP = "ark_ff::fields::models::fp::Fp"


def transitive_cd(cd, bb):
    seen, out, st = set(), set(), [bb]
    while st:
        x = st.pop()
        for (a, s) in cd.get(x, ()):
            if (a, s) not in out:
                out.add((a, s))
                if a not in seen:
                    seen.add(a)
                    st.append(a)
    return out


def root_sites(fn):
    """(bb, payload local, guard locals, kind) for every Some(..) handed out by fn"""
    cd = DF.control_deps(fn)
    out = []
    for bi, si, s in fn.stmts():
        r = s.get("r")
        if r and r.get("k") == "agg" and r.get("variant") == "Some" and r.get("adt") == "core::option::Option":
            pl = op_local(r["ops"][0]) if r["ops"] else None
            guards = []
            for (sw, succ) in transitive_cd(cd, bi):
                o = fn.bbs[sw]["t"].get("o")
                l = op_local(o) if o else None
                if l is not None:
                    guards.append(l)
            out.append((bi, pl, guards, "Some"))
    for bb, t in fn.calls():
        if t["f"].get("name") == "then_some" and len(t["args"]) == 2:
            out.append((bb, op_local(t["args"][1]), [op_local(t["args"][0])], "then_some"))
    return out


def is_verified(fn, dep, payload, guards, input_locals):
    """some guard derives from eq(square(payload), input)"""
    if payload is None:
        return False
    psl = dep.slice([payload])
    for g in guards:
        if g is None:
            continue
        for bb, c in dep.calls_in_slice([g]):
            if c["f"].get("name") not in ("eq", "ne") or len(c["args"]) < 2:
                continue
            sides = []
            for a in c["args"][:2]:
                l = op_local(a)
                sl = dep.slice([l]) if l is not None else set()
                sq = [cc for _, cc in dep.calls_in_slice([l])] if l is not None else []
                has_sq = any(cc["f"].get("name") in ("square", "square_in_place") and any((op_local(x) is not None and (dep.slice([op_local(x)]) & (psl | {payload}))) for x in cc["args"]) for cc in sq)
                has_in = bool(sl & input_locals)
                sides.append((has_sq, has_in))
            if (sides[0][0] and sides[1][1]) or (sides[1][0] and sides[0][1]):
                return True
    return False


def check_verified(res, facts):
    rule = res.rule("R-VERIFIED", "computed square roots are returned only under the guard root^2 == input", 3)
    rz = res.rule("R-ZEROARM", "Tonelli-Shanks returns Some(0) exactly on the is_zero arm", 1)
    targets = []
    for fn in facts.fns(unit="ws", crate="ark_ff"):
        if "::tests::" in fn.id:
            continue
        root = fn.id if fn.kind != "Closure" else fn.d.get("parent", "")
        if fn.name == "sqrt" and fn.self_head == "ark_ff::fields::sqrt::SqrtPrecomputation" and fn.kind != "Closure":
            targets.append((fn, {2}, "SqrtPrecomputation::sqrt"))
        if fn.kind == "Closure" and root.endswith("::sqrt") and QUAD in root:
            targets.append((fn, {1}, "QuadExtField::sqrt::" + fn.id.rsplit("::", 1)[-1]))
        if fn.kind != "Closure" and fn.name == "sqrt" and fn.self_head == QUAD and fn.trait_impl == "ark_ff::fields::Field":
            # the general arm may be written in the body itself (`let alpha = norm.sqrt()?; ...`) instead of a closure
            targets.append((fn, {1}, "QuadExtField::sqrt"))
    for fn, inputs, label in targets:
        dep = DF.Dep(fn)
        sites = root_sites(fn)
        for bb, payload, guards, kind in sites:
            key = "ark_ff|%s|%s@%s" % (label, kind, "payload-from-" + "/".join(sorted({c["f"].get("name", "?") for _, c in dep.calls_in_slice([payload])} if payload is not None else {"const"}))[:60])
            names = {c["f"].get("name") for _, c in dep.calls_in_slice([payload])} if payload is not None else set()
            if names <= {"zero"} and names:
                # zero arm
                ok = any(any(c["f"].get("name") == "is_zero" for _, c in dep.calls_in_slice([g])) for g in guards if g is not None)
                (rz.ok if ok else rz.bad)(key, "Some(zero) guarded by is_zero(input)", fn.loc)
                continue
            if names & {"new"} and not (names & {"pow", "mul", "square", "inverse"}) and fn.kind == "Closure" and len(fn.bbs) <= 3:
                continue   # delegating closures (c1 = 0 arm): R-DELEGATE
            if fn.kind != "Closure" and "new" in names and "sqrt" in names and names - set(DF.TRANSPARENT) <= {"new", "sqrt", "div", "branch", "from_residual", "from_output"}:
                continue   # the same delegation written in the body (`self.c0.sqrt()?` placed in one coordinate): R-DELEGATE
            if is_verified(fn, dep, payload, guards, inputs):
                rule.ok(key, "guarded by square(root) == input", fn.loc)
            else:
                rule.bad(key, "a computed value is returned as the square root without the check root^2 == input on this path: for a non-residue input a wrong 'root' would be reported", fn.loc)


def check_legendre(res, facts):
    rule = res.rule("R-LEGENDRE", "Legendre symbol: exponent (p-1)/2 and three-way classification; extensions go through the norm", 3)
    for fn in facts.fns(unit="ws", crate="ark_ff"):
        if fn.name != "legendre" or fn.kind == "Closure" or fn.trait_impl != "ark_ff::fields::Field":
            continue
        key = "ark_ff|%s::legendre" % (fn.self_head or "?").rsplit("::", 1)[-1]
        if fn.self_head == FP:
            pows = [t for _, t in fn.calls() if t["f"].get("name") == "pow"]
            ok_exp = False
            for t in pows:
                k = DF.direct_const(fn, t["args"][1]) if len(t["args"]) > 1 else None
                if k and ("MODULUS_MINUS_ONE_DIV_TWO" in (k.get("def") or "") or any("MODULUS_MINUS_ONE_DIV_TWO" in d for d in k.get("pdefs", []))):
                    ok_exp = True
            table = {}
            for z in (True, False):
                for o in (True, False):
                    if z and o:
                        continue

                    def oracle(st, bb, t, z=z, o=o):
                        n = t["f"].get("name")
                        if n == "is_zero":
                            return z
                        if n == "is_one":
                            return o
                        return PS.UNKNOWN
                    ends = PS.explore(fn, oracle)
                    vals = set()
                    for st, e in ends:
                        if e != "return":
                            continue
                        # returned variant: last aggregate assigned to _0 on the trace
                        v = None
                        for b in st.trace:
                            for s in fn.bbs[b]["s"]:
                                if s.get("d") == 0 and s.get("r", {}).get("k") == "agg":
                                    v = s["r"].get("variant")
                                if s.get("d") == 0 and s.get("r", {}).get("k") == "use" and "k" in s["r"]["o"]:
                                    v = s["r"]["o"]["k"].get("variant", v)
                        vals.add(v)
                    table[(z, o)] = vals
            want = {(True, False): {"Zero"}, (False, True): {"QuadraticResidue"}, (False, False): {"QuadraticNonResidue"}}
            if not ok_exp:
                rule.bad(key, "the exponent is not MODULUS_MINUS_ONE_DIV_TWO (Euler's criterion needs x^((p-1)/2))", fn.loc)
            elif table != want:
                rule.bad(key, "classification of x^((p-1)/2) is %s, expected zero -> Zero, one -> QuadraticResidue, other -> QuadraticNonResidue" % {k: sorted(map(str, v)) for k, v in table.items()}, fn.loc)
            else:
                rule.ok(key, "x^((p-1)/2): zero/one/other -> Zero/QR/QNR", fn.loc)
        else:
            names = [t["f"].get("name") for _, t in fn.calls()]
            ret = DF.expr(fn, {"c": 0}, depth=20)
            want = ("call", "legendre", (("call", "norm", (("arg", 1, ()),), (), ret[2][0][4] if isinstance(ret, tuple) and ret[0] == "call" and ret[2] and isinstance(ret[2][0], tuple) and len(ret[2][0]) > 4 else ""),), (), ret[4] if isinstance(ret, tuple) and len(ret) > 4 else "")
            # all definitions of the return value
            outs = []
            for d in fn.defs().get(0, []):
                if d[2] == "call":
                    t_ = d[3]
                    outs.append((d[0], t_["f"].get("name"), tuple(DF.expr(fn, a, depth=20) for a in t_["args"])))
                elif d[2] == "assign" and d[3]["r"]["k"] == "use":
                    e_ = DF.expr(fn, d[3]["r"]["o"], depth=20)
                    outs.append((d[0], e_[1] if isinstance(e_, tuple) and e_[0] == "call" else "?", e_[2] if isinstance(e_, tuple) and e_[0] == "call" else ()))
            cd = DF.control_deps(fn)

            def guarded_by_zero_tests(bb, coords):
                seen, st, txt = set(), [bb], ""
                while st:
                    x = st.pop()
                    for (sw, succ) in cd.get(x, ()):
                        if sw not in seen:
                            seen.add(sw)
                            st.append(sw)
                            txt += DF.show(DF.expr(fn, fn.bbs[sw]["t"]["o"], depth=20)) + ";"
                return all(("is_zero(arg1.%s)" % c) in txt for c in coords)
            is_cubic = "cubic" in fn.id
            all_ok = bool(outs)
            for bb, nm, args in outs:
                a0 = args[0] if args else None
                if nm == "legendre" and isinstance(a0, tuple) and a0[0] == "call" and a0[1] == "norm" and a0[2] == (("arg", 1, ()),):
                    continue
                if is_cubic and nm == "legendre" and a0 == ("arg", 1, ("c0",)) and guarded_by_zero_tests(bb, ("c1", "c2")):
                    continue      # N(a) = a^3 for a in the base field, and a^3 is a square iff a is
                all_ok = False
            if ret == want or (all_ok and len(outs) > 1):
                rule.ok(key, "legendre(norm(x)) on every path" + (" (base-field shortcut legendre(c0) under c1 = c2 = 0 is sound in a cubic extension)" if ret != want else ""), fn.loc)
            elif "norm" in names and "legendre" in names:
                rule.bad(key, "the Legendre symbol is legendre(norm(x)) only on some paths (result is %s): a shortcut such as c0.legendre() for elements of the base field is wrong in a quadratic extension, where every base-field element is a square" % DF.show(ret)[:120], fn.loc)
            else:
                rule.bad(key, "extension-field Legendre symbol does not go through the norm (calls: %s)" % names, fn.loc)


def check_delegate(res, facts):
    rule = res.rule("R-DELEGATE", "QuadExtField::sqrt, c1 = 0: (sqrt(c0), 0) on the residue arm, (0, sqrt(c0 / NONRESIDUE)) otherwise", 1)
    fns = [f for f in facts.fns(unit="ws", crate="ark_ff") if f.name == "sqrt" and f.self_head == QUAD and f.trait_impl == "ark_ff::fields::Field" and f.kind != "Closure"]
    if not fns:
        rule.bad("ark_ff|QuadExtField::sqrt", "anchor missing")
        return
    fn = fns[0]
    key = "ark_ff|QuadExtField::sqrt|c1=0"
    dep = DF.Dep(fn)
    cd = DF.control_deps(fn)
    maps = [(bb, t) for bb, t in fn.calls() if t["f"].get("name") == "map"]
    verdict = []
    for bb, t in maps:
        recv = op_local(t["args"][0])
        feeding = [c["f"].get("name") for _, c in dep.calls_in_slice([recv])] if recv is not None else []
        divides = "div" in feeding
        # which coordinate does the closure put the root in?
        slot = None
        for cid in closure_args(fn, t):
            clo = facts.get(cid, fn.unit)
            if clo is None:
                continue
            for cb, ct in clo.calls():
                if ct["f"].get("name") == "new" and len(ct["args"]) == 2:
                    a0, a1 = ct["args"]
                    z0 = "k" in a0 and "ZERO" in (a0["k"].get("def") or "")
                    z1 = "k" in a1 and "ZERO" in (a1["k"].get("def") or "")
                    slot = "c1" if z0 and not z1 else ("c0" if z1 and not z0 else "?")
        # guard polarity: is this arm under is_qr() true?
        qr = None
        for (sw, succ) in transitive_cd(cd, bb):
            o = fn.bbs[sw]["t"].get("o")
            l = op_local(o) if o else None
            if l is not None and any(c["f"].get("name") == "is_qr" for _, c in dep.calls_in_slice([l])):
                tt = fn.bbs[sw]["t"]
                qr = (succ == tt["else"])
        verdict.append((qr, divides, slot))
    # the same arms written in the body itself (`let a0 = self.c0.sqrt()?; Some(Self::new(a0, ZERO))`)
    for bb, t in fn.calls():
        if t["f"].get("name") != "new" or len(t["args"]) != 2:
            continue
        a0, a1 = t["args"]
        z0 = "k" in a0 and "ZERO" in (a0["k"].get("def") or "")
        z1 = "k" in a1 and "ZERO" in (a1["k"].get("def") or "")
        if z0 == z1:
            continue
        other = op_local(a1 if z0 else a0)
        feeding = [c["f"].get("name") for _, c in dep.calls_in_slice([other])] if other is not None else []
        if "sqrt" not in feeding:
            continue
        qr = None
        for (sw, succ) in transitive_cd(cd, bb):
            o = fn.bbs[sw]["t"].get("o")
            l = op_local(o) if o else None
            if l is not None and any(c["f"].get("name") == "is_qr" for _, c in dep.calls_in_slice([l])):
                tt = fn.bbs[sw]["t"]
                qr = (succ == tt["else"])
        verdict.append((qr, "div" in feeding, "c1" if z0 else "c0"))
    want = {(True, False, "c0"), (False, True, "c1")}
    if set(verdict) == want:
        rule.ok(key, "residue arm: (sqrt(c0), 0); non-residue arm: (0, sqrt(c0/beta))", fn.loc)
    else:
        rule.bad(key, "delegated arms are %s (is_qr arm, divides by NONRESIDUE, root slot); expected residue arm -> c0 without division, other arm -> c1 with division" % sorted(map(str, verdict)), fn.loc)


def check_inplace(res, facts):
    """sqrt_in_place (trait default and every override in ark-ff) has no algorithm of its own: whatever it returns is
    `sqrt(self)` stored back.  A shortcut of its own (e.g. `self.c0.sqrt_in_place()` when c1 = 0) makes the in-place entry
    point disagree with `sqrt` -- in a quadratic extension a base-field non-residue does have a root, in the other
    coordinate."""
    from rules.c07 import E, show, A, C
    rule = res.rule("R-INPLACE", "sqrt_in_place is sqrt() stored back, on every path (no algorithm of its own)", 2)
    for f in facts.fns(unit="ws", crate="ark_ff"):
        if f.kind == "Closure" or f.name != "sqrt_in_place" or "::tests::" in f.id:
            continue
        key = "ark_ff|%s" % f.id[-90:]
        switches = [b for b in f.bbs if b["t"]["k"] == "switch"]
        names = [t["f"].get("name") for _, t in f.calls() if t["f"].get("name") not in DF.TRANSPARENT]
        sq = [t for _, t in f.calls() if t["f"].get("name") == "sqrt"]
        ret = E(f, {"c": 0})
        ok_shape = len(sq) == 1 and E(f, sq[0]["args"][0]) == A(1) and not switches and sorted(names) == ["map", "sqrt"] \
            and isinstance(ret, tuple) and ret[:2] == ("call", "map") and ret[2][0] == C("sqrt", A(1))
        if ok_shape:
            rule.ok(key, "sqrt(*self).map(store back)", f.loc)
        else:
            rule.bad(key, "sqrt_in_place does more than store sqrt(self) back (calls %s, %d branch(es), returns %s): a path of its own can report no root (or a different one) where sqrt() finds one" % (sorted(set(names)), len(switches), show(ret)[:80]), f.loc)


def run(ctx, res):
    facts = ctx.facts(["ws"])
    res.analysed = facts.stats()
    check_verified(res, facts)
    check_legendre(res, facts)
    check_delegate(res, facts)
    check_inplace(res, facts)
    # legendre() of a cubic extension goes through norm(): its shortcut arms are decided under C02's R-NORM.cubic, repeated here
    from rules import c02
    c02.check_cubic_norm(res, facts)
    return {
        "level": "other",
        "explanation": "Control-dependence and dataflow rules over the MIR of the square-root and Legendre-symbol code in ark-ff: every computed root is returned only under root^2 == input, zero has the explicit arm, the Legendre classification is enumerated over its three outcomes, extension fields go through the norm, and the c1 = 0 arm of the quadratic-extension root places sqrt(c0) / sqrt(c0/beta) in the right coordinate. Completeness (a root is reported whenever one exists) is a property of the Tonelli-Shanks loop on run-time values and is NOT decided; the precomputed constants are decided under C16.",
        "assumptions": ["square() and == are correct (C01/C02)", "SQRT_PRECOMP constants (C16)"],
    }
