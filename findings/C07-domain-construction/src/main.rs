use ark_poly::{EvaluationDomain, MixedRadixEvaluationDomain, GeneralEvaluationDomain, Radix2EvaluationDomain};
use ark_test_curves::bls12_381::{Fq as NoSmall, Fr};
use ark_test_curves::bn384_small_two_adicity::Fr as BnFr;
fn main() {
    let big = (1usize << 63) + 1;
    println!("MixedRadix::<bls12_381::Fq (no small subgroup)>::new(2) = None: {:?}", std::panic::catch_unwind(|| MixedRadixEvaluationDomain::<NoSmall>::new(2).is_none()).map_err(|_| "PANIC"));
    println!("MixedRadix::<BnFr>::new(2^63+1) = None: {:?}", std::panic::catch_unwind(|| MixedRadixEvaluationDomain::<BnFr>::new(big).is_none()).map_err(|_| "PANIC"));
    println!("MixedRadix::<BnFr>::compute_size_of_domain(2^63+1) = {:?}", std::panic::catch_unwind(|| MixedRadixEvaluationDomain::<BnFr>::compute_size_of_domain(big)).map_err(|_| "PANIC"));
    println!("Radix2::<Fr>::new(2^63+1) = None: {:?}", std::panic::catch_unwind(|| Radix2EvaluationDomain::<Fr>::new(big).is_none()).map_err(|_| "PANIC"));
    println!("General::<Fr>::new(2^63+1) = None: {:?}", std::panic::catch_unwind(|| GeneralEvaluationDomain::<Fr>::new(big).is_none()).map_err(|_| "PANIC"));
    println!("MixedRadix::<BnFr>::new(17).size = {:?}", MixedRadixEvaluationDomain::<BnFr>::new(17).map(|d| d.size()));
}
