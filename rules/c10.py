"""C10 — checked deserialization only yields valid group elements: structural clauses.

  R-FLOW.validate / R-FLOW.compress   (rules/serflow.py) mode flags are never dropped.
  R-POINT   typestate over every function that deserializes an affine point (config-trait defaults in
            ark-ec, every override in curves/* and test-curves): all paths are enumerated under
            compress in {Yes,No} x validate = Yes x "worlds" (is the candidate point on the curve? in
            the subgroup?).  A normal return of Ok(non-identity point) must be impossible in a world
            where the point is outside the subgroup, and in a world where it is off the curve unless
            the point was produced by an on-curve constructor (solving the curve equation).  Helpers
            returning Result<Affine> are summarised per world; `Valid::check for Affine` is analysed
            the same way (Ok only when both tests hold).
  R-TAIL    (rules/c14.py) batched validation never splits its input with exact-size chunking that
            drops the remainder.
  R-FIELD   Fp::deserialize_with_flags: Ok only via from_bigint (range check) and the
            flag-extraction error arm.
"""
from arklib import dataflow as DF, pathsim as PS
from arklib.facts import op_local, op_place, place_parts, closure_args
from rules import serflow

UNITS = ["ws", "curves", "shapes"]
AFFINE_HEADS = ("ark_ec::models::short_weierstrass::affine::Affine", "ark_ec::models::twisted_edwards::affine::Affine")
ONCURVE_CTORS = {"get_point_from_x_unchecked", "get_ys_from_x_unchecked", "get_xs_from_y_unchecked", "get_point_from_y_unchecked"}
IDENTITY = {"identity", "zero"}
RAW = {"new_unchecked"}
PASS_THROUGH = {"branch", "ok_or", "ok_or_else", "unwrap", "expect", "into", "from", "clone", "map_err", "ok", "unwrap_or_else"}
WORLDS = [(True, True), (True, False), (False, True), (False, False)]


def returns_affine_result(fn):
    t = fn.local_ty(0)
    return t.startswith("core::result::Result<") and any(h + "<" in t.split(",")[0] for h in AFFINE_HEADS)


def root_of(st, fn, operand):
    l = op_local(operand)
    if l is None:
        return None
    seen = 0
    while l in st.refs and seen < 6:
        l = st.refs[l]
        seen += 1
    return l


class PointAnalysis:
    def __init__(self, facts):
        self.facts = facts
        self.summ = {}      # (unit, fn.id, world, compress) -> set of outcomes
        self.check_summ = {}
        self.active = set()

    def lookup(self, unit, f):
        tgt = f.get("res") or f.get("path")
        return self.facts.get(tgt, unit) or self.facts.get(f.get("path"), unit) or self.facts.get(tgt) or self.facts.get(f.get("path"))

    def check_ok(self, unit, f, world):
        """can `Valid::check` (for an affine point) return Ok in this world?  derived from its body"""
        fn = self.lookup(unit, f)
        if fn is None:
            return None
        key = (fn.id, world)
        if key in self.check_summ:
            return self.check_summ[key]
        oc, sg = world

        def oracle(st, bb, t):
            n = t["f"].get("name")
            if n == "is_on_curve":
                return oc
            if n == "is_in_correct_subgroup_assuming_on_curve":
                return sg
            if n == "branch":
                a = op_local(t["args"][0])
                return st.env.get(a, PS.UNKNOWN)
            if n == "from_residual":
                return 1
            return PS.UNKNOWN
        ends = PS.explore(fn, oracle)
        res = set()
        for st, e in ends:
            if e == "return":
                res.add(st.env.get(0, PS.UNKNOWN))
        ok = (0 in res) or (PS.UNKNOWN in res)
        self.check_summ[key] = ok
        return ok

    def analyze(self, fn, world, compress, validate=0):
        """-> list of (outcome, detail): outcome in {'err', 'ok-identity', 'ok-checked', 'ok-raw', 'ok-oncurve', 'ok-unknown'}"""
        key = (fn.unit, fn.id, world, compress)
        if key in self.summ:
            return self.summ[key]
        if key in self.active:
            return [("ok-unknown", {})]
        self.active.add(key)
        oc, sg = world
        cpar, vpar = serflow.mode_params(fn)
        init = {}
        if cpar:
            init[cpar] = compress
        if vpar:
            init[vpar] = validate
        unit = fn.unit
        pa = self

        def oracle(st, bb, t):
            f = t["f"]
            n = f.get("name")
            if f.get("trait") == "core::cmp::PartialEq" and n in ("eq", "ne") and f.get("self") in (serflow.VALIDATE, serflow.COMPRESS):
                par = vpar if f.get("self") == serflow.VALIDATE else cpar
                sides = [serflow.origin(None, fn, a) for a in t["args"]]
                consts = [x[1] for x in sides if x[0] == "variant"]
                if len(consts) != 1 or par is None:
                    return PS.UNKNOWN
                cur = "Yes" if init.get(par) == 0 else "No"
                r = consts[0] == cur
                return r if n == "eq" else (not r)
            if n == "is_on_curve":
                st.tags.append((bb, ("oc", root_of(st, fn, t["args"][0]))))
                return oc
            if n == "is_in_correct_subgroup_assuming_on_curve":
                st.tags.append((bb, ("sg", root_of(st, fn, t["args"][0]))))
                return sg
            if n == "check" and f.get("trait", "").endswith("Valid"):
                ok = pa.check_ok(unit, f, world)
                if ok is None:
                    ok = oc and sg
                st.tags.append((bb, ("check", root_of(st, fn, t["args"][0]))))
                return 0 if ok else 1
            if n == "branch" and f.get("trait", "").endswith("Try"):
                a = op_local(t["args"][0])
                return st.env.get(a, PS.UNKNOWN)
            if n == "from_residual":
                return 1
            if n == "ok_or" or n == "ok_or_else":
                a = op_local(t["args"][0])
                v = st.env.get(a, PS.UNKNOWN)
                return PS.UNKNOWN if v is PS.UNKNOWN else 1 - v
            # helpers / delegates returning Result<Affine>
            callee = pa.lookup(unit, f)
            if callee is not None and callee is not fn and returns_affine_result(callee):
                cc, cv = serflow.mode_params(callee)
                # modes passed on: take the caller's current values
                outs = pa.analyze(callee, world, compress if cc else compress, validate)
                alts = []
                seen = set()
                for o, d in outs:
                    if o == "err":
                        kd = ("err",)
                    elif o == "ok":
                        kd = (d["base"], tuple(d["evidence"]))
                    else:
                        kd = ("unknown", ())
                    if kd in seen:
                        continue
                    seen.add(kd)
                    alts.append((1 if o == "err" else 0, ("helper", kd, callee.id)))
                if alts:
                    return PS.Alt(alts)
            if f.get("name") == "deserialize_with_mode" and "Affine<" in (fn.local_ty(place_parts(t["d"])[0]) if True else ""):
                # delegation to a trait method we cannot resolve (generic P): covered by R-FLOW + that method's own analysis
                return PS.Alt([(0, ("helper", ("delegated", ()), f.get("path"))), (1, ("helper", ("err",), f.get("path")))])
            return PS.UNKNOWN
        ends = PS.explore(fn, oracle, init=init, max_states=6000, max_visits=2)
        outs = []
        for st, e in ends:
            if e == "cut":
                outs.append(("ok-unknown", {"why": "path enumeration cut"}))
                continue
            if e != "return":
                continue
            d0 = st.env.get(0, PS.UNKNOWN)
            if d0 == 1:
                outs.append(("err", {}))
                continue
            outs.append(self.classify(fn, st))
        self.active.discard(key)
        # dedupe
        seen = set()
        res = []
        for o, d in outs:
            k = (o, d.get("why"))
            if k not in seen:
                seen.add(k)
                res.append((o, d))
        self.summ[key] = res
        return res

    def classify(self, fn, st):
        """what kind of point does this Ok path return?"""
        # last Ok aggregate assigned to _0 on the trace
        payload = None
        pos = None
        for ti in range(len(st.trace) - 1, -1, -1):
            b = fn.bbs[st.trace[ti]]
            for s in reversed(b["s"]):
                if s.get("d") == 0 and s.get("r", {}).get("k") == "agg" and s["r"].get("variant") == "Ok":
                    payload = s["r"]["ops"][0]
                    pos = ti
                    break
            if payload is not None:
                break
            t = b["t"]
            if t["k"] == "call" and t.get("d") == 0 and pos is None:
                # tail delegation: return callee(...)
                tag = next((tg for (bb, tg) in st.tags if bb == st.trace[ti] and tg[0] == "helper"), None)
                if tag:
                    if tag[1][0] == "unknown":
                        return ("ok-unknown", {"why": "helper %s not understood" % tag[2]})
                    return ("ok", {"base": tag[1][0], "evidence": tuple(tag[1][1]), "calls": ()})
                return ("ok-unknown", {"why": "returns the result of %s" % t["f"].get("name")})
        if payload is None:
            return ("ok-unknown", {"why": "no Ok(..) construction found on the path"})
        names, roots, helper = self.provenance(fn, st, payload, pos)
        tags = [tg for (_, tg) in st.tags]
        evid = {tg[0] for tg in tags if tg[0] in ("oc", "sg", "check") and (tg[1] in roots or tg[1] is None)}
        if helper:
            base, hevid = helper
            evid |= set(hevid)
        elif names & IDENTITY and not (names & (RAW | ONCURVE_CTORS)):
            base = "identity"
        elif names & ONCURVE_CTORS:
            base = "oncurve"
        elif names & RAW or not names:
            base = "raw"
        else:
            return ("ok-unknown", {"why": "provenance of the returned point not understood: %s" % sorted(names)[:6]})
        return ("ok", {"base": base, "evidence": tuple(sorted(evid)), "calls": tuple(sorted(names))[:8]})

    def provenance(self, fn, st, operand, pos):
        """walk definitions backwards along the trace: set of producing call names, alias locals, helper kind"""
        names = set()
        roots = set()
        helper = None
        work = [op_local(operand)]
        seen = set()
        trace = st.trace
        tagmap = {}
        for bb, tg in st.tags:
            tagmap.setdefault(bb, []).append(tg)
        while work:
            l = work.pop()
            if l is None or l in seen:
                continue
            seen.add(l)
            roots.add(l)
            # find the last def of l on the trace
            found = False
            for ti in range(len(trace) - 1, -1, -1):
                b = fn.bbs[trace[ti]]
                t = b["t"]
                if t["k"] == "call" and place_parts(t["d"])[0] == l and not found and ti < len(trace) - 1 + 1:
                    n = t["f"].get("name")
                    hs = [tg for tg in tagmap.get(trace[ti], []) if tg[0] == "helper"]
                    if hs:
                        helper = hs[0][1]
                        found = True
                        break
                    if n in PASS_THROUGH:
                        if t["args"]:
                            work.append(op_local(t["args"][0]))
                    else:
                        names.add(n)
                        for a in t["args"]:
                            work.append(op_local(a))
                    found = True
                    break
                for s in reversed(b["s"]):
                    if "d" in s and place_parts(s["d"])[0] == l:
                        r = s["r"]
                        for p in ([op_place(o) for o in (r.get("ops") or ([r["o"]] if "o" in r else []))] + ([r["p"]] if "p" in r else [])):
                            if p is not None:
                                work.append(place_parts(p)[0])
                        found = True
                        break
                if found:
                    break
        return names, roots, helper


def check_points(res, facts):
    rule = res.rule("R-POINT", "with validation on, no path returns Ok(non-identity point) in a world where the point is off the curve / outside the subgroup", 12)
    pa = PointAnalysis(facts)
    entries = []
    for fn in facts.fns():
        if fn.unit not in UNITS or fn.kind == "Closure" or "::tests::" in fn.id:
            continue
        if returns_affine_result(fn) and (fn.name == "deserialize_with_mode" or fn.name.startswith("read_")):
            entries.append(fn)
    for fn in entries:
        cpar, vpar = serflow.mode_params(fn)
        comps = (0, 1) if cpar else (None,)
        for comp in comps:
            cname = {0: "compressed", 1: "uncompressed", None: "-"}[comp]
            key = "%s|%s|%s" % (fn.crate, fn.id[-140:], cname)
            if vpar is None and fn.name != "deserialize_with_mode":
                # helper: summarised, reported for information (judged through its callers)
                outs = pa.analyze(fn, (True, True), comp if comp is not None else 0)
                rule.ok(key + "|helper", "summary(all tests hold): %s" % sorted({(o, d.get("base"), tuple(d.get("evidence", ()))) for o, d in outs}, key=str), fn.loc)
                continue
            bad = []
            undec = []
            for world in WORLDS:
                oc, sg = world
                outs = pa.analyze(fn, world, comp if comp is not None else 0, 0)
                for o, d in outs:
                    if o == "err":
                        continue
                    if o == "ok-unknown":
                        undec.append(d.get("why", "?"))
                        continue
                    base, ev = d["base"], set(d["evidence"])
                    if base in ("identity", "delegated"):
                        continue
                    if base == "unknown":
                        undec.append("helper summary unknown")
                        continue
                    if not sg:
                        bad.append("a point outside the prime-order subgroup is accepted (tests applied to the returned point: %s)" % (sorted(ev) or "none"))
                    elif not oc and base != "oncurve":
                        bad.append("a point that does not satisfy the curve equation is accepted: coordinates are read raw and only %s is applied to the returned point" % (sorted(ev) or "nothing"))
                    elif oc and sg:
                        has_sg = bool(ev & {"sg", "check"})
                        has_oc = bool(ev & {"oc", "check"}) or base == "oncurve"
                        if not has_sg:
                            bad.append("Ok(point) is returned without the subgroup test having been applied to the returned value")
                        if not has_oc:
                            bad.append("Ok(point) is returned without the curve equation having been tested on the returned value")
            if bad:
                rule.bad(key, "; ".join(sorted(set(bad))), fn.loc)
            elif undec:
                rule.undecided(key, "; ".join(sorted(set(undec)))[:300], fn.loc)
            else:
                rule.ok(key, "4 worlds x validate=Yes", fn.loc)
    # Valid::check for the affine types: Ok iff both tests hold
    rc = res.rule("R-POINT.check", "Valid::check for affine points returns Ok only when the curve equation and the subgroup test both hold", 2)
    for fn in facts.fns():
        if fn.unit != "ws" or fn.name != "check" or not fn.trait_impl or not fn.trait_impl.endswith("Valid"):
            continue
        if fn.self_head not in AFFINE_HEADS:
            continue
        key = "%s|%s" % (fn.crate, fn.id[-120:])
        table = {w: pa.check_ok(fn.unit, {"path": fn.id}, w) for w in WORLDS}
        want = {w: (w[0] and w[1]) for w in WORLDS}
        if table == want:
            rc.ok(key, "Ok iff on-curve and in-subgroup", fn.loc)
        else:
            wrong = [("on_curve=%s,in_subgroup=%s" % w) for w in WORLDS if table[w] != want[w]]
            rc.bad(key, "check() can return Ok when %s" % "; ".join(wrong), fn.loc)


PROJ_HEADS = ("ark_ec::models::short_weierstrass::group::Projective", "ark_ec::models::twisted_edwards::group::Projective")


def check_valid_impls(res, facts):
    """Valid::check / Valid::batch_check of the projective point types (what container deserialization with validation
    calls): in each world (on curve?, in subgroup?) -- uniform over the batch -- Ok must be impossible unless both hold.
    Evidence is the curve-equation test and the configuration's subgroup predicate, directly or through the affine
    types' check / batch_check (decided by R-POINT.check); `all` / `any` over a closure take the closure's verdict.
    An ad-hoc membership test (e.g. multiplying by r through an overridable raw-limb entry point) is not evidence."""
    rule = res.rule("R-POINT.valid", "Valid::check / batch_check of projective points return Ok only when the curve equation and the subgroup predicate hold for the elements", 4)
    for fn in facts.fns(unit="ws", crate="ark_ec"):
        if fn.kind == "Closure" or fn.name not in ("check", "batch_check") or not (fn.trait_impl or "").endswith("Valid") or fn.self_head not in PROJ_HEADS:
            continue
        key = "ark_ec|%s" % fn.id[-110:]
        closures = {c.id: c for c in facts.fns(unit="ws", crate="ark_ec") if c.kind == "Closure" and c.id.startswith(fn.id + "::{closure")}
        table, unknown_calls = {}, set()
        for w in WORLDS:
            oc, sg = w

            def oracle(st, bb, t, host=fn, oc=oc, sg=sg):
                f = t["f"]
                n = f.get("name")
                if n == "is_on_curve":
                    return oc
                if n == "is_in_correct_subgroup_assuming_on_curve":
                    return sg
                if n in ("check", "batch_check") and (f.get("trait") or "").endswith("Valid"):
                    return 0 if (oc and sg) else 1
                if n == "branch" and (f.get("trait") or "").endswith("Try"):
                    a = op_local(t["args"][0])
                    return st.env.get(a, PS.UNKNOWN)
                if n == "from_residual":
                    return 1
                if n in ("all", "any") and len(t["args"]) == 2:
                    cids = closure_args(host, t)
                    clo = closures.get(cids[0]) if cids else None
                    if clo is not None:
                        vals = set()
                        for st2, e2 in PS.explore(clo, lambda s_, b_, t_: oracle(s_, b_, t_, host=clo), max_states=200):
                            if e2 == "return":
                                vals.add(st2.env.get(0, PS.UNKNOWN))
                        if len(vals) == 1 and PS.UNKNOWN not in vals:
                            return bool(vals.pop())
                    return PS.UNKNOWN
                if n in ("mul_projective", "mul_affine", "mul_bigint", "mul"):
                    unknown_calls.add(n)
                return PS.UNKNOWN
            res_ = set()
            for st, e in PS.explore(fn, oracle, max_states=2000):
                if e == "return":
                    res_.add(st.env.get(0, PS.UNKNOWN))
            table[w] = (0 in res_) or (PS.UNKNOWN in res_)
        wrong = [w for w in WORLDS if table[w] and not (w[0] and w[1])]
        if not table[(True, True)]:
            rule.bad(key, "valid points are rejected", fn.loc)
        elif wrong:
            rule.bad(key, "Ok cannot be excluded when %s: validity is not established through is_on_curve and the configuration's subgroup predicate (is_in_correct_subgroup_assuming_on_curve) on these paths%s" % (
                "; ".join("on_curve=%s, in_subgroup=%s" % w for w in wrong),
                (" -- an ad-hoc test through %s is not evidence: curve configurations override the raw-limb multiplications (e.g. GLV forms that reduce the scalar modulo r, turning `[r]P == 0` into a tautology)" % "/".join(sorted(unknown_calls))) if unknown_calls else ""), fn.loc)
        else:
            rule.ok(key, "Ok iff on-curve and in-subgroup (4 worlds)", fn.loc)


TRUNCATING = ("take_while", "take", "skip", "skip_while", "step_by", "map_while", "nth", "first", "last", "next", "split_first", "split_last", "split_at", "chunks_exact", "par_chunks_exact")


def check_valid_whole(res, facts):
    """Valid::batch_check decides a whole batch: an iterator adaptor that ends early or skips by position (take_while, take,
    skip, step_by, ...) leaves elements unchecked (filter by a per-element predicate is fine: the skipped element is decided
    by the predicate itself)."""
    rule = res.rule("R-VALID.whole", "Valid::batch_check implementations in ark-ec / ark-ff / ark-serialize traverse the whole batch: no truncating or positional iterator adaptor", 20)
    for crate in ("ark_ec", "ark_ff", "ark_serialize"):
        allf = list(facts.fns(unit="ws", crate=crate))
        for fn in allf:
            if fn.kind == "Closure" or fn.name != "batch_check" or not (fn.trait_impl or "").endswith("Valid") or "::tests::" in fn.id:
                continue
            scope = [fn] + [c for c in allf if c.kind == "Closure" and c.id.startswith(fn.id + "::{closure")]
            hits = sorted({t["f"].get("name") for g in scope for _, t in g.calls() if t["f"].get("name") in TRUNCATING and ("iter" in (t["f"].get("path") or t["f"].get("trait") or "iter").lower() or "slice" in (t["f"].get("path") or "").lower())})
            key = "%s|%s" % (crate, fn.id[-100:])
            if hits:
                rule.bad(key, "the batch is traversed through %s: elements behind the cut are never checked, so an invalid element later in the same batch is accepted" % "/".join(hits), fn.loc)
            else:
                rule.ok(key, "no truncating adaptor", fn.loc)


def check_field(res, facts):
    rule = res.rule("R-FIELD", "Fp::deserialize_with_flags returns Ok only through from_bigint (range check) after the flag-extraction error arm", 1)
    for fn in facts.fns(unit="ws", crate="ark_ff"):
        if fn.name != "deserialize_with_flags" or fn.self_head != "ark_ff::fields::models::fp::Fp":
            continue
        key = "ark_ff|Fp::deserialize_with_flags"
        calls = {t["f"].get("name"): bb for bb, t in fn.calls()}
        if "from_bigint" not in calls:
            rule.bad(key, "no from_bigint (range check) on the way to Ok: non-reduced integers would decode", fn.loc)
            continue
        if "from_u8_remove_flags" not in calls:
            rule.bad(key, "flag bits are not extracted/removed (from_u8_remove_flags missing): stray flag bits would be accepted", fn.loc)
            continue
        # every normal return with Ok passes from_bigint
        def oracle(st, bb, t):
            n = t["f"].get("name")
            if n == "branch":
                a = op_local(t["args"][0])
                return st.env.get(a, PS.UNKNOWN)
            if n == "from_residual":
                return 1
            return PS.UNKNOWN
        ends = PS.explore(fn, oracle, max_states=4000)
        okp = [st for st, e in ends if e == "return" and st.env.get(0, 0) == 0]
        miss = [st for st in okp if calls["from_bigint"] not in st.trace or calls["from_u8_remove_flags"] not in st.trace]
        if miss:
            rule.bad(key, "an Ok path bypasses from_bigint / flag extraction", fn.loc)
        else:
            rule.ok(key, "%d Ok path(s) all pass flag extraction and from_bigint" % len(okp), fn.loc)


def check_field_mode(res, facts, rule=None):
    """Fp::deserialize_with_mode: containers read their elements with Validate::No and re-validate through Valid::check, which
    is a no-op for Fp -- so the range check has to be unconditional: every path that can return Ok goes through
    deserialize_with_flags (decided by R-FIELD), whatever `validate` says."""
    rule = res.rule("R-FIELD.mode", "Fp::deserialize_with_mode reaches Ok only through deserialize_with_flags, for either value of `validate` (Valid::check of Fp is a no-op, containers rely on it)", 1)
    for fn in facts.fns(unit="ws", crate="ark_ff"):
        if fn.kind == "Closure" or fn.name != "deserialize_with_mode" or fn.self_head != "ark_ff::fields::models::fp::Fp":
            continue
        key = "ark_ff|Fp::deserialize_with_mode"
        sites = [bb for bb, t in fn.calls() if t["f"].get("name") in ("deserialize_with_flags", "deserialize_with_mode", "deserialize_compressed", "deserialize_uncompressed")
                 and "Fp" in (t["f"].get("self") or t["f"].get("path") or "Fp")]
        if not sites:
            rule.bad(key, "does not delegate to deserialize_with_flags (the range-checked reader)", fn.loc)
            continue

        def oracle(st, bb, t):
            n = t["f"].get("name")
            if n == "branch":
                a = op_local(t["args"][0])
                return st.env.get(a, PS.UNKNOWN)
            if n == "from_residual":
                return 1
            return PS.UNKNOWN
        ends = PS.explore(fn, oracle, max_states=4000)
        okp = [st for st, e in ends if e == "return" and st.env.get(0, 0) == 0]
        miss = [st for st in okp if not any(b in st.trace for b in sites)]
        if miss:
            rule.bad(key, "a path that may return Ok bypasses deserialize_with_flags (%d of %d paths): with Validate::No -- which is how Vec / array / tuple readers call it before Valid::batch_check -- integers >= p decode" % (len(miss), len(okp)), fn.loc)
        else:
            rule.ok(key, "%d Ok path(s) all pass the range-checked reader" % len(okp), fn.loc)


def check_nopanic(res, facts):
    """malformed input must be rejected, not panic: in the coordinate-recovery helpers and point readers, no division by
    (and no unwrapped inverse / square root of) a value computed from the input.  Field `Div` is `inverse().unwrap()`,
    so `a / b` with input-dependent b panics when b = 0 (e.g. a - d*y^2 on an incomplete Edwards curve)."""
    from arklib import dataflow as DF
    from rules.c07 import E, show
    rule = res.rule("R-NOPANIC", "coordinate recovery / point readers: no division by, or unwrap of an inverse / root of, an input-dependent value", 20)
    NT = DF.TRANSPARENT - {"unwrap", "expect"}
    for unit in UNITS:
        for f in facts.fns(unit=unit):
            if "::tests::" in f.id or "::test::" in f.id:
                continue
            root = f if f.kind != "Closure" else None
            pid = f.id if f.kind != "Closure" else (f.d.get("parent") or "")
            base = pid.split("::{closure")[0]
            nm = base.rsplit("::", 1)[-1]
            if not (nm.startswith(("get_xs_from_y", "get_ys_from_x", "get_point_from_")) or (nm in ("deserialize_with_mode", "deserialize_with_flags", "from_random_bytes_with_flags", "from_random_bytes") and ("short_weierstrass" in pid or "twisted_edwards" in pid or f.crate not in ("ark_ff", "ark_serialize", "ark_poly", "ark_ec") and "curves" in pid))):
                continue
            if not ("short_weierstrass" in pid or "twisted_edwards" in pid or "curves::" in pid):
                continue
            key = "%s|%s" % (f.crate, f.id[-90:])
            problems = []
            for bb, t in f.calls():
                n = t["f"].get("name")
                tr = t["f"].get("trait") or ""
                if n in ("div", "div_assign") and tr.startswith("core::ops::arith::Div") and len(t["args"]) == 2:
                    d = DF.expr(f, t["args"][1], depth=20)
                    txt = DF.show(d)
                    if "arg" in txt or "phi" in txt or d[0] in ("call", "bin"):
                        if not (d[0] == "const"):
                            problems.append("divides by %s" % txt[:80])
                if n in ("unwrap", "expect") and t["args"] and not t.get("mac"):
                    e = DF.expr(f, t["args"][0], depth=12, transparent=NT)
                    if isinstance(e, tuple) and e[0] == "call" and e[1] in ("inverse", "sqrt", "inverse_in_place"):
                        inner = DF.show(e[2][0]) if e[2] else ""
                        if "arg" in inner or "phi" in inner:
                            problems.append("unwraps %s(%s)" % (e[1], inner[:60]))
            if problems:
                rule.bad(key, "%s: for an input that makes this value zero (or a non-residue) the reader panics instead of returning an error" % "; ".join(sorted(set(problems))), f.loc)
            else:
                rule.ok(key, "no input-dependent division / unwrap", f.loc)


def check_nopanic_flags(res, facts):
    """the flag bits come from the input: for EVERY flag value (and either outcome of the zero tests on the decoded
    coordinate) no path of the compressed reader reaches `unwrap` / `expect` on an Option that is None in that world.
    Worlds are enumerated by assuming every value of the flags type to be one variant (typed world assumption);
    is_positive / is_negative / is_infinity are answered from their own bodies evaluated on that variant."""
    from arklib import pathsim as PS
    rule = res.rule("R-NOPANIC.flags", "point readers: no unwrap of a flag-derived Option that is None for some flag value of the input", 2)
    for model, fty in (("short_weierstrass", "ark_ec::models::short_weierstrass::serialization_flags::SWFlags"), ("twisted_edwards", "ark_ec::models::twisted_edwards::serialization_flags::TEFlags")):
        # variant -> discriminant bits, from the aggregates that build the variants
        discr = {}
        helpers = {}
        for f in facts.fns(unit="ws", crate="ark_ec"):
            if f.kind == "Closure":
                continue
            for bi, si, st_ in f.stmts():
                r = st_.get("r")
                if r and r.get("k") == "agg" and r.get("adt") == fty and r.get("variant"):
                    discr[r["variant"]] = r.get("dv", r.get("vidx"))
            if f.self_head == fty and f.name in ("is_positive", "is_negative", "is_infinity") and not f.trait_impl:
                helpers[f.name] = f
        readers = [f for f in facts.fns(unit="ws", crate="ark_ec") if f.kind != "Closure" and f.name == "deserialize_with_mode" and ("models::%s::" % model) in f.id and f.default_of]
        if not discr or not readers:
            rule.bad("ark_ec|%s|flags" % model, "anchor missing (flag variants / reader)")
            continue
        # truth tables of the helpers per variant
        table = {}
        for hn, h in helpers.items():
            for v, d in discr.items():
                outs = set()
                for st, e in PS.explore(h, lambda st, bb, t: PS.UNKNOWN, init={1: d}, max_states=100):
                    if e == "return":
                        outs.add((st.env.get(0, PS.UNKNOWN), st.env.get((0, 0), PS.UNKNOWN)))
                table[(hn, v)] = outs.pop() if len(outs) == 1 else None
        for fn in readers:
            key = "ark_ec|%s::deserialize_with_mode|flag worlds" % ("SWCurveConfig" if model == "short_weierstrass" else "TECurveConfig")
            cpar = next((a for a in range(1, fn.d["argc"] + 1) if fn.local_ty(a) == "ark_serialize::Compress"), None)
            bad, undec = [], []
            for v, d in sorted(discr.items()):
                def oracle(st, bb, t, v=v):
                    n = t["f"].get("name")
                    if n in helpers:
                        r = table.get((n, v))
                        if r is None or r[0] is PS.UNKNOWN:
                            return PS.UNKNOWN
                        if fn_ret_is_option(helpers[n]):
                            return PS.Adt(r[0], [r[1]])
                        return r[0]
                    if n in ("unwrap", "expect") and t["args"] and not t.get("mac"):
                        l = op_local(t["args"][0])
                        if l is not None and st.env.get(l, PS.UNKNOWN) == 0 and fn.local_ty(l).startswith("core::option::Option"):
                            st.tags.append((bb, "unwrap-of-None"))
                        return st.env.get((l, 0), PS.UNKNOWN) if l is not None else PS.UNKNOWN
                    if n == "branch":
                        return 0
                    if n in ("ok_or", "ok_or_else"):
                        return 0
                    return PS.UNKNOWN
                for comp in ((0, 1) if cpar else (None,)):
                    init = {cpar: comp} if cpar else {}
                    ends = PS.explore(fn, oracle, init=init, max_states=8000, by_type={fty: d})
                    if any(e == "cut" for _, e in ends):
                        undec.append(v)
                    for st, e in ends:
                        if any(tag == "unwrap-of-None" for _, tag in st.tags):
                            bad.append((v, "compressed" if comp == 0 else "uncompressed" if comp == 1 else "any"))
            if bad:
                rule.bad(key, "with flag bits %s the reader reaches unwrap()/expect() on an Option that is None: a byte string carrying those flag bits makes deserialization panic instead of returning an error (worlds: %s)" % (sorted({b[0] for b in bad}), sorted(set(bad))), fn.loc)
            elif undec:
                rule.undecided(key, "path enumeration cut for flag worlds %s" % undec, fn.loc)
            else:
                rule.ok(key, "%d flag worlds x compress arms: no unwrap of None reachable" % len(discr), fn.loc)


def fn_ret_is_option(fn):
    return fn.local_ty(0).startswith("core::option::Option")


def run(ctx, res):
    facts = ctx.facts(UNITS)
    res.analysed = facts.stats()
    rc = res.rule("R-FLOW.compress", "every inner (de)serialization call receives the caller's compress flag (mode-pinning wrappers: the pinned constant)", 100)
    rv = res.rule("R-FLOW.validate", "validate is passed through, or pinned to No and compensated by check/batch_check on the Yes arm", 100)
    serflow.check_flow(rc, rv, facts, UNITS)
    check_points(res, facts)
    check_field(res, facts)
    check_field_mode(res, facts)
    check_valid_whole(res, facts)
    check_valid_impls(res, facts)
    check_nopanic(res, facts)
    check_nopanic_flags(res, facts)
    # batched validation (Valid::batch_check, parallel arm included) must visit every element
    from rules import c14
    c14.check_tail(res, ctx.facts(["ws", "par", "shapes"]))
    return {
        "level": "other",
        "explanation": "Path-exhaustive typestate analysis over the MIR of every point deserializer (generic defaults in ark-ec, every override in curves/* and test-curves): paths enumerated under compress x validate=Yes x {on-curve?, in-subgroup?}; plus mode-flag propagation over all deserialize_with_mode bodies and the field-element reader. Decides that validation cannot be bypassed on any path; does NOT decide that is_on_curve / the subgroup tests compute the right answer (C03/C12) nor absence of panics inside arithmetic.",
        "assumptions": ["on-curve constructors (get_point_from_x_unchecked, get_ys_from_x_unchecked, get_xs_from_y_unchecked) only return solutions of the curve equation (C11/C03)", "points outside the prime-order subgroup exist whenever the cofactor is > 1"],
    }
