use ark_ff::biginteger::arithmetic::find_naf;

fn value(digits: &[i8]) -> i128 {
    digits.iter().rev().fold(0i128, |acc, &d| 2 * acc + d as i128)
}

fn main() {
    for x in [7u64, u64::MAX - 4, u64::MAX] {
        let naf = find_naf(&[x]);
        println!("find_naf([{:#x}]) has {} digits, reconstructs {} (want {})", x, naf.len(), value(&naf), x);
    }
    // two limbs, all ones: 2^128 - 1
    let naf = find_naf(&[u64::MAX, u64::MAX]);
    println!("find_naf([2^128 - 1]) = {:?}", naf);
}
