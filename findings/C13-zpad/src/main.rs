use ark_ff::fields::field_hashers::{DefaultFieldHasher, HashToField};
use ark_ff::{PrimeField, BigInteger};
use ark_test_curves::bls12_381::{Fq, Fr};
use sha2::{Sha256, Sha512};
fn hex(b: &[u8]) -> String { b.iter().map(|x| format!("{:02x}", x)).collect() }
fn main() {
    let dst = b"QUUX-V01-CS02-with-demo";
    let h = <DefaultFieldHasher<Sha256> as HashToField<Fr>>::new(dst);
    let e: [Fr; 2] = h.hash_to_field(b"abc");
    println!("fr_sha256 {} {}", hex(&e[0].into_bigint().to_bytes_be()), hex(&e[1].into_bigint().to_bytes_be()));
    let h = <DefaultFieldHasher<Sha512> as HashToField<Fq>>::new(dst);
    let e: [Fq; 2] = h.hash_to_field(b"abc");
    println!("fq_sha512 {} {}", hex(&e[0].into_bigint().to_bytes_be()), hex(&e[1].into_bigint().to_bytes_be()));
    let h = <DefaultFieldHasher<Sha256> as HashToField<Fq>>::new(dst);
    let e: [Fq; 2] = h.hash_to_field(b"abc");
    println!("fq_sha256 {} {}", hex(&e[0].into_bigint().to_bytes_be()), hex(&e[1].into_bigint().to_bytes_be()));
}
