"""R-CHUNK: chunked reductions are independent of the number of chunks.

For `chunks*(..).map(g).product()/sum()` (serial or rayon) the per-chunk closure `g` must not fold a
captured value of the reduction's element type into its result: the combined result would then
contain that value once per chunk.  Decided by dataflow inside the closure: no upvar whose type is the
closure's return type flows into the returned value."""
from arklib import dataflow as DF
from arklib.facts import closure_args, place_parts, op_place

CHUNKERS = {"chunks", "chunks_mut", "par_chunks", "par_chunks_mut", "chunks_exact", "par_chunks_exact", "chunks_exact_mut", "par_chunks_exact_mut"}
REDUCERS = {"product", "sum", "reduce", "fold"}


def peel(t):
    t = t.strip()
    while t.startswith("&"):
        t = t[1:].lstrip()
        if t.startswith("mut "):
            t = t[4:]
    return t


def chunk_map_closures(facts, fn):
    """closures passed to `map` in a function that also calls a chunker and a reducer"""
    names = [t["f"].get("name") for _, t in fn.calls()]
    if not (set(names) & CHUNKERS) or not (set(names) & REDUCERS):
        return []
    red = "sum" if "sum" in names and "product" not in names else ("product" if "product" in names and "sum" not in names else None)
    out = []
    for bb, t in fn.calls():
        if t["f"].get("name") in ("map", "map_with", "map_init"):
            for cid in closure_args(fn, t):
                c = facts.get(cid, fn.unit)
                if c is not None:
                    out.append((bb, t, c, red))
    return out


# operations through which a captured value may legitimately enter a per-chunk result: for a sum of
# per-chunk values, a captured *factor* (x * c, c^i) distributes over the sum; for a product, a
# captured *summand* does not arise.  Only flows that bypass these operations make the combined result
# contain the captured value once per chunk.
NEUTRAL = {
    "sum": {"mul", "mul_assign", "pow", "square", "square_in_place", "pow_with_table"},
    "product": set(),
    None: set(),
}


def seeded_upvars(clo, reduction=None):
    """indices of captured variables of the closure's return type that flow into its return value"""
    ret_ty = peel(clo.local_ty(0))
    ups = clo.d.get("upvars", [])
    cand = [i for i, u in enumerate(ups) if peel(u["ty"]) == ret_ty]
    if not cand:
        return []
    dep = DF.Dep(clo)
    neutral = NEUTRAL.get(reduction, set())

    def stop(l):
        evs = dep.events.get(l, [])
        calls = [e for e in evs if e[0] == "call"]
        return bool(calls) and all(e[2]["f"].get("name") in neutral for e in calls)
    sl = dep.slice([0], stop=stop if neutral else None)
    hits = set()
    for bi, si, s in clo.stmts():
        r = s.get("r")
        if not r:
            continue
        places = []
        if r["k"] in ("ref", "raw", "discr"):
            places.append(r["p"])
        for o in (r.get("ops") or ([r["o"]] if "o" in r else []) + ([r["a"], r["b"]] if r["k"] == "bin" else [])):
            p = op_place(o)
            if p is not None:
                places.append(p)
        for p in places:
            l, projs = place_parts(p)
            if l != 1:
                continue
            idx = next((pr[1] for pr in projs if isinstance(pr, (list, tuple)) and pr[0] == "f"), None)
            if idx in cand and place_parts(s["d"])[0] in sl:
                hits.add(idx)
    # also direct use as call arguments
    for bb, t in clo.calls():
        for a in t["args"]:
            p = op_place(a)
            if p is None:
                continue
            l, projs = place_parts(p)
            if l == 1:
                idx = next((pr[1] for pr in projs if isinstance(pr, (list, tuple)) and pr[0] == "f"), None)
                if idx in cand and place_parts(t["d"])[0] in sl:
                    hits.add(idx)
    return sorted(hits)


def check_chunks(rule, facts, units, crates=None, path_filter=None):
    n = 0
    for fn in facts.fns():
        if fn.unit not in units or (crates and fn.crate not in crates):
            continue
        if path_filter and not path_filter(fn):
            continue
        if "::tests::" in fn.id or "::test::" in fn.id:
            continue
        for bb, t, clo, red in chunk_map_closures(facts, fn):
            n += 1
            key = "%s/%s|%s|%s" % (fn.unit, fn.crate, fn.id[-110:], clo.id.rsplit("::", 1)[-1])
            hits = seeded_upvars(clo, red)
            if hits:
                rule.bad(key, "per-chunk closure folds a captured value of the accumulator type (%s) into its result; with k chunks the combined product/sum contains it k times, so the result depends on the number of chunks" % peel(clo.local_ty(0))[-60:], "%s:%s" % (clo.d.get("file"), clo.d.get("line")))
            else:
                rule.ok(key, "accumulator independent of captured values of its own type", "%s:%s" % (clo.d.get("file"), clo.d.get("line")))
    return n
