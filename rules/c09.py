"""C09 — serialization of field elements and curve points round-trips at the advertised size; field
encodings are unique: structural clauses.

  R-FLAGTABLE  for SWFlags / TEFlags / EmptyFlags: u8_bitmask of every variant occupies only the top
               BIT_SIZE bits, from_u8 inverts it on every variant, and from_u8 over all 256 byte values
               returns a variant whose mask equals the byte's flag bits or None (the table is
               enumerated, not inputs of the library).
  R-FPSIZE     Fp: writer, reader and size function use the same byte count
               buffer_byte_size(MODULUS_BIT_SIZE + F::BIT_SIZE); the flag byte is index size-1 on both
               sides; the reader extracts flags before the range-checked from_bigint (C10 R-FIELD).
  R-SIGN       one sign rule on all sides: encoder flag (y <= -y  => positive), coordinate-recovery
               helper returns (smaller, larger), decoder takes the first component under the positive
               flag (SW) / the second under the negative flag (TE): enumerated truth tables.
  R-TRIO.point writer / reader / size of the SW and TE point encodings visit the same sub-encodings
               (with-flags vs plain) per compress arm.
  Mode-flag propagation for all impls: C18 (R-FLOW).
"""
from arklib import dataflow as DF, pathsim as PS
from arklib.facts import op_local, op_place, place_parts

SWFLAGS = "ark_ec::models::short_weierstrass::serialization_flags::SWFlags"
TEFLAGS = "ark_ec::models::twisted_edwards::serialization_flags::TEFlags"
EMPTY = "ark_serialize::flags::EmptyFlags"
FP = "ark_ff::fields::models::fp::Fp"


def adt_variants(facts, path):
    for c in facts.crates:
        for a in c.adts:
            if a["id"] == path:
                return [v["name"] for v in a["variants"]]
    return None


def variant_discrs(facts, fn_u8, variants):
    """discriminant bits of each variant: read off the SwitchInt in u8_bitmask / from consts"""
    return None


def check_flagtable(res, facts):
    rule = res.rule("R-FLAGTABLE", "flag encodings: masks fit the top BIT_SIZE bits and from_u8 inverts u8_bitmask on the whole byte table", 3)
    bitsize = {}
    for c in facts.crates:
        for k in c.consts:
            if k["name"] == "BIT_SIZE" and (k.get("trait") or "").endswith("Flags"):
                bitsize[k["owner"]] = k["val"]
    for head in (SWFLAGS, TEFLAGS, EMPTY):
        fns = {f.name: f for f in facts.fns(unit="ws") if f.self_head == head and f.trait_impl and f.trait_impl.endswith("Flags") and f.kind != "Closure"}
        key = "%s|%s" % (head.split("::")[0], head.rsplit("::", 1)[-1])
        if "u8_bitmask" not in fns or "from_u8" not in fns or head not in bitsize:
            rule.bad(key, "anchor missing (u8_bitmask / from_u8 / BIT_SIZE)")
            continue
        bs = bitsize[head]
        top = (0xFF << (8 - bs)) & 0xFF if bs else 0
        mfn, dfn = fns["u8_bitmask"], fns["from_u8"]
        # decode table over all bytes: byte -> discriminant of the returned variant (or None)
        dec = {}
        undec = False
        for b in range(256):
            ends = PS.explore(dfn, lambda st, bb, t: PS.UNKNOWN, init={1: b})
            outs = set()
            for st, e in ends:
                if e != "return":
                    continue
                d0 = st.env.get(0, PS.UNKNOWN)
                if d0 == 0:
                    outs.add("None")
                elif d0 == 1:
                    pv = st.env.get((0, 0), PS.UNKNOWN)
                    outs.add("?" if pv is PS.UNKNOWN else pv)
                else:
                    outs.add("?")
            if len(outs) != 1 or "?" in outs:
                undec = True
                break
            v = outs.pop()
            dec[b] = None if v == "None" else v
        if undec:
            rule.undecided(key, "from_u8 could not be evaluated over the byte table", dfn.loc)
            continue
        variants = sorted({v for v in dec.values() if v is not None})
        # mask of each variant (by discriminant)
        masks = {}
        for v in variants:
            ends = PS.explore(mfn, lambda st, bb, t: PS.UNKNOWN, init={1: v})
            outs = {st.env.get(0, PS.UNKNOWN) for st, e in ends if e == "return"}
            if len(outs) != 1 or PS.UNKNOWN in outs:
                undec = True
                break
            masks[v] = outs.pop()
        if undec:
            rule.undecided(key, "u8_bitmask could not be evaluated", mfn.loc)
            continue
        problems = []
        nvar = len(adt_variants(facts, head) or [])
        if nvar and len(variants) != nvar:
            problems.append("from_u8 produces %d of the %d variants" % (len(variants), nvar))
        for v, m in masks.items():
            if m & ~top & 0xFF:
                problems.append("mask %#x of variant %s uses bits below the top BIT_SIZE = %d bits (they belong to the field element)" % (m, v, bs))
            if dec.get(m) != v:
                problems.append("from_u8(u8_bitmask(variant %s) = %#x) gives %s" % (v, m, dec.get(m)))
        if len(set(masks.values())) != len(masks):
            problems.append("two variants share a mask")
        for b, v in dec.items():
            if v is not None and masks[v] != (b & top):
                problems.append("byte %#x decodes to variant %s whose mask is %#x, not the byte's flag bits %#x" % (b, v, masks[v], b & top))
                break
        if problems:
            rule.bad(key, "; ".join(problems[:3]), dfn.loc)
        else:
            nn = sum(1 for v in dec.values() if v is None)
            rule.ok(key, "%d variants, masks %s, %d of 256 bytes rejected" % (len(variants), {v: hex(m) for v, m in masks.items()}, nn), dfn.loc)


def check_fpsize(res, facts):
    rule = res.rule("R-FPSIZE", "Fp writer / reader / size share one byte-count expression and the flag byte index", 3)
    fns = {f.name: f for f in facts.fns(unit="ws", crate="ark_ff") if f.self_head == FP and f.name in ("serialize_with_flags", "serialized_size_with_flags", "deserialize_with_flags") and f.kind != "Closure"}
    if len(fns) != 3:
        rule.bad("ark_ff|Fp", "anchor missing: %s" % sorted(fns))
        return
    size = fns["serialized_size_with_flags"]
    from rules.c07 import E, show

    SIZES = [("call", "buffer_byte_size", (("bin", "Add", x, y),)) for x, y in (("MODULUS_BIT_SIZE", "BIT_SIZE"), ("BIT_SIZE", "MODULUS_BIT_SIZE"))]

    def strip(t):
        """the size function applied to any receiver stands for its own return expression"""
        if isinstance(t, tuple):
            if t and t[0] == "call" and t[1] == "serialized_size_with_flags" and len(t) == 3:
                return strip(E(size, {"c": 0}))
            return tuple(strip(x) for x in t)
        return t

    def is_size(t):
        return strip(t) in SIZES

    def is_last(t):
        t = strip(t)
        return isinstance(t, tuple) and t[0] == "bin" and t[1] == "Sub" and t[2] in SIZES and t[3] == 1
    ret = E(size, {"c": 0})
    ok = is_size(ret)
    (rule.ok if ok else rule.bad)("ark_ff|Fp::serialized_size_with_flags", "returns %s; the advertised size is buffer_byte_size(MODULUS_BIT_SIZE + F::BIT_SIZE)" % show(ret), size.loc)
    # writer
    w = fns["serialize_with_flags"]
    wr = [t for bb, t in w.calls() if t["f"].get("name") in ("write_up_to", "write_all", "write")]
    idx = [t for bb, t in w.calls() if t["f"].get("name") == "index_mut"]
    same_len = bool(wr) and all(t["f"].get("name") == "write_up_to" and is_size(E(w, t["args"][-1])) for t in wr)
    flag_idx = bool(idx) and all(is_last(E(w, t["args"][1])) for t in idx)
    mask = any(t["f"].get("name") == "u8_bitmask" for _, t in w.calls())
    (rule.ok if same_len and flag_idx and mask else rule.bad)("ark_ff|Fp::serialize_with_flags", "writes size bytes, ORs u8_bitmask into byte size-1 (length ok=%s [%s], index ok=%s [%s], mask=%s)" % (same_len, [show(E(w, t["args"][-1])) for t in wr], flag_idx, [show(E(w, t["args"][1])) for t in idx], mask), w.loc)
    # reader
    r = fns["deserialize_with_flags"]
    depr = DF.Dep(r)
    rd = [t for bb, t in r.calls() if t["f"].get("name") in ("read_exact_up_to", "read_exact", "read")]
    idx = [t for bb, t in r.calls() if t["f"].get("name") == "index_mut"]
    same_len = bool(rd) and all(t["f"].get("name") == "read_exact_up_to" and is_size(E(r, t["args"][-1])) for t in rd)
    flag_idx = bool(idx) and all(is_last(E(r, t["args"][1])) for t in idx)
    rem = any(t["f"].get("name") == "from_u8_remove_flags" for _, t in r.calls())
    # uniqueness: the integer handed to the range check is the buffer content with only the flag bits removed --
    # no further masking / shifting of the decoded integer (that would silently accept stray high bits)
    fb = [t for bb, t in r.calls() if t["f"].get("name") == "from_bigint"]
    tampered = []
    if fb and fb[0]["args"]:
        sl = depr.slice([op_local(fb[0]["args"][0])]) if op_local(fb[0]["args"][0]) is not None else set()
        for bi, si, st2 in r.stmts():
            rr = st2.get("r")
            if rr and rr["k"] == "bin" and rr["op"] in ("BitAnd", "BitOr", "BitXor", "Shl", "Shr", "ShlUnchecked", "ShrUnchecked") and place_parts(st2["d"])[0] in sl:
                tampered.append(rr["op"])
        for bb, t in r.calls():
            if t["f"].get("name") in ("bitand_assign", "bitor_assign", "shr_assign", "shl_assign", "bitand", "shr", "shl") and t["args"] and op_local(t["args"][0]) is not None and (depr.slice([op_local(t["args"][0])]) & sl):
                tampered.append(t["f"]["name"])
    kk = "ark_ff|Fp::deserialize_with_flags|unique"
    if not fb:
        rule.bad(kk, "no from_bigint range check", r.loc)
    elif tampered:
        rule.bad(kk, "the decoded integer is masked/shifted (%s) before the range check: stray bits between the modulus' top bit and the flag bits are silently cleared, so non-canonical byte strings decode (encoding no longer unique)" % sorted(set(tampered)), r.loc)
    else:
        rule.ok(kk, "buffer -> to_bigint -> from_bigint with only the flag bits removed", r.loc)
    (rule.ok if same_len and flag_idx and rem else rule.bad)("ark_ff|Fp::deserialize_with_flags", "reads exactly the advertised size, removes flags from byte size-1 (length ok=%s, index ok=%s, remove ok=%s)" % (same_len, flag_idx, rem), r.loc)


def trace_component(fn, st, local):
    """which tuple component (0/1) of which call's result does `local` hold on this trace (following copies)"""
    seen = set()
    cur = local
    for _ in range(12):
        if cur in seen:
            return None
        seen.add(cur)
        found = None
        for ti in range(len(st.trace) - 1, -1, -1):
            b = fn.bbs[st.trace[ti]]
            for s in reversed(b["s"]):
                if "d" in s and place_parts(s["d"]) == (cur, []):
                    found = s["r"]
                    break
            if found:
                break
        if not found or found["k"] != "use":
            return None
        p = op_place(found["o"])
        if p is None:
            return None
        l, projs = place_parts(p)
        fields = [pr[1] for pr in projs if isinstance(pr, (list, tuple)) and pr[0] == "f"]
        if fields:
            return (l, fields[-1])
        cur = l
    return None


def check_sign(res, facts):
    rule = res.rule("R-SIGN", "encoder flag, coordinate-recovery helper and decoder implement one sign rule", 6)
    LT, EQ, GT = "<", "=", ">"

    def cmp_oracle(world):
        def oracle(st, bb, t):
            f = t["f"]
            n = f.get("name")
            if f.get("trait") == "core::cmp::PartialOrd" and n in ("le", "lt", "ge", "gt"):
                return {"le": world in (LT, EQ), "lt": world == LT, "ge": world in (GT, EQ), "gt": world == GT}[n]
            return PS.UNKNOWN
        return oracle
    # encoders: from_y_coordinate / from_x_coordinate / to_flags: coordinate <= its negation  => positive
    SWAFF_, TEAFF_ = "ark_ec::models::short_weierstrass::affine::Affine", "ark_ec::models::twisted_edwards::affine::Affine"
    for head, fname, pos, neg in ((SWFLAGS, "from_y_coordinate", "YIsPositive", "YIsNegative"), (TEFLAGS, "from_x_coordinate", "XIsPositive", "XIsNegative"),
                                  (SWAFF_, "to_flags", "YIsPositive", "YIsNegative"), (TEAFF_, "to_flags", "XIsPositive", "XIsNegative")):
        fns = [f for f in facts.fns(unit="ws", crate="ark_ec") if f.name == fname and f.self_head == head and f.kind != "Closure"]
        key = "ark_ec|%s::%s" % (head.rsplit("::", 1)[-1] if fname != "to_flags" else ("SW" if head == SWAFF_ else "TE") + "::Affine", fname)
        if not fns and fname == "to_flags":
            continue            # optional second encoder (the flags constructors above are the anchored ones)
        if not fns:
            rule.bad(key, "anchor missing")
            continue
        if fname == "to_flags" and not any(t["f"].get("trait") == "core::cmp::PartialOrd" for _, t in fns[0].calls()):
            continue            # delegates to the flags constructor (decided above)
        fn = fns[0]
        # operands in order (c, -c)?
        dep = DF.Dep(fn)
        cmps = [t for _, t in fn.calls() if t["f"].get("trait") == "core::cmp::PartialOrd"]
        oriented = False
        if cmps:
            a0, a1 = cmps[0]["args"][:2]
            n0 = [c["f"].get("name") for _, c in dep.calls_in_slice([op_local(a0)])] if op_local(a0) is not None else []
            n1 = [c["f"].get("name") for _, c in dep.calls_in_slice([op_local(a1)])] if op_local(a1) is not None else []
            oriented = "neg" in n1 and "neg" not in n0
        table = {}
        for world in (LT, EQ, GT):
            ends = PS.explore(fn, cmp_oracle(world))
            vals = set()
            for st, e in ends:
                if e != "return":
                    continue
                v = None
                for b in st.trace:
                    for s in fn.bbs[b]["s"]:
                        if s.get("d") == 0 and s.get("r", {}).get("k") == "agg":
                            v = s["r"].get("variant")
                vals.add(v)
            table[world] = vals - ({"PointAtInfinity"} if fname == "to_flags" else set())
        want = {LT: {pos}, EQ: {pos}, GT: {neg}}
        if oriented and table == want:
            rule.ok(key, "c <= -c  => %s, else %s" % (pos, neg), fn.loc)
        else:
            rule.bad(key, "sign flag is not 'positive iff c <= -c' (operands oriented c vs -c: %s; table %s)" % (oriented, {k: sorted(map(str, v)) for k, v in table.items()}), fn.loc)
    # recovery helpers: (smaller, larger)
    for head, fname in (("ark_ec::models::short_weierstrass::affine::Affine", "get_ys_from_x_unchecked"), ("ark_ec::models::twisted_edwards::affine::Affine", "get_xs_from_y_unchecked")):
        fns = [f for f in facts.fns(unit="ws", crate="ark_ec") if f.name == fname and f.self_head == head]
        key = "ark_ec|%s::%s" % ("SW" if "short" in head else "TE", fname)
        if not fns:
            rule.bad(key, "anchor missing")
            continue
        fn = fns[0]
        cmps = [t for _, t in fn.calls() if t["f"].get("trait") == "core::cmp::PartialOrd"]
        in_closure = False
        if not cmps:
            for clo in facts.closures_of(fn):
                cc = [t for _, t in clo.calls() if t["f"].get("trait") == "core::cmp::PartialOrd"]
                if cc:
                    fn, cmps, in_closure = clo, cc, True
                    break
        dep = DF.Dep(fn)
        if not cmps:
            rule.bad(key, "no comparison of the two roots", fn.loc)
            continue
        a0 = op_local(cmps[0]["args"][0])
        a1 = op_local(cmps[0]["args"][1])
        root0 = _root(fn, a0)
        root1 = _root(fn, a1)
        table = {}
        for world in (LT, GT):
            def oracle(st, bb, t, world=world):
                f = t["f"]
                n = f.get("name")
                if f.get("trait") == "core::cmp::PartialOrd" and n in ("le", "lt", "ge", "gt"):
                    return {"le": world == LT, "lt": world == LT, "ge": world == GT, "gt": world == GT}[n]
                if n == "branch":
                    return 0
                return PS.UNKNOWN
            ends = PS.explore(fn, oracle, max_states=3000)
            firsts = set()
            for st, e in ends:
                if e != "return" or (not in_closure and st.env.get(0) != 1):
                    continue
                # find the tuple aggregate placed into Some(..)
                first = None
                for b in st.trace:
                    for s in fn.bbs[b]["s"]:
                        rr = s.get("r", {})
                        if rr.get("k") == "agg" and rr.get("ak") == "tuple" and len(rr.get("ops", [])) == 2:
                            first = _root(fn, op_local(rr["ops"][0]))
                firsts.add(first)
            table[world] = firsts
        # world LT: arg0 < arg1  => first must be arg0's root; world GT: first must be arg1's root
        ok = table.get(LT) == {root0} and table.get(GT) == {root1}
        (rule.ok if ok else rule.bad)(key, "returns (smaller, larger): first component is the lesser of the two roots (table %s, roots %s/%s)" % ({k: sorted(map(str, v)) for k, v in table.items()}, root0, root1), fn.loc)
    # decoders
    for trait, model in (("SWCurveConfig", "SW"), ("TECurveConfig", "TE")):
        fns = [f for f in facts.fns(unit="ws", crate="ark_ec") if f.name == "deserialize_with_mode" and (f.default_of or "").endswith(trait)]
        key = "ark_ec|%s::deserialize_with_mode|sign selection" % trait
        if not fns:
            rule.bad(key, "anchor missing")
            continue
        fn = fns[0]
        helper = "get_ys_from_x_unchecked" if model == "SW" else "get_xs_from_y_unchecked"
        flagfn = "is_positive" if model == "SW" else "is_negative"
        # worlds are the sign variants of the flags type: every value of that type is assumed to be the variant (typed
        # world assumption), and the flag helpers are answered from their own bodies evaluated on it -- so a decoder that
        # matches on the variants directly and one that asks is_positive() are decided the same way
        fty = SWFLAGS if model == "SW" else TEFLAGS
        discr, helpers_ = {}, {}
        for g in facts.fns(unit="ws", crate="ark_ec"):
            if g.kind == "Closure":
                continue
            for _bi, _si, st_ in g.stmts():
                r_ = st_.get("r")
                if r_ and r_.get("k") == "agg" and r_.get("adt") == fty and r_.get("variant"):
                    discr[r_["variant"]] = r_.get("dv", r_.get("vidx"))
            if g.self_head == fty and g.name in ("is_positive", "is_negative", "is_infinity") and not g.trait_impl:
                helpers_[g.name] = g
        htable = {}
        for hn, h in helpers_.items():
            for v_, d_ in discr.items():
                outs_ = set()
                for st0, e0 in PS.explore(h, lambda st, bb, t: PS.UNKNOWN, init={1: d_}, max_states=100):
                    if e0 == "return":
                        outs_.add((st0.env.get(0, PS.UNKNOWN), st0.env.get((0, 0), PS.UNKNOWN)))
                htable[(hn, v_)] = outs_.pop() if len(outs_) == 1 else None
        pos_var, neg_var = ("YIsPositive", "YIsNegative") if model == "SW" else ("XIsPositive", "XIsNegative")
        table = {}
        for flagval in (True, False):
            variant = (pos_var if flagval else neg_var) if model == "SW" else (neg_var if flagval else pos_var)
            world_by_type = {fty: discr[variant]} if variant in discr else None

            def oracle(st, bb, t, flagval=flagval, variant=variant):
                n = t["f"].get("name")
                if n in helpers_ and htable.get((n, variant)) is not None and htable[(n, variant)][0] is not PS.UNKNOWN:
                    r_ = htable[(n, variant)]
                    if helpers_[n].local_ty(0).startswith("core::option::Option"):
                        return PS.Adt(r_[0], [r_[1]])
                    return r_[0]
                if n == "unwrap" and t["args"]:
                    l_ = op_local(t["args"][0])
                    pv = st.env.get((l_, 0), PS.UNKNOWN) if l_ is not None else PS.UNKNOWN
                    if pv is not PS.UNKNOWN:
                        return pv
                    return flagval if model == "SW" else PS.UNKNOWN
                if n == "branch":
                    return 0
                if n in ("ok_or", "ok_or_else"):
                    return 0
                if t["f"].get("trait") == "core::cmp::PartialEq" and t["f"].get("self", "").endswith("Validate"):
                    return False
                return PS.UNKNOWN
            ends = PS.explore(fn, oracle, init={2: 0}, max_states=6000, by_type=world_by_type)   # compress = Yes

            comps = set()
            for st, e in ends:
                if e != "return" or st.env.get(0) != 0:
                    continue
                # the coordinate passed to new_unchecked that is not the deserialized one
                for b in st.trace:
                    t = fn.bbs[b]["t"]
                    if t["k"] == "call" and t["f"].get("name") == "new_unchecked":
                        for a in t["args"]:
                            l = op_local(a)
                            c = coord_component(fn, st, l, helper)
                            if c is not None:
                                comps.add(c)
            table[flagval] = comps
        want = {True: {0}, False: {1}} if model == "SW" else {True: {1}, False: {0}}
        if table == want:
            rule.ok(key, "%s() = true selects component %d of the (smaller, larger) pair" % (flagfn, 0 if model == "SW" else 1), fn.loc)
        else:
            rule.bad(key, "decoder picks components %s of the recovered pair for flag true/false, expected %s: the encoder's sign bit would select the other root" % ({k: sorted(v) for k, v in table.items()}, {k: sorted(v) for k, v in want.items()}), fn.loc)


def _root(fn, l, depth=8):
    """follow single-definition copies to the defining local"""
    defs = fn.defs()
    for _ in range(depth):
        ds = defs.get(l, [])
        if len(ds) != 1 or ds[0][2] != "assign":
            return l
        r = ds[0][3]["r"]
        if r["k"] in ("use",) and op_local(r["o"]) is not None and not place_parts(op_place(r["o"]))[1]:
            l = op_local(r["o"])
        elif r["k"] == "ref" and not place_parts(r["p"])[1]:
            l = place_parts(r["p"])[0]
        else:
            return l
    return l


def coord_component(fn, st, local, helper):
    """if `local` on this trace is component i of the pair returned (through ok_or / ?) by `helper`, return i"""
    seen = set()
    cur = local
    comp = None
    for _ in range(20):
        if cur is None or cur in seen:
            return None
        seen.add(cur)
        found = None
        for ti in range(len(st.trace) - 1, -1, -1):
            b = fn.bbs[st.trace[ti]]
            t = b["t"]
            if t["k"] == "call" and place_parts(t["d"]) == (cur, []):
                found = ("call", t)
                break
            for s in reversed(b["s"]):
                if "d" in s and place_parts(s["d"]) == (cur, []):
                    found = ("assign", s["r"])
                    break
            if found:
                break
        if not found:
            return None
        if found[0] == "call":
            t = found[1]
            n = t["f"].get("name")
            if n == helper:
                return comp
            if n in ("ok_or", "ok_or_else", "branch", "unwrap", "expect") and t["args"]:
                cur = op_local(t["args"][0])
                continue
            return None
        r = found[1]
        if r["k"] == "use":
            p = op_place(r["o"])
            if p is None:
                return None
            l, projs = place_parts(p)
            fs = [pr for pr in projs if isinstance(pr, (list, tuple)) and pr[0] == "f"]
            dcs = [pr for pr in projs if isinstance(pr, (list, tuple)) and pr[0] == "dc"]
            if fs and not dcs:
                # field of a local: if that local is a tuple built here, continue with the operand; otherwise this is
                # the component taken from the helper's pair
                agg = None
                for ti in range(len(st.trace) - 1, -1, -1):
                    for s2 in reversed(fn.bbs[st.trace[ti]]["s"]):
                        if "d" in s2 and place_parts(s2["d"]) == (l, []):
                            agg = s2["r"]
                            break
                    if agg is not None:
                        break
                if agg is not None and agg.get("k") == "agg" and agg.get("ak") == "tuple":
                    cur = op_local(agg["ops"][fs[-1][1]])
                    continue
                if comp is None:
                    comp = fs[-1][1]
            cur = l
        elif r["k"] == "agg" and r.get("ak") == "tuple":
            return None
        else:
            return None
    return None


def point_sequence(fn, compress):
    """sequence of sub-encodings ('F' = with flags, 'M' = plain) on the successful path for a compress value"""
    cpar = next((a for a in range(1, fn.d["argc"] + 1) if fn.local_ty(a) == "ark_serialize::Compress"), None)

    def oracle(st, bb, t):
        n = t["f"].get("name")
        if n == "branch":
            return 0
        if n in ("ok_or", "ok_or_else"):
            return 0
        if n in ("is_infinity",):
            return False
        if t["f"].get("trait") == "core::cmp::PartialEq" and (t["f"].get("self") or "").endswith("Validate"):
            return False
        return PS.UNKNOWN
    init = {cpar: compress} if cpar else {}
    ends = PS.explore(fn, oracle, init=init, max_states=6000)
    seqs = set()
    for st, e in ends:
        if e != "return":
            continue
        if fn.local_ty(0).startswith("core::result::Result") and st.env.get(0, 0) != 0:
            continue
        seq = []
        for b in st.trace:
            t = fn.bbs[b]["t"]
            if t["k"] == "call" and (t["f"].get("trait") or "").startswith("ark_serialize::"):
                n = t["f"].get("name", "")
                mult = 1
                if fn.name == "serialized_size":
                    # `2 * x.uncompressed_size()`: the sub-encoding is counted with its integer multiplier
                    dl = place_parts(t["d"])[0]
                    for bi2, si2, s2 in fn.stmts():
                        r2 = s2.get("r")
                        if r2 and r2["k"] == "bin" and r2["op"].startswith("Mul"):
                            for a_, b_ in ((r2["a"], r2["b"]), (r2["b"], r2["a"])):
                                if op_local(a_) is not None and "k" in b_ and isinstance(b_["k"].get("v"), int):
                                    src = a_
                                    for _ in range(4):
                                        l_ = op_local(src)
                                        if l_ == dl:
                                            mult = b_["k"]["v"]
                                            break
                                        ds_ = fn.defs().get(l_, [])
                                        if len(ds_) == 1 and ds_[0][2] == "assign" and ds_[0][3]["r"]["k"] in ("use", "cast"):
                                            src = ds_[0][3]["r"]["o"]
                                            if op_local(src) is None:
                                                break
                                        else:
                                            break
                if "with_flags" in n:
                    seq.extend(["F"] * mult)
                elif n.startswith(("serialize", "deserialize", "serialized_size", "compressed_size", "uncompressed_size")):
                    seq.extend(["M"] * mult)
        seqs.add(tuple(seq))
    return seqs


def check_trio_points(res, facts):
    rule = res.rule("R-TRIO.point", "point writer / reader / size agree on the sequence of sub-encodings per compress arm", 4)
    for trait, model in (("SWCurveConfig", "SW"), ("TECurveConfig", "TE")):
        fns = {f.name: f for f in facts.fns(unit="ws", crate="ark_ec") if (f.default_of or "").endswith(trait) and f.name in ("serialize_with_mode", "deserialize_with_mode", "serialized_size")}
        if len(fns) != 3:
            rule.bad("ark_ec|%s" % trait, "anchor missing %s" % sorted(fns))
            continue
        for comp, cname in ((0, "compressed"), (1, "uncompressed")):
            w = point_sequence(fns["serialize_with_mode"], comp)
            r = point_sequence(fns["deserialize_with_mode"], comp)
            s = point_sequence(fns["serialized_size"], comp)
            key = "ark_ec|%s|%s" % (trait, cname)
            # the writer has two arms (infinity / finite) with the same sequence; all sets must be the same singleton
            # (the size is a sum: its sub-encodings are compared as a multiset, the writer's and reader's in order)
            if len(w) == 1 and w == r and {tuple(sorted(x)) for x in s} == {tuple(sorted(x)) for x in w} and len(s) == 1:
                rule.ok(key, "sequence %s" % list(next(iter(w))), fns["serialize_with_mode"].loc)
            else:
                rule.bad(key, "writer %s / reader %s / size %s sub-encoding sequences differ: bytes written, bytes read and the advertised size disagree" % (sorted(w), sorted(r), sorted(s)), fns["serialize_with_mode"].loc)


def check_extflags(res, facts):
    """extension-field elements carry the flag bits in their LAST coefficient only: writer and reader use the plain
    (flag-free, range-checked) codec for every other coefficient, in the same order -- otherwise stray bits in a
    middle coefficient are accepted and one element has several encodings"""
    rule = res.rule("R-EXTFLAGS", "extension-field codec: plain codec for all coefficients but the last, flags only on the last, same order on both sides", 4)
    for f in facts.fns(unit="ws", crate="ark_ff"):
        if f.kind == "Closure" or f.name not in ("deserialize_with_flags", "serialize_with_flags") or "_extension::" not in f.id:
            continue
        kind = "Quad" if "quadratic" in f.id else "Cubic"
        key = "ark_ff|%sExtField::%s" % (kind, f.name)
        seq = []
        for bb, t in f.calls():
            if (t["f"].get("trait") or "").startswith("ark_serialize"):
                n = t["f"].get("name")
                empty = any("EmptyFlags" in (x or "") for x in (t["f"].get("targs") or []))
                seq.append(("M" if empty else "F") if "with_flags" in n else ("M" if n in ("serialize_compressed", "deserialize_compressed", "serialize_with_mode", "deserialize_with_mode", "serialize_uncompressed", "deserialize_uncompressed") else n))
        want = ["M"] * (1 if kind == "Quad" else 2) + ["F"]
        if seq == want:
            rule.ok(key, "coefficients %s" % seq, f.loc)
        else:
            rule.bad(key, "coefficients are coded as %s (M = plain, F = with flags); only the last coefficient may carry (or accept) flag bits: expected %s. A flag-tolerant read of an inner coefficient accepts encodings with stray bits, so the encoding of an element is not unique" % (seq, want), f.loc)


def check_serbuf(res, facts, tier):
    """SerBuffer, the byte image of an Fp element: for N = 1..3 limbs and EVERY admitted byte count
    (8(N-1)+1 ..= 8N+1), with all limb / input bits symbolic [GF(2)-affine abstract interpretation]:
      W  copy_from_u64_slice + write_up_to emit exactly num_bytes bytes, byte k = integer bits 8k..8k+7 (little endian),
         byte 8N = the extra flag byte;
      R  read_exact_up_to + to_bigint consume exactly num_bytes bytes and rebuild the integer whose byte k is input byte k
         (bytes not read are zero), the extra byte lands in `last`;
      I  buffer[k] (Index / IndexMut, where the flags are OR-ed in and removed) is byte k of that image."""
    from arklib import bvinterp as BI
    rule = res.rule("R-SERBUF", "SerBuffer: written bytes = little-endian bytes of the limbs (+ flag byte), read bytes rebuild the same integer, buffer[k] is byte k; all limb contents, all admitted lengths [abstract interpretation]", 3)
    SB = "ark_ff::const_helpers::SerBuffer"
    fns = {f.name: f for f in facts.fns(unit="ws", crate="ark_ff") if f.kind != "Closure" and f.self_head == SB}
    need = ("copy_from_u64_slice", "write_up_to", "read_exact_up_to", "to_bigint", "get", "get_mut")
    if any(n not in fns for n in need):
        rule.bad("ark_ff|SerBuffer", "anchor missing: %s" % [n for n in need if n not in fns])
        return

    def closure_of(t):
        cty = [a for a in (t["f"].get("targs") or []) if a.startswith("{closure@")]
        cands = [c for c in facts.fns(unit="ws", crate="ark_ff") if c.kind == "Closure" and cty and cty[0] in (c.local_ty(1) or "")]
        return cands[0] if len(cands) == 1 else None

    def byte_of(v):
        if isinstance(v, bool):
            v = int(v)
        return BI.BV([0] * 64, v) if isinstance(v, int) else v

    def helper(nm, argv, t, N, model):
        """a private helper of SerBuffer called from the body (e.g. the split of the tail length): interpreted in place"""
        for key_ in (t["f"].get("res"), t["f"].get("path")):
            callee = facts.get(key_, "ws") if key_ else None
            if callee is not None and callee.kind != "Closure" and callee.crate == "ark_ff" and "const_helpers" in callee.id and callee.d["argc"] == len(argv):
                v2, _ = BI.run(callee, {i + 1: x for i, x in enumerate(argv)}, params={"N": N}, call_model=model, closure_of=closure_of, max_steps=4000)
                return v2.get(0)
        return NotImplemented

    ns = (1, 2, 3, 4) if tier == "thorough" else (1, 2, 3)
    verdict = {"W": None, "R": None, "I": None}
    cases = {"W": 0, "R": 0, "I": 0}
    for N in ns:
        def fresh():
            return BI.Struct({0: BI.Slice([BI.Slice([0] * 8) for _ in range(N)]), 1: 0})
        # ---- I: get / get_mut
        for nm in ("get", "get_mut"):
            for k in range(8 * N + 1):
                buf = BI.Struct({0: BI.Slice([BI.Slice([BI.Tok(("b", 8 * i + j)) for j in range(8)]) for i in range(N)]), 1: BI.Tok(("b", 8 * N))})
                holder = {"b": buf}
                try:
                    vals, _ = BI.run(fns[nm], {1: BI.Ref(holder, "b"), 2: k}, params={"N": N}, max_steps=2000)
                except BI.Stop as e:
                    verdict["I"] = verdict["I"] or ("undecided", "%s(%d), N = %d: %s" % (nm, k, N, e))
                    break
                r = vals.get(0)
                v = r.get() if isinstance(r, BI.Ref) else r
                cases["I"] += 1
                if not (isinstance(v, BI.Tok) and v.label == ("b", k)):
                    verdict["I"] = verdict["I"] or ("violation", "N = %d: %s(%d) refers to %s, not to byte %d of the image" % (N, nm, k, getattr(v, "label", v), k))
                    break
        for nb in range(8 * (N - 1) + 1, 8 * N + 2):
            # ---- W
            holder = {"b": fresh()}
            limbs = BI.Slice([BI.BV.word(i) for i in range(N)])
            written = []

            def wmodel(nm, argv, t):
                if nm == "write_all" and len(argv) == 2:
                    src = argv[1].get() if isinstance(argv[1], BI.Ref) else argv[1]
                    if not isinstance(src, BI.Slice):
                        raise BI.Stop("write_all of a non-slice")
                    written.extend(list(src.items))
                    return BI.Opt()                 # io::Result Ok(()) / ControlFlow::Continue: discriminant 0
                if nm == "branch":
                    return argv[0] if isinstance(argv[0], BI.Opt) else BI.Opt()
                return helper(nm, argv, t, N, wmodel)
            try:
                BI.run(fns["copy_from_u64_slice"], {1: BI.Ref(holder, "b"), 2: BI.Ref(limbs)}, params={"N": N}, closure_of=closure_of, max_steps=5000)
                holder["b"].fields[1] = BI.BV([1 << (64 * N + j) for j in range(8)] + [0] * 56)     # the extra byte: symbolic
                BI.run(fns["write_up_to"], {1: BI.Ref(holder, "b"), 2: BI.Tok("writer"), 3: nb}, params={"N": N}, call_model=wmodel, closure_of=closure_of, max_steps=8000)
            except BI.Stop as e:
                verdict["W"] = verdict["W"] or ("undecided", "N = %d, %d bytes: %s" % (N, nb, e))
            else:
                cases["W"] += 1
                if len(written) != nb:
                    verdict["W"] = verdict["W"] or ("violation", "N = %d: asked for %d bytes, %d are written" % (N, nb, len(written)))
                else:
                    for k, b_ in enumerate(written):
                        b_ = byte_of(b_)
                        for j in range(64):
                            want = (1 << (8 * k + j)) if j < 8 else 0
                            if k == 8 * N:
                                want = (1 << (64 * N + j)) if j < 8 else 0
                            row, c = b_.bit(j)
                            if row != want or c:
                                verdict["W"] = verdict["W"] or ("violation", "N = %d, %d bytes: bit %d of written byte %d is %s, expected integer bit %d" % (N, nb, j, k, _srcbits(row, c), 8 * k + j))
                                break
                        if verdict["W"]:
                            break
            # ---- R
            holder = {"b": fresh()}
            consumed = [0]

            def rmodel(nm, argv, t):
                if nm == "read_exact" and len(argv) == 2:
                    dst = argv[1].get() if isinstance(argv[1], BI.Ref) else argv[1]
                    if not isinstance(dst, BI.Slice):
                        raise BI.Stop("read_exact into a non-slice")
                    for i in range(len(dst.items)):
                        k = consumed[0]
                        dst.items[i] = BI.BV([1 << (8 * k + j) for j in range(8)] + [0] * 56)
                        consumed[0] += 1
                    return BI.Opt()
                if nm == "branch":
                    return argv[0] if isinstance(argv[0], BI.Opt) else BI.Opt()
                return helper(nm, argv, t, N, rmodel)
            try:
                BI.run(fns["read_exact_up_to"], {1: BI.Ref(holder, "b"), 2: BI.Tok("reader"), 3: nb}, params={"N": N}, call_model=rmodel, closure_of=closure_of, max_steps=8000)
                last = byte_of(holder["b"].fields[1])

                def zmodel(nm, argv, t):
                    if nm == "from" and len(argv) == 1 and isinstance(argv[0], int):
                        return BI.Struct({0: BI.Slice([argv[0]] + [0] * (N - 1))})
                    return NotImplemented
                vals, _ = BI.run(fns["to_bigint"], {1: holder["b"]}, params={"N": N}, call_model=zmodel, closure_of=closure_of, max_steps=8000)
            except BI.Stop as e:
                verdict["R"] = verdict["R"] or ("undecided", "N = %d, %d bytes: %s" % (N, nb, e))
            else:
                cases["R"] += 1
                out = vals.get(0)
                ls = out.fields[0].items if isinstance(out, BI.Struct) else None
                if consumed[0] != nb:
                    verdict["R"] = verdict["R"] or ("violation", "N = %d: asked to read %d bytes, %d are consumed" % (N, nb, consumed[0]))
                elif ls is None or len(ls) != N:
                    verdict["R"] = verdict["R"] or ("undecided", "N = %d: to_bigint result is not a BigInt" % N)
                else:
                    for i in range(N):
                        v = byte_of(ls[i]) if not isinstance(ls[i], BI.BV) else ls[i]
                        for j in range(64):
                            pos = 64 * i + j
                            want = (1 << pos) if pos // 8 < min(nb, 8 * N) else 0
                            row, c = v.bit(j)
                            if row != want or c:
                                verdict["R"] = verdict["R"] or ("violation", "N = %d, %d bytes read: integer bit %d is %s, expected %s" % (N, nb, pos, _srcbits(row, c), ("input bit %d" % pos) if want else "0"))
                                break
                        if verdict["R"]:
                            break
                    if not verdict["R"] and nb == 8 * N + 1:
                        for j in range(8):
                            if last.bit(j) != (1 << (64 * N + j), 0):
                                verdict["R"] = ("violation", "N = %d: the extra byte read is not stored in `last`" % N)
    for part, label in (("W", "copy_from_u64_slice + write_up_to"), ("R", "read_exact_up_to + to_bigint"), ("I", "Index / IndexMut")):
        key = "ark_ff|SerBuffer|%s" % label
        v = verdict[part]
        if v is None:
            rule.ok(key, "%d cases (N in %s, every admitted length), all limb / input bits symbolic" % (cases[part], list(ns)), fns["write_up_to"].loc)
        elif v[0] == "violation":
            rule.bad(key, v[1], fns["write_up_to"].loc)
        else:
            rule.undecided(key, "abstract interpretation stopped (%s)" % v[1], fns["write_up_to"].loc)


def _srcbits(row, c):
    xs = ["input bit %d" % i for i in range(row.bit_length()) if (row >> i) & 1]
    return (" ^ ".join(xs) if xs else "0") + (" ^ 1" if c else "")


def run(ctx, res):
    facts = ctx.facts(["ws"])
    res.analysed = facts.stats()
    check_flagtable(res, facts)
    check_fpsize(res, facts)
    check_sign(res, facts)
    check_trio_points(res, facts)
    check_extflags(res, facts)
    check_serbuf(res, facts, ctx.tier)
    return {
        "level": "other",
        "explanation": "Table- and path-enumeration rules over the MIR of the flag types, the Fp codec and the SW/TE point codecs: the flag byte table is enumerated completely (256 values x variants), the sign rule is enumerated over the three orderings of a coordinate and its negation on all three sides (encoder, recovery helper, decoder), size expressions are compared by dataflow, and the sub-encoding sequences of writer / reader / size are compared per compress arm. Byte-for-byte equality of a round trip and the curve-specific bls12_381 encodings are NOT decided here (flag propagation and validation: C18 / C10).",
        "assumptions": ["SerBuffer copies bytes faithfully", "PartialOrd on field elements is the integer order (C19)"],
    }
