"""C20 — compile-time literals denote the number that is written.

  R-LITERAL   literal grid decided by the compiler: /verif/witness/shapes/src/literals.rs declares constants through
              MontFp! / BigInt! for a grid of literal texts (decimal / hex / octal / binary, both prefix cases, with
              and without '-', leading zeros; values 0, 1, p-1, p, p+1, 2p+-, limb boundaries, 2^(64N)-1, random
              below and above p) over 14 modulus shapes (1..12 limbs, spare bit / no spare bit, moduli near 2^(64N)
              and near 0.7 * 2^(64N)).  rustc evaluates them (const evaluation of the real macro expansion and the real
              const fns); the driver dumps the evaluated values; this rule recomputes each expected value from the
              literal TEXT with Python integers (own parser) and compares limbs.  Finite grid, labelled as such.
  R-RADIX     the literal parser's prefix table is {0x,0X -> 16; 0o,0O -> 8; 0b,0B -> 2; none -> decimal}, the prefix is
              stripped (2 chars) before parsing, the sign is stripped (1 char) first and re-applied after; limbs are
              16 hex digits each, least significant first  (path enumeration over the MIR of ark-ff-macros).
  R-CONSTPATH the const constructors mirror the run-time path: Fp::new multiplies by R2 unless zero;
              from_sign_and_limbs negates the converted element exactly on the !is_positive arm and asserts
              len <= N; const_neg maps zero to zero and x to MODULUS - x; the const multiplication's final
              reduction subtracts iff (carry || !is_valid) on the no-spare-bit arm and iff !is_valid otherwise.
  Derive-time arithmetic (limb count, modulus limbs, roots of unity emitted by the macro) is decided under C16
  for every derived configuration including the shapes grid.
  Not decided: all literal strings x all moduli (infinite); num-bigint's parser.
"""
import json, os, re
from arklib import dataflow as DF, pathsim as PS, configs
from arklib.facts import op_local, op_place, place_parts
from rules.c07 import E, show, A, C

HERE = os.path.dirname(os.path.dirname(os.path.abspath(__file__)))
LIT_JSON = os.path.join(HERE, "witness", "shapes", "literals.json")
LIT_RS = os.path.join(HERE, "witness", "shapes", "src", "literals.rs")
FLOOR_LITERALS = 1600


def parse_literal(text):
    """independent reading of a literal: optional '-', optional 0x/0o/0b prefix (either case), digits"""
    neg = text.startswith("-")
    body = text[1:] if neg else text
    radix = 10
    if body[:2].lower() == "0x":
        radix, body = 16, body[2:]
    elif body[:2].lower() == "0o":
        radix, body = 8, body[2:]
    elif body[:2].lower() == "0b":
        radix, body = 2, body[2:]
    digits = "0123456789abcdef"[:radix]
    v = 0
    for ch in body.lower():
        d = digits.index(ch)
        v = v * radix + d
    return -v if neg else v


def limbs_of(v, n):
    return [(v >> (64 * i)) & ((1 << 64) - 1) for i in range(n)]


def check_literals(res, facts):
    rule = res.rule("R-LITERAL", "MontFp! / BigInt! constants on the literal grid equal the value written (compiler-evaluated vs recomputed from the text)", FLOOR_LITERALS)
    table = json.load(open(LIT_JSON))
    src = open(LIT_RS).read()
    reg = configs.Registry(facts, units=("shapes",))
    recs = {r["name"]: r for r in reg.recs if r.get("id", "").startswith("verif_shapes::literals::")}
    bad = 0
    for ent in table:
        name, text, n, p = ent["const"], ent["text"], ent["limbs"], int(ent["modulus"])
        key = "shapes|%s|%s(\"%s\")" % (ent["field"], ent["kind"], text if len(text) <= 40 else text[:18] + ".." + text[-18:])
        decl = 'pub const %s: ' % name
        i = src.find(decl)
        if i < 0 or ('!("%s");' % text) not in src[i:src.find("\n", i)]:
            rule.bad(key, "literals.rs does not declare %s with this text (grid file and table out of sync)" % name)
            continue
        rec = recs.get(name)
        if rec is None:
            rule.bad(key, "constant %s was not evaluated by the compiler" % name)
            continue
        v = parse_literal(text)
        val = rec["val"]
        try:
            if ent["kind"] == "MontFp":
                got = val["0"]["0"]
                want = limbs_of(((v % p) << (64 * n)) % p, n)
            else:
                got = val["0"]
                want = limbs_of(v, n)
        except Exception as e:
            rule.bad(key, "unexpected constant layout: %s" % e)
            continue
        if list(got) == want:
            rule.ok(key, "= %s" % (v if abs(v) < 10 ** 12 else "%d-bit value" % abs(v).bit_length()))
        else:
            bad += 1
            if bad <= 12:
                gv = sum(x << (64 * j) for j, x in enumerate(got))
                if ent["kind"] == "MontFp":
                    rinv = pow(1 << (64 * n), -1, p)
                    shown = "Montgomery limbs decode to %d%s" % (gv * rinv % p, " (unreduced: limbs >= p)" if gv >= p else "")
                    wanted = "%d" % (v % p)
                else:
                    shown, wanted = str(gv), str(v)
                rule.bad(key, "the constant written as \"%s\" over p = %s (%d limbs) is evaluated to a different number: %s, expected %s" % (text if len(text) < 60 else text[:60] + "...", str(p) if p < 10 ** 30 else "%d-bit prime" % p.bit_length(), n, shown if len(shown) < 200 else shown[:200] + "...", wanted if len(wanted) < 80 else wanted[:80] + "..."), "witness/shapes/src/literals.rs")
            else:
                rule.bad(key, "evaluates to a different number than written")
    return len(table)


# ---- R-RADIX ---------------------------------------------------------------------------------------------

def check_radix(res, facts):
    rule = res.rule("R-RADIX", "literal parser: prefix -> radix table, prefix and sign stripped before parsing, sign re-applied, 16 hex digits per limb (little-endian)", 9)
    fns = [f for f in facts.fns(unit="ws", crate="ark_ff_macros") if f.id == "ark_ff_macros::utils::str_to_limbs_u64"]
    if not fns:
        rule.bad("ark_ff_macros|str_to_limbs_u64", "anchor missing")
        return
    fn = fns[0]
    want = {"": ("from_str", 10), "0x": ("from_str_radix", 16), "0X": ("from_str_radix", 16), "0o": ("from_str_radix", 8), "0O": ("from_str_radix", 8),
            "0b": ("from_str_radix", 2), "0B": ("from_str_radix", 2)}
    for prefix, (pf, radix) in want.items():
        for neg in (False, True):
            key = "ark_ff_macros|str_to_limbs_u64|%s%s" % ("-" if neg else "", prefix or "decimal")

            def oracle(st, bb, t, prefix=prefix, neg=neg):
                if t["f"].get("name") == "starts_with":
                    k = t["args"][1].get("k", {})
                    if k.get("ty") == "char":
                        return neg if k.get("v") == 45 else False
                    if "str" in k:
                        return prefix != "" and k["str"] == prefix
                    return PS.UNKNOWN
                return PS.UNKNOWN
            ends = PS.explore(fn, oracle, max_states=400)
            outcomes = set()
            for st, e in ends:
                if e != "return":
                    continue
                parse, strip, negs, sign_strip = None, None, 0, None
                for bb, t in st.calls:
                    n_ = t["f"].get("name")
                    if n_ in ("from_str_radix", "from_str"):
                        parse = (n_, E(fn, t["args"][1]) if n_ == "from_str_radix" else 10)
                        src = E(fn, t["args"][0])
                        strip = src[2][1] if isinstance(src, tuple) and src[0] == "call" and src[1] == "index" else None
                    if n_ == "neg":
                        negs += 1
                    if n_ == "index":
                        ix = E(fn, t["args"][1])
                        if ix == ("agg", "RangeFrom", (1,)):
                            sign_strip = 1
                outcomes.add((parse, strip, negs, sign_strip))
            exp_strip = ("agg", "RangeFrom", (2,)) if prefix else None
            exp = {((pf, radix), exp_strip, 1 if neg else 0, 1 if neg else None)}
            if outcomes == exp:
                rule.ok(key, "%s radix %d%s%s" % (pf, radix, ", 2 prefix chars stripped" if prefix else "", ", '-' stripped and re-applied" if neg else ""), fn.loc)
            else:
                rule.bad(key, "a literal %s is parsed as %s; expected parser %s with radix %d, prefix strip %s, negations %d" % (
                    ("starting with '%s%s'" % ("-" if neg else "", prefix)) if (prefix or neg) else "without prefix",
                    sorted((str(o[0]), show(o[1]) if o[1] else None, o[2], o[3]) for o in outcomes), pf, radix, "[2..]" if prefix else "none", 1 if neg else 0), fn.loc)
    # limb assembly: to_radix_le(16), chunks(16), closure: this += (hexit as u64) << (4*i)
    key = "ark_ff_macros|str_to_limbs_u64|limb-assembly"
    calls = {t["f"].get("name"): t for _, t in fn.calls()}
    problems = []
    if "to_radix_le" not in calls or E(fn, calls["to_radix_le"]["args"][1]) != 16:
        problems.append("digits are not produced in little-endian base 16")
    if "chunks" not in calls or E(fn, calls["chunks"]["args"][1]) != 16:
        problems.append("digits are not grouped 16 per limb")
    clos = [f for f in facts.fns(unit="ws", crate="ark_ff_macros") if f.kind == "Closure" and (f.d.get("parent") or "").endswith("str_to_limbs_u64")]
    okshift = False
    for c in clos:
        for bi, si, s in c.stmts():
            r = s.get("r")
            if r and r["k"] == "bin" and r["op"].startswith("Shl"):
                sh = E(c, r["b"])
                if isinstance(sh, tuple) and sh[0] == "bin" and sh[1] == "Mul" and 4 in (sh[2], sh[3]):
                    okshift = True
    if not okshift:
        problems.append("hex digit i of a chunk is not shifted by 4*i")
    (rule.bad if problems else rule.ok)(key, "; ".join(problems) if problems else "to_radix_le(16), chunks(16), digit i shifted by 4*i", fn.loc)


# ---- R-CONSTPATH -----------------------------------------------------------------------------------------

FP = "ark_ff::fields::models::fp::Fp"


def fp_fns(facts):
    out = {}
    for f in facts.fns(unit="ws", crate="ark_ff"):
        if f.kind != "Closure" and f.self_head == FP and "montgomery_backend" in (f.d.get("file") or ""):
            out.setdefault(f.name, f)
    return out


def called_on_paths(fn, oracle_map):
    """enumerate paths with the given call-name -> bool answers; return set of frozenset(call names executed)"""
    def oracle(st, bb, t):
        n = t["f"].get("name")
        if n in oracle_map:
            return oracle_map[n]
        return PS.UNKNOWN
    outs = set()
    for st, e in PS.explore(fn, oracle, max_states=200):
        if e == "return":
            outs.add(frozenset(t["f"].get("name") for _, t in st.calls))
    return outs


def check_constpath(res, facts):
    rule = res.rule("R-CONSTPATH", "const constructors: new = mul by R2 unless zero; from_sign_and_limbs negates exactly on !is_positive; const_neg; final reduction iff carry || !is_valid", 6)
    fns = fp_fns(facts)
    # const_subtract_modulus_with_carry
    fn = fns.get("const_subtract_modulus_with_carry")
    key = "ark_ff|Fp::const_subtract_modulus_with_carry"
    if fn is None:
        rule.bad(key, "anchor missing")
    else:
        table = {}
        for carry in (False, True):
            for valid in (False, True):
                def oracle(st, bb, t, valid=valid):
                    return valid if t["f"].get("name") == "const_is_valid" else PS.UNKNOWN
                subs = set()
                for st, e in PS.explore(fn, oracle, init={2: carry}, max_states=100):
                    if e == "return":
                        subs.add(any(t["f"].get("name") == "sub_with_borrow" for _, t in st.calls))
                table[(carry, valid)] = subs
        want = {(c, v): {c or not v} for c in (False, True) for v in (False, True)}
        if table == want:
            rule.ok(key, "subtracts the modulus iff carry || !is_valid (4 cases)", fn.loc)
        else:
            wrong = {k: sorted(v) for k, v in table.items() if v != want[k]}
            rule.bad(key, "final reduction of the const multiplication: for (carry, value < p) in %s the modulus is %s; a product in [p, 2^(64N)) or with a carry would stay unreduced, so the constant differs from the run-time element" % (sorted(wrong), "subtracted on " + str(wrong)), fn.loc)
    fn = fns.get("const_subtract_modulus")
    key = "ark_ff|Fp::const_subtract_modulus"
    if fn is None:
        rule.bad(key, "anchor missing")
    else:
        table = {}
        for valid in (False, True):
            def oracle(st, bb, t, valid=valid):
                return valid if t["f"].get("name") == "const_is_valid" else PS.UNKNOWN
            table[valid] = {any(t["f"].get("name") == "sub_with_borrow" for _, t in st.calls) for st, e in PS.explore(fn, oracle, max_states=100) if e == "return"}
        ok = table == {False: {True}, True: {False}}
        (rule.ok if ok else rule.bad)(key, "subtracts iff !is_valid" if ok else "reduction table %s" % table, fn.loc)
    # mul (const): spare-bit arm -> const_subtract_modulus, otherwise with_carry(carry of mul_without_cond_subtract)
    fn = fns.get("mul")
    key = "ark_ff|Fp::mul(const)"
    if fn is None:
        rule.bad(key, "anchor missing")
    else:
        problems = []
        calls = {t["f"].get("name"): t for _, t in fn.calls()}
        if not {"mul_without_cond_subtract", "const_subtract_modulus", "const_subtract_modulus_with_carry"} <= set(calls):
            problems.append("calls %s" % sorted(calls))
        else:
            prod = C("mul_without_cond_subtract", A(1), A(2))
            a0 = E(fn, calls["const_subtract_modulus_with_carry"]["args"][0])
            a1 = E(fn, calls["const_subtract_modulus_with_carry"]["args"][1])
            b0 = E(fn, calls["const_subtract_modulus"]["args"][0])
            if not (_is_field(a0, prod, "1") and _is_field(a1, prod, "0") and _is_field(b0, prod, "1")):
                problems.append("reduction is applied to %s with carry %s" % (show(a0), show(a1)))
            sw = [E(fn, b["t"]["o"]) for b in fn.bbs if b["t"]["k"] == "switch"]
            if "MODULUS_HAS_SPARE_BIT" not in sw:
                problems.append("arms are not selected by MODULUS_HAS_SPARE_BIT (%s)" % [show(x) for x in sw])
            else:
                # spare-bit true arm must be the carry-less one
                for bi, b in enumerate(fn.bbs):
                    t = b["t"]
                    if t["k"] == "switch" and E(fn, t["o"]) == "MODULUS_HAS_SPARE_BIT":
                        false_t, true_t = t["tgts"][0], t["else"]
                        wc = [bb for bb, tt in fn.calls() if tt["f"].get("name") == "const_subtract_modulus_with_carry"][0]
                        if not _reach(fn, false_t, wc) or _reach(fn, true_t, wc):
                            problems.append("the carry-aware reduction is on the spare-bit arm")
        (rule.bad if problems else rule.ok)(key, "; ".join(problems) if problems else "spare bit: reduce iff >= p; no spare bit: reduce with the carry of the multiplication", fn.loc)
    # new
    fn = fns.get("new")
    key = "ark_ff|Fp::new"
    if fn is None:
        rule.bad(key, "anchor missing")
    else:
        muls = [t for _, t in fn.calls() if t["f"].get("name") == "mul"]
        ok = len(muls) == 1
        if ok:
            rhs = E(fn, muls[0]["args"][1])
            ok = rhs == "R2" or (isinstance(rhs, tuple) and rhs[0] == "agg" and rhs[2][:1] == ("R2",))
        outs = called_on_paths(fn, {"const_is_zero": True}) | set()
        outs2 = called_on_paths(fn, {"const_is_zero": False})
        ok = ok and all("mul" not in o for o in outs) and all("mul" in o for o in outs2)
        (rule.ok if ok else rule.bad)(key, "zero stays zero, otherwise multiplied by R2 (conversion to Montgomery form)" if ok else "conversion to Montgomery form is not `x * R2 unless x == 0` (mul calls: %s)" % [show(E(fn, m["args"][1])) for m in muls], fn.loc)
    # from_sign_and_limbs
    fn = fns.get("from_sign_and_limbs")
    key = "ark_ff|Fp::from_sign_and_limbs"
    if fn is None:
        rule.bad(key, "anchor missing")
    else:
        problems = []
        for pos in (False, True):
            outs = set()
            for st, e in PS.explore(fn, lambda st, bb, t: PS.UNKNOWN, init={1: pos}, max_states=300, max_visits=3):
                if e == "return":
                    names = [t["f"].get("name") for _, t in st.calls]
                    outs.add(("const_neg" in names, "new" in names, names.index("new") < names.index("const_neg") if "const_neg" in names and "new" in names else None))
            want = {(not pos, True, True if not pos else None)}
            if outs != want:
                problems.append("is_positive = %s: (negated, converted, convert-before-negate) = %s" % (pos, sorted(outs, key=str)))
        negs = [t for _, t in fn.calls() if t["f"].get("name") == "const_neg"]
        if negs and E(fn, negs[0]["args"][0])[:2] != ("call", "new"):
            problems.append("const_neg is applied to %s, not to the converted element" % show(E(fn, negs[0]["args"][0])))
        # length assertion
        asserts = [E(fn, b["t"]["o"]) for b in fn.bbs if b["t"]["k"] == "switch"]
        if not any(isinstance(c, tuple) and c[0] == "bin" and c[1] == "Le" and c[2] == C("len", A(2)) for c in asserts):
            problems.append("no assertion limbs.len() <= N")
        (rule.bad if problems else rule.ok)(key, "; ".join(problems) if problems else "new(limbs) then const_neg exactly when !is_positive; len <= N asserted", fn.loc)
    # const_neg
    fn = fns.get("const_neg")
    key = "ark_ff|Fp::const_neg"
    if fn is None:
        rule.bad(key, "anchor missing")
    else:
        z = called_on_paths(fn, {"const_is_zero": True})
        nz = called_on_paths(fn, {"const_is_zero": False})
        subs = [t for _, t in fn.calls() if t["f"].get("name") == "sub_with_borrow"]
        ok = all("sub_with_borrow" not in o for o in z) and all("sub_with_borrow" in o for o in nz) and len(subs) == 1
        if ok:
            a0, a1 = E(fn, subs[0]["args"][0]), E(fn, subs[0]["args"][1])
            ok = a0 == "MODULUS" and a1 == A(1, "0")
        (rule.ok if ok else rule.bad)(key, "0 -> 0, x -> MODULUS - x" if ok else "negation is not `0 -> 0, x -> MODULUS - x` (operands %s)" % [(show(E(fn, s["args"][0])), show(E(fn, s["args"][1]))) for s in subs], fn.loc)


def _is_field(t, base, f):
    if isinstance(t, tuple) and t[0] == "call" and len(t) > 3 and t[:3] == base[:3] and t[3] == (f,):
        return True
    return False


def _reach(fn, a, b):
    succ = fn.succ()
    seen, st = set(), [a]
    while st:
        x = st.pop()
        if x == b:
            return True
        if x in seen:
            continue
        seen.add(x)
        st.extend(succ[x])
    return False


def run(ctx, res):
    facts = ctx.facts(["ws", "shapes"])
    res.analysed = facts.stats()
    n = check_literals(res, facts)
    check_radix(res, facts)
    check_constpath(res, facts)
    # derive-time arithmetic: the constants emitted by #[derive(MontConfig)] for every modulus of the shapes grid
    # (1..13 limbs, two-adicity up to 130, special-form primes) against their recomputation from the modulus
    from rules import c16
    cx = c16.Ctx(res, configs.Registry(facts, units=("shapes",)))
    cx.facts = facts
    c16.check_prime_fields(cx)
    return {
        "level": "other",
        "explanation": "A grid of %d literal constants (MontFp! and BigInt!, all radices and prefix cases, both signs, leading zeros, boundary and random values below and above p, 14 modulus shapes from 1 to 12 limbs including no-spare-bit moduli near 2^(64N) and near 0.7*2^(64N)) is evaluated by rustc's const evaluator on the real macro expansion and const fns; the evaluated limbs are compared with an independent Python reading of the literal text.  Path enumeration over the MIR of the literal parser in ark-ff-macros decides the prefix/radix/sign table; truth-table and expression rules decide the const conversion path (new, from_sign_and_limbs, const_neg, final reduction).  All strings x all moduli is infinite and NOT decided; num-bigint's digit parser is trusted; derive-time arithmetic is decided under C16." % n,
        "assumptions": ["rustc's const evaluator implements the const fns' semantics", "num-bigint parses digit strings correctly"],
        "trusted_base": ["rustc const evaluation", "arkfacts constant decoder", "Python integer arithmetic"],
    }
