"""C04 — every scalar-multiplication path computes k*P: structural clauses.

  R-DAA        loop-recurrence typing of every double-and-add / square-and-multiply loop: accumulator
               starts at the identity, the bit stream is most-significant-first, the accumulator is
               doubled (squared) before the conditional add (multiply) of the base in each iteration,
               the add is control dependent on the bit, and the accumulator is what is returned.
  R-RAWSCALAR  entry points that take the scalar as raw limbs (`mul_projective`, `mul_affine`,
               `mul_bigint`) do not pass it through a conversion into the scalar field (which reduces
               modulo r and asserts a limb count): k*P must hold for integers >= r, for longer limb
               slices and for points outside the prime-order subgroup.
  R-WNAF       window guards: WnafContext::new asserts 2 <= w < 64; mul_with_table returns None unless
               the table has 2^(w-1) entries, built as odd multiples (base += 2*base).
  GLV constants / lattice bases: C16 (R-CONST.curve).
"""
from arklib import dataflow as DF
from arklib.facts import op_local, op_place, place_parts, closure_args
from rules.c05 import root_key

UNITS = ["ws", "curves"]
DOUBLERS = {"double_in_place": "add", "square_in_place": "mul"}
ADDERS = {"add": {"add_assign", "add"}, "mul": {"mul_assign", "mul"}}
IDENT = {"add": "zero", "mul": "one"}
BE_CTORS = {"new", "without_leading_zeros"}
REDUCING = {"from_sign_and_limbs", "from_bigint", "from_le_bytes_mod_order", "from_be_bytes_mod_order", "from_random_bytes", "from_bits_be", "from_bits_le", "new", "new_unchecked"}
RAW_ENTRY = {"mul_projective", "mul_affine", "mul_bigint"}


def loop_blocks(fn):
    """blocks lying on a cycle (non-trivial strongly connected components, iterative Tarjan)"""
    succ = fn.succ()
    n = len(succ)
    index = [None] * n
    low = [0] * n
    on = [False] * n
    stack = []
    out = set()
    counter = 0
    for root in range(n):
        if index[root] is not None:
            continue
        work = [(root, 0)]
        while work:
            v, i = work.pop()
            if i == 0:
                index[v] = low[v] = counter
                counter += 1
                stack.append(v)
                on[v] = True
            recurse = False
            ss = succ[v]
            while i < len(ss):
                w = ss[i]
                i += 1
                if index[w] is None:
                    work.append((v, i))
                    work.append((w, 0))
                    recurse = True
                    break
                elif on[w]:
                    low[v] = min(low[v], index[w])
            if recurse:
                continue
            if low[v] == index[v]:
                comp = []
                while True:
                    w = stack.pop()
                    on[w] = False
                    comp.append(w)
                    if w == v:
                        break
                if len(comp) > 1 or v in succ[v]:
                    out.update(comp)
            if work:
                u = work[-1][0]
                low[u] = min(low[u], low[v])
    return out


def check_daa(res, facts):
    rule = res.rule("R-DAA", "double-and-add loops: identity start, MSB-first bits, double before conditional add of the base, accumulator returned", 6)
    hosts = {}
    for fn in facts.fns(unit="ws"):
        if fn.crate not in ("ark_ec", "ark_ff") or fn.kind == "Closure" or "::tests::" in fn.id:
            continue
        loops = loop_blocks(fn)
        if not loops:
            continue
        dbl = [(bb, t) for bb, t in fn.calls() if bb in loops and t["f"].get("name") in DOUBLERS]
        if len(dbl) != 1:
            continue
        dbb, dt = dbl[0]
        kind = DOUBLERS[dt["f"]["name"]]
        adds = [(bb, t) for bb, t in fn.calls() if bb in loops and t["f"].get("name") in ADDERS[kind] and (t["f"].get("trait") or "").startswith("core::ops::arith::")]
        nexts = [(bb, t) for bb, t in fn.calls() if bb in loops and t["f"].get("name") == "next"]
        others = [t for bb, t in fn.calls() if bb in loops and t["f"].get("name") in ("sub_assign", "sub", "index", "get")]
        if len(adds) != 1 or len(nexts) != 1 or others:
            continue   # joint / signed-digit / table-based loops are outside this template
        abb, at = adds[0]
        key = "%s|%s" % (fn.crate, fn.id[-110:])
        dep = DF.Dep(fn)
        cd = DF.control_deps(fn)
        acc = root_key(fn, dt["args"][0])
        acc2 = root_key(fn, at["args"][0])
        problems = []
        if acc is None or acc != acc2:
            problems.append("the value that is doubled is not the accumulator that is added to (accumulator/base roles mixed: LSB-first form on an MSB-first stream)")
        # double executes before the add in an iteration: the doubling block dominates the adding block
        if not fn.dominates(dbb, abb):
            problems.append("the conditional add is not preceded by the doubling in the iteration (add-then-double on a most-significant-first stream computes a different multiple)")
        # add is conditional on the bit: control dependent on a switch fed by the iterator's next()
        nl = place_parts(nexts[0][1]["d"])[0]
        guarded = False
        for (sw, s) in cd.get(abb, ()):
            o = fn.bbs[sw]["t"].get("o")
            l = op_local(o) if o else None
            if l is not None and nl in dep.slice([l]):
                guarded = True
        if not guarded:
            problems.append("the add is not conditional on the current bit")
        if fn.dominates(abb, dbb) and abb != dbb:
            problems.append("add dominates the doubling")
        # base operand of the add is a parameter (self / base), not the accumulator
        b_root = root_key(fn, at["args"][1]) if len(at["args"]) > 1 else None
        if b_root is not None and b_root == acc:
            problems.append("the accumulator is added to itself")
        # identity start
        inits = [t["f"].get("name") for bb, t in fn.calls() if bb not in loops and t["f"].get("name") in ("zero", "one")]
        if IDENT[kind] not in inits:
            problems.append("accumulator is not initialised with %s()" % IDENT[kind])
        # bit order
        ctors = [t for bb, t in fn.calls() if t["f"].get("self_head", "").startswith("ark_ff::bits::BitIterator")]
        if ctors:
            head = ctors[0]["f"]["self_head"].rsplit("::", 1)[-1]
            if head != "BitIteratorBE":
                problems.append("bits are produced by %s (least-significant first) but consumed by a double-then-add recurrence" % head)
            rev = [t for bb, t in fn.calls() if t["f"].get("name") == "rev"]
            if rev:
                problems.append("bit iterator is reversed")
        hosts[fn.id] = not problems
        if problems:
            rule.bad(key, "; ".join(problems), fn.loc)
        else:
            rule.ok(key, "%s-then-%s on %s" % (dt["f"]["name"], at["f"]["name"], "BitIteratorBE" if ctors else "caller-supplied MSB-first stream"), fn.loc)
    hosts.update(check_daa_fold(rule, facts))
    # entry points that hand the whole job to one of the loops above (a shared helper): one instance each
    for fn in facts.fns(unit="ws"):
        if fn.crate not in ("ark_ec", "ark_ff") or fn.kind == "Closure" or "::tests::" in fn.id or fn.id in hosts:
            continue
        for bb, t, callee in DF.local_callees(facts, fn):
            if callee.id in hosts and fn.name in RAW_ENTRY | {"pow", "pow_with_table", "mul_bigint"}:
                key = "%s|%s" % (fn.crate, fn.id[-110:])
                (rule.ok if hosts[callee.id] else rule.bad)(key, "delegates to %s (%s)" % (callee.name, "decided above" if hosts[callee.id] else "which violates the recurrence"), fn.loc)
                break


def check_daa_fold(rule, facts):
    """the same recurrence written as `bits.fold(identity, |mut acc, bit| { acc.double(); if bit { acc += base }; acc })`"""
    from rules.c07 import E, show
    hosts = {}
    for fn in facts.fns(unit="ws"):
        if fn.crate not in ("ark_ec", "ark_ff") or fn.kind == "Closure" or "::tests::" in fn.id:
            continue
        for bb, t in fn.calls():
            if t["f"].get("name") != "fold" or len(t["args"]) != 3:
                continue
            clos = [facts.get(cid, fn.unit) for cid in closure_args(fn, t)]
            clos = [c for c in clos if c is not None]
            if len(clos) != 1:
                continue
            c = clos[0]
            if c.local_ty(3) != "bool":
                continue        # not a fold over a bit stream (e.g. the MSM window recombination: C05)
            dbl = [(b2, t2) for b2, t2 in c.calls() if t2["f"].get("name") in DOUBLERS]
            if len(dbl) != 1:
                continue
            dbb, dt = dbl[0]
            kind = DOUBLERS[dt["f"]["name"]]
            adds = [(b2, t2) for b2, t2 in c.calls() if t2["f"].get("name") in ADDERS[kind] and (t2["f"].get("trait") or "").startswith("core::ops::arith::")]
            others = [t2 for b2, t2 in c.calls() if t2["f"].get("name") in ("sub_assign", "sub", "index", "get")]
            if len(adds) != 1 or others:
                continue
            abb, at = adds[0]
            key = "%s|%s" % (fn.crate, fn.id[-110:])
            problems = []
            acc, acc2 = root_key(c, dt["args"][0]), root_key(c, at["args"][0])
            if acc is None or acc != acc2 or acc != ("local", 2) and acc != 2 and str(acc).find("2") < 0:
                if acc is None or acc != acc2:
                    problems.append("the value that is doubled is not the accumulator that is added to")
            if not c.dominates(dbb, abb):
                problems.append("the conditional add is not preceded by the doubling in the iteration")
            cd = DF.control_deps(c)
            dep = DF.Dep(c)
            guarded = False
            for (sw, s_) in cd.get(abb, ()):
                o = c.bbs[sw]["t"].get("o")
                l = op_local(o) if o else None
                if l is not None and (l == 3 or 3 in dep.slice([l])):
                    guarded = True
            if not guarded:
                problems.append("the add is not conditional on the current bit")
            b_root = root_key(c, at["args"][1]) if len(at["args"]) > 1 else None
            if b_root is not None and b_root == acc:
                problems.append("the accumulator is added to itself")
            init = E(fn, t["args"][1])
            if init != {"zero": 0, "one": 1}[IDENT[kind]] and init != ("call", IDENT[kind], ()):
                problems.append("accumulator is not initialised with %s() (fold starts from %s)" % (IDENT[kind], show(init)[:60]))
            src = show(E(fn, t["args"][0]))
            ctors = [t2 for _, t2 in fn.calls() if t2["f"].get("self_head", "").startswith("ark_ff::bits::BitIterator")]
            if ctors:
                head = ctors[0]["f"]["self_head"].rsplit("::", 1)[-1]
                if head != "BitIteratorBE":
                    problems.append("bits are produced by %s (least-significant first) but consumed by a double-then-add recurrence" % head)
                if any(t2["f"].get("name") == "rev" for _, t2 in fn.calls()):
                    problems.append("bit iterator is reversed")
            # the fold's result is what the function returns
            if E(fn, {"c": 0}) != E(fn, {"c": place_parts(t["d"])[0]}) and place_parts(t["d"])[0] != 0:
                problems.append("the folded accumulator is not what is returned")
            hosts[fn.id] = not problems
            if problems:
                rule.bad(key, "; ".join(problems), fn.loc)
            else:
                rule.ok(key, "fold(%s(), |acc, bit| %s-then-%s) on %s" % (IDENT[kind], dt["f"]["name"], at["f"]["name"], "BitIteratorBE" if ctors else src[:40]), fn.loc)
    return hosts


def check_rawscalar(res, facts):
    rule = res.rule("R-RAWSCALAR", "raw-limb scalar entry points never convert the scalar into the scalar field (reduction mod r / limb-count assertion) before multiplying", 8)
    for fn in facts.fns():
        if fn.unit not in UNITS or fn.kind == "Closure" or fn.name not in RAW_ENTRY or "::tests::" in fn.id:
            continue
        tr = fn.trait_impl or fn.default_of or ""
        if not (tr.endswith("SWCurveConfig") or tr.endswith("TECurveConfig") or tr.endswith("PrimeGroup")):
            continue
        # the scalar parameter: the last parameter
        sp = fn.d["argc"]
        dep = DF.Dep(fn)
        key = "%s|%s" % (fn.crate, fn.id[-120:])
        hit = None
        for bb, t in fn.calls():
            if t["f"].get("name") in REDUCING and t["args"]:
                for a in t["args"]:
                    l = op_local(a)
                    if l is not None and sp in dep.args_in_slice([l]):
                        # only conversions into a field type count
                        ty = fn.local_ty(place_parts(t["d"])[0])
                        if "fields::models::fp::Fp<" in ty or "ScalarField" in ty:
                            hit = t
        if hit:
            rule.bad(key, "the raw scalar limbs are converted with `%s` into the scalar field before the multiplication: the integer is reduced modulo r (and slices longer than the field's limb count hit an assertion), so k*P is wrong for k >= r / points outside the prime-order subgroup and panics on longer limb slices" % hit["f"]["name"], "%s (line %s)" % (fn.loc, hit.get("ln")))
        else:
            rule.ok(key, "scalar limbs reach the multiplication loop unreduced", fn.loc)


def check_wnaf(res, facts):
    rule = res.rule("R-WNAF", "window guards of WnafContext", 3)
    for fn in facts.fns(unit="ws", crate="ark_ec"):
        if fn.self_head != "ark_ec::scalar_mul::wnaf::WnafContext" or fn.kind == "Closure":
            continue
        key = "ark_ec|WnafContext::%s" % fn.name
        if fn.name == "new":
            # two comparisons of the parameter with literals 2 and 64, each guarding a panic
            lits = set()
            for bi, si, s in fn.stmts():
                r = s.get("r")
                if r and r["k"] == "bin" and r["op"] in ("Ge", "Lt", "Le", "Gt"):
                    for o in (r["a"], r["b"]):
                        if "k" in o and "v" in o["k"]:
                            lits.add((r["op"], o["k"]["v"]))
            panics = [t for _, t in fn.calls() if "panic" in (t["f"].get("name") or "")]
            ok = (("Ge", 2) in lits or ("Gt", 1) in lits) and (("Lt", 64) in lits or ("Le", 63) in lits) and len(panics) >= 2
            (rule.ok if ok else rule.bad)(key, "asserts 2 <= window_size < 64 (found comparisons %s)" % sorted(lits), fn.loc)
        elif fn.name == "mul_with_table":
            # None-return guarded by a comparison between 1 << (w-1) and base_table.len()
            nones = [bi for bi, si, s in fn.stmts() if s.get("r", {}).get("k") == "agg" and s["r"].get("variant") == "None"]
            cd = DF.control_deps(fn)
            dep = DF.Dep(fn)
            ok = False
            for nb in nones:
                for (sw, s) in cd.get(nb, ()):
                    o = fn.bbs[sw]["t"].get("o")
                    l = op_local(o) if o else None
                    if l is None:
                        continue
                    sl = dep.slice([l])
                    has_shl = any(st.get("r", {}).get("k") == "bin" and st["r"]["op"].startswith("Shl") and place_parts(st["d"])[0] in sl for _, _, st in fn.stmts())
                    has_len = 2 in dep.args_in_slice([l]) or any(st.get("r", {}).get("op") == "PtrMetadata" and place_parts(st["d"])[0] in sl for _, _, st in fn.stmts())
                    if has_shl and has_len:
                        ok = True
            (rule.ok if ok else rule.bad)(key, "returns None when 1 << (w-1) exceeds the table length", fn.loc)
            # digit -> table entry: table[i] holds (2i+1)*P, so an odd digit n > 0 adds table[n / 2] and n < 0 subtracts
            # table[(-n) / 2]; digits are those of find_wnaf(scalar, window), most significant first (leading zeros may be
            # skipped).  The add / subtract may sit in the loop or in a helper that receives the digit.
            from rules.c07 import E, show
            key2 = "ark_ec|WnafContext::mul_with_table|digit use"
            probs = []
            # 1. source of the digits
            base_src = ("call", "rev", (("call", "iter", (("call", "find_wnaf", (("call", "into_bigint", (("arg", 3, ()),)), ("arg", 1, ("window_size",)))),)),))
            nx = [t for _, t in fn.calls() if t["f"].get("name") == "next"]
            if len(nx) != 1:
                probs.append("digit iteration not found")
            else:
                src = E(fn, nx[0]["args"][0])
                cur = src
                while isinstance(cur, tuple) and cur[0] == "call" and cur[1] in ("enumerate", "skip_while", "copied", "cloned", "peekable", "by_ref") and cur != base_src:
                    if cur[1] == "skip_while":
                        zc = [c for c in facts.closures_of(fn) if any(st_.get("r", {}).get("k") == "bin" and st_["r"]["op"] in ("Eq", "Ne") and any("k" in o and o["k"].get("v") == 0 for o in (st_["r"]["a"], st_["r"]["b"])) for _, _, st_ in c.stmts()) and not list(c.calls())]
                        if not zc:
                            probs.append("skip_while over the digits with a predicate that is not a plain zero test")
                    cur = cur[2][0]
                if cur != base_src:
                    probs.append("digits come from %s, expected the full recoding find_wnaf(scalar, window_size), most significant first" % show(src)[:100])
            # 2. the add / subtract sites (in the function or in a helper of the same crate)
            hosts = [fn] + [c for _, _, c in DF.local_callees(facts, fn)]
            sites = []
            for h in hosts:
                for bb, t in h.calls():
                    if t["f"].get("name") in ("add_assign", "sub_assign") and len(t["args"]) == 2:
                        e = E(h, t["args"][1])
                        idx = e[2][0][1] if (isinstance(e, tuple) and e[0] == "arg" and len(e[2]) == 1 and isinstance(e[2][0], tuple) and e[2][0][0] == "idx") else None
                        if idx is not None:
                            sites.append((h, bb, t["f"]["name"], idx))

            def digit_of(idx, negated):
                # idx = D / 2  resp. (-D) / 2
                if isinstance(idx, tuple) and ((idx[0] == "bin" and idx[1] == "Div" and idx[3] == 2) or (idx[0] == "call" and idx[1] == "div" and len(idx[2]) == 2 and idx[2][1] == 2)):
                    num = idx[2] if idx[0] == "bin" else idx[2][0]
                    if not negated:
                        return num
                    if isinstance(num, tuple) and ((num[0] == "call" and num[1] == "neg" and len(num[2]) == 1) or (num[0] == "un" and num[1] == "Neg")):
                        return num[2][0] if num[0] == "call" else num[2]
                return None

            def signs_at(h, bb, D):
                cd = DF.control_deps(h)
                out, seen, st_ = set(), set(), [bb]
                while st_:
                    x = st_.pop()
                    for (sw, succ_) in cd.get(x, ()):
                        t_ = h.bbs[sw]["t"]
                        c_ = E(h, t_["o"])
                        if isinstance(c_, tuple) and c_[0] == "bin" and c_[2] == D and c_[3] == 0 and t_["vals"] == [0]:
                            truth = succ_ == t_["else"]
                            op = c_[1]
                            if op == "Gt":
                                out.add("pos" if truth else "nonpos")
                            elif op == "Lt":
                                out.add("neg" if truth else "nonneg")
                            elif op == "Ge":
                                out.add("nonneg" if truth else "neg")
                            elif op == "Le":
                                out.add("nonpos" if truth else "pos")
                            elif op == "Ne":
                                out.add("nonzero" if truth else "zero")
                            elif op == "Eq":
                                out.add("zero" if truth else "nonzero")
                        if sw not in seen:
                            seen.add(sw)
                            st_.append(sw)
                return out
            adds = [x for x in sites if x[2] == "add_assign"]
            subs = [x for x in sites if x[2] == "sub_assign"]
            if len(adds) != 1 or len(subs) != 1:
                probs.append("expected one add and one subtract of a table entry (found %d / %d)" % (len(adds), len(subs)))
            else:
                Dp, Dn = digit_of(adds[0][3], False), digit_of(subs[0][3], True)
                if Dp is None:
                    probs.append("a positive digit n adds table[%s], expected table[n / 2]" % show(adds[0][3])[:60])
                if Dn is None:
                    probs.append("a negative digit n subtracts table[%s], expected table[(-n) / 2]" % show(subs[0][3])[:60])
                if Dp is not None and Dn is not None:
                    if Dp != Dn:
                        probs.append("add and subtract look at different values (%s / %s)" % (show(Dp)[:40], show(Dn)[:40]))
                    sp, sn = signs_at(adds[0][0], adds[0][1], Dp), signs_at(subs[0][0], subs[0][1], Dn)
                    if not ("pos" in sp or ({"nonneg", "nonzero"} <= sp)):
                        probs.append("the add of table[n/2] is not confined to n > 0 (guards: %s)" % sorted(sp))
                    if not ("neg" in sn or ({"nonpos", "nonzero"} <= sn)):
                        probs.append("the subtract of table[(-n)/2] is not confined to n < 0 (guards: %s)" % sorted(sn))
            (rule.bad if probs else rule.ok)(key2, "; ".join(probs) if probs else "n > 0: += table[n/2]; n < 0: -= table[(-n)/2]; digits of find_wnaf(scalar, w) from the top", fn.loc)
        elif fn.name == "table":
            names = [t["f"].get("name") for _, t in fn.calls()]
            ok = "double" in names and "add_assign" in names and "push" in names
            loops = loop_blocks(fn)
            pushes = [bb for bb, t in fn.calls() if t["f"].get("name") == "push"]
            adds = [bb for bb, t in fn.calls() if t["f"].get("name") == "add_assign"]
            order = bool(pushes and adds and pushes[0] in loops and adds[0] in loops and fn.dominates(pushes[0], adds[0]))
            (rule.ok if ok and order else rule.bad)(key, "table of odd multiples: push(base) then base += 2*base in the loop", fn.loc)


# ---- R-BITS -----------------------------------------------------------------------------------------------

BITS_SITES = {
    # function-id suffix -> which parameter carries the scalar / exponent
    "ark_ec::scalar_mul::sw_double_and_add_affine": 2,
    "ark_ec::scalar_mul::sw_double_and_add_projective": 2,
    "ark_ec::models::twisted_edwards::TECurveConfig::mul_projective": 2,
    "ark_ec::models::twisted_edwards::TECurveConfig::mul_affine": 2,
    "ark_ff::fields::Field::pow": 2,
    "ark_ff::fields::Field::pow_with_table": 2,
    "ark_ff::fields::cyclotomic::CyclotomicMultSubgroup::cyclotomic_exp_in_place": 2,
}


def check_bits(res, facts):
    """the bits scanned by the double-and-add / square-and-multiply loops are the caller's scalar, untransformed: the
    argument of the bit iterator is the scalar parameter itself (through as_ref / borrow only)"""
    from rules.c07 import E, show
    rule = res.rule("R-BITS", "double-and-add / square-and-multiply loops scan the bits of the caller's scalar itself (no intermediate trimming / re-slicing)", 7)
    seen = set()
    for f in facts.fns(unit="ws"):
        if f.kind == "Closure" or f.id not in BITS_SITES:
            continue
        key = "%s|%s" % (f.crate, f.id)
        arg = BITS_SITES[f.id]
        its = [t for _, t in f.calls() if "BitIterator" in (t["f"].get("path") or "") and t["f"].get("name") in ("new", "without_leading_zeros", "without_trailing_zeros")]
        host, harg = f, arg
        if not its:
            # the loop may live in a helper of the same crate that receives the scalar parameter unchanged
            for bb, t, callee in DF.local_callees(facts, f):
                js = [j for j, a in enumerate(t["args"]) if E(f, a) == ("arg", arg, ())]
                its2 = [t2 for _, t2 in callee.calls() if "BitIterator" in (t2["f"].get("path") or "") and t2["f"].get("name") in ("new", "without_leading_zeros", "without_trailing_zeros")]
                if len(js) == 1 and len(its2) == 1:
                    host, harg, its = callee, js[0] + 1, its2
                    break
        if len(its) != 1:
            rule.bad(key, "expected one bit iterator over the scalar, found %d" % len(its), f.loc)
            continue
        seen.add(f.id)
        src = E(host, its[0]["args"][0])
        arg = harg
        if src == ("arg", arg, ()):
            rule.ok(key, "%s over the scalar parameter" % its[0]["f"].get("name"), f.loc)
        elif isinstance(src, tuple) and src[0] == "call" and len(src[2]) == 1 and src[2][0] == ("arg", arg, ()):
            # a helper in between: accepted only if it removes zero limbs from the most significant end
            helper = [h for h in facts.fns(unit="ws", crate=f.crate) if h.kind != "Closure" and h.name == src[1]]
            verdict = None
            if len(helper) == 1:
                h = helper[0]
                r = E(h, {"c": 0})
                txt = show(r)
                if isinstance(r, tuple) and r[0] == "call" and r[1] == "index" and r[2][0] == ("arg", 1, ()) and "RangeTo" in txt and "take_while" in txt and "len(arg1)" in txt:
                    verdict = "ok" if "rev(" in txt else "low"
            if verdict == "ok":
                rule.ok(key, "scalar with most-significant zero limbs removed by %s" % src[1], f.loc)
            elif verdict == "low":
                rule.bad(key, "%s counts zero limbs from the least significant end (no .rev()) and cuts that many limbs off the most significant end: for a scalar with low zero limbs the high limbs are dropped and a different multiple is computed" % src[1], f.loc)
            else:
                rule.undecided(key, "the bit iterator runs over %s, a transformation of the scalar this rule cannot decide" % show(src), f.loc)
        else:
            rule.undecided(key, "the bit iterator runs over %s instead of the scalar parameter" % show(src), f.loc)
    for k in BITS_SITES:
        if k not in seen:
            rule.bad("anchor|%s" % k, "anchor missing")


# ---- R-GLVDECOMP ------------------------------------------------------------------------------------------

def check_glvdecomp(res, facts):
    """GLV scalar decomposition: (k1, k2) = (k, 0) - (beta1, beta2) * N with N = [[n11, n12], [n21, n22]].  For ANY integers
    beta this satisfies k1 + lambda*k2 = k - beta1 (n11 + lambda n12) - beta2 (n21 + lambda n22), and the two brackets vanish
    mod r because the rows of N are lattice vectors (checked per configuration under C16).  Decided here: the polynomial
    identity, with beta1, beta2, k, n_ij, lambda as indeterminates, on the reconstructed expressions of k1 and k2; and that
    beta1, beta2 are the rounded quotients of k*n22 and -k*n12 by r."""
    from rules.c07 import E, show, qeq
    from rules.c17 import to_q, NotPoly
    from arklib.poly import Q
    rule = res.rule("R-GLVDECOMP", "GLV decomposition: k1 + lambda*k2 - k = -beta1 (n11 + lambda n12) - beta2 (n21 + lambda n22) identically", 1)
    fs = [f for f in facts.fns(unit="ws", crate="ark_ec") if f.kind != "Closure" and f.id.endswith("GLVConfig::scalar_decomposition")]
    key = "ark_ec|GLVConfig::scalar_decomposition"
    if not fs:
        rule.bad(key, "anchor missing")
        return
    f = fs[0]
    absargs = [(bb, E(f, t["args"][0])) for bb, t in f.calls() if t["f"].get("name") == "abs" and not t.get("mac")]
    if len(absargs) != 2:
        rule.undecided(key, "expected |k1| and |k2| to be taken from two expressions, found %d" % len(absargs), f.loc)
        return
    betas = {}
    local_helpers = {c.name for _, _, c in DF.local_callees(facts, f)}

    def facts_has_local(name):
        return name in local_helpers

    def leaf(t):
        if t == ("call", "into_bigint", (("arg", 1, ()),)):
            return "k"
        if isinstance(t, tuple) and t[0] == "call" and t[1] == "map" and len(t) > 3 and len(t[3]) == 1 and isinstance(t[3][0], tuple) and t[3][0][0] == "cidx":
            return "n%d" % t[3][0][1]
        # a quotient of (k * n_j) by r: `div_rem(num, r).0` in place, or any helper f(num, r) that rounds it (the identity
        # below holds for every integer beta, so the rounding rule is irrelevant to it)
        is_q = isinstance(t, tuple) and t[0] == "call" and len(t[2]) == 2 and show(t[2][1]).find("MODULUS") >= 0 and \
            ((t[1] == "div_rem" and len(t) > 3 and t[3] == ("0",)) or (t[1] != "div_rem" and not (len(t) > 3 and t[3]) and facts_has_local(t[1])))
        if is_q:
            num = show(t[2][0])
            nm = "beta1" if "[3]" in num and "[1]" not in num else ("beta2" if "[1]" in num and "[3]" not in num else "beta?%d" % len(betas))
            betas[nm] = t
            return nm
        return None
    try:
        k1 = to_q(absargs[0][1], leaf)
        k2 = to_q(absargs[1][1], leaf)
    except NotPoly as e:
        rule.undecided(key, "k1 / k2 are not polynomial expressions of the lattice constants (%s)" % e, f.loc)
        return
    lam, k = Q.var("lambda"), Q.var("k")
    n = [Q.var("n%d" % i) for i in range(4)]
    b1, b2 = Q.var("beta1"), Q.var("beta2")
    resid = k1 + lam * k2 - k + b1 * (n[0] + lam * n[1]) + b2 * (n[2] + lam * n[3])
    problems = []
    if not resid.is_zero():
        problems.append("k1 + lambda*k2 - k + beta1 (n11 + lambda n12) + beta2 (n21 + lambda n22) = %s is not identically zero: the decomposition does not satisfy k = k1 + lambda*k2 (mod r) for bases with beta2 != 0 / general lattice bases" % str(resid)[:200])
    # the rounded quotients
    want1 = ("call", "mul", (("call", "into_bigint", (("arg", 1, ()),)),))
    b1t, b2t = betas.get("beta1"), betas.get("beta2")
    if b1t is None or b2t is None:
        problems.append("beta1 = round(k*n22/r) and beta2 = round(-k*n12/r) not both found (found %s)" % sorted(betas))
    else:
        for nm, bt, want_n, negd in (("beta1", b1t, "n3", False), ("beta2", b2t, "n1", True)):
            num, den = bt[2][0], bt[2][1]
            try:
                qn = to_q(num, leaf)
            except NotPoly:
                qn = None
            wantq = k * Q.var(want_n) * (Q.const(-1) if negd else Q.const(1))
            if qn is None or not qeq(qn, wantq) or show(den).find("MODULUS") < 0:
                problems.append("%s is the quotient of %s by %s, expected %s / r" % (nm, show(num)[:80], show(den)[:30], wantq))
    (rule.bad if problems else rule.ok)(key, "; ".join(problems) if problems else "k1 = k - beta1 n11 - beta2 n21, k2 = -(beta1 n12 + beta2 n22), beta1 = round(k n22 / r), beta2 = round(-k n12 / r)", f.loc)


# ---- R-FIXEDBASE ------------------------------------------------------------------------------------------

def check_fixedbase(res, facts):
    """fixed-base batch multiplication (BatchMulPreprocessing): table[o][j] = j * 2^(o*w) * g and the multiplication adds
    table[o][bits o*w .. o*w+w of k]: the clauses visible in the code -- one window width w everywhere, rows = ceil(size/w),
    the base is doubled w times between rows (pushed before the doublings), a row is filled with the running sum stored
    before it is advanced from zero, the last row has 2^(size - (rows-1) w) entries, the multiplication reads bit
    o*w + i (guarded by the modulus size) into bit i of the column index and accumulates from the zero entry"""
    from rules.c07 import E, show, norm, qeq, A, C
    from rules.c17 import to_q, NotPoly
    from arklib.poly import Q
    rule = res.rule("R-FIXEDBASE", "BatchMulPreprocessing: table layout and window arithmetic of the builder agree with windowed_mul (supplementary clause: no verdict on shapes it does not model)", 0)
    pre = "ark_ec::scalar_mul::BatchMulPreprocessing"
    fns = {f.name: f for f in facts.fns(unit="ws", crate="ark_ec") if f.kind != "Closure" and pre in f.id and f.name in ("with_num_scalars_and_scalar_size", "windowed_mul")}
    b = fns.get("with_num_scalars_and_scalar_size")
    key = "ark_ec|BatchMulPreprocessing::with_num_scalars_and_scalar_size"
    if b is None:
        rule.bad(key, "anchor missing")
    else:
        problems, unrec = [], []
        W = C("compute_window_size", A(2))
        rows = C("div_ceil", A(3), W)
        tabs = [E(b, t["args"][0]) for _, t in b.calls() if t["f"].get("name") == "iter_mut"]
        want_tab = C("from_elem", C("from_elem", 0, ("bin", "Shl", 1, W)), rows)
        if not tabs:
            unrec.append("table allocation not found")
        elif want_tab not in tabs:
            problems.append("the table is %s, expected ceil(size/w) rows of 2^w entries with w = compute_window_size(num_scalars)" % [show(t)[:100] for t in tabs])
        # doubling loop between rows
        loops = DF.sccs(b)
        dbl = [(bb, t) for bb, t in b.calls() if t["f"].get("name") == "double_in_place"]
        push = [(bb, t) for bb, t in b.calls() if t["f"].get("name") == "push"]
        if len(dbl) != 1 or len(push) != 1:
            unrec.append("expected one push of the row base and one doubling loop")
        else:
            dbb, pbb = dbl[0][0], push[0][0]
            outer_scc = min((scc for scc in loops if dbb in scc), key=len, default=None)
            # the loop nest shares one SCC: the inner loop is the cycle through the doubling that avoids the header of the
            # outer loop (the `next` block that dominates every other `next` of the SCC)
            nexts = [bb for bb, t in b.calls() if outer_scc and bb in outer_scc and t["f"].get("name") == "next"]
            header = next((h for h in nexts if all(b.dominates(h, o) for o in nexts)), None)
            succ = b.succ()

            def reach(src, allowed):
                seen, st_ = set(), [src]
                while st_:
                    x = st_.pop()
                    for y in succ[x]:
                        if y in allowed and y not in seen:
                            seen.add(y)
                            st_.append(y)
                return seen
            allowed = (set(outer_scc) - {header}) if outer_scc and header is not None and len(nexts) > 1 else set(outer_scc or ())
            inner = {x for x in allowed if dbb in reach(x, allowed) and x in reach(dbb, allowed)} if allowed else None
            trip = None
            for bb, t in b.calls():
                if inner and bb in inner and t["f"].get("name") == "next":
                    r = E(b, t["args"][0])
                    if isinstance(r, tuple) and r[:2] == ("agg", "Range") and r[2][0] == 0:
                        trip = r[2][1]
            outer = [scc for scc in loops if pbb in scc]
            if trip is None:
                unrec.append("trip count of the doubling loop not found")
            elif trip != W:
                problems.append("the row base is doubled %s times between rows, not w = %s times" % (show(trip), show(W)))
            if not outer or pbb in (inner or ()) or not b.dominates(pbb, dbb):
                problems.append("the row base is not pushed before it is doubled in each round")
            if root_key(b, dbl[0][1]["args"][0]) != root_key(b, push[0][1]["args"][1]):
                problems.append("the value doubled is not the row base that is pushed")
        # row fill closure
        fe = [t for _, t in b.calls() if t["f"].get("name") == "for_each"]
        clo = facts.get(closure_args(b, fe[0])[0], b.unit) if fe and closure_args(b, fe[0]) else None
        if clo is None:
            unrec.append("row-fill closure not found")
        else:
            env = E(b, fe[0]["args"][1])
            last = ("bin", "Shl", 1, ("bin", "Sub", A(3), ("bin", "Mul", ("bin", "Sub", rows, 1), W)))
            caps = list(env[2]) if isinstance(env, tuple) and env[0] == "agg" else []
            lnames = {A(3): "size", rows: "rows", W: "w"}
            want_e = Q.var("size") - (Q.var("rows") - Q.const(1)) * Q.var("w")
            has_last = last in caps
            for c_ in caps:
                if isinstance(c_, tuple) and c_[:3] == ("bin", "Shl", 1):
                    try:
                        has_last = has_last or qeq(to_q(c_[3], lambda t_: lnames.get(t_)), want_e)
                    except NotPoly:
                        pass
            if not caps:
                unrec.append("captures of the row-fill closure not found")
            elif not has_last:
                problems.append("the last row is not limited to 2^(size - (rows-1) w) entries (captures %s)" % [show(c_)[:60] for c_ in caps])
            stores = []
            for bi, si, st_ in clo.stmts():
                if "d" in st_:
                    l, projs = place_parts(st_["d"])
                    if projs and projs[0] == "*":
                        stores.append((bi, st_))
            adds = [(bb, t) for bb, t in clo.calls() if t["f"].get("name") == "add_assign"]
            zeros = [bb for bb, t in clo.calls() if t["f"].get("name") == "zero"]
            if len(stores) != 1 or len(adds) != 1 or not zeros:
                unrec.append("row fill is not of the modelled shape `entry = running sum; running sum += row base`")
            else:
                sbb, abb = stores[0][0], adds[0][0]
                acc = root_key(clo, adds[0][1]["args"][0])
                src = root_key(clo, stores[0][1]["r"]["o"]) if stores[0][1]["r"]["k"] == "use" else None
                if acc is None or acc != src:
                    problems.append("the value stored into the row is not the running sum")
                if not (clo.dominates(sbb, abb) and sbb != abb) and not (sbb == abb):
                    problems.append("the running sum is advanced before it is stored (entry j would hold (j+1) * base)")
                if sbb == abb:
                    pass    # store (statement) precedes the call terminator of the same block
        # struct fields
        outs = []
        for bi, si, st_ in b.stmts():
            r = st_.get("r")
            if r and r["k"] == "agg" and (r.get("adt") or "").endswith("BatchMulPreprocessing"):
                outs.append(dict(zip(r.get("fields") or [], [E(b, o) for o in r["ops"]])))
        if len(outs) != 1:
            unrec.append("result aggregate not found")
        elif outs[0].get("window") != W or outs[0].get("max_scalar_size") != A(3):
            problems.append("the stored window / max_scalar_size are %s, not (w, size)" % [(show(o.get("window")), show(o.get("max_scalar_size"))) for o in outs])
        if problems:
            rule.bad(key, "; ".join(problems), b.loc)
        elif unrec:
            rule.noverdict(key, "shape not modelled (%s)" % "; ".join(unrec), b.loc)
        else:
            rule.ok(key, "ceil(size/w) rows of 2^w entries; base doubled w times between rows; entry j = j * row base; last row 2^(size-(rows-1)w) entries", b.loc)
    m = fns.get("windowed_mul")
    key = "ark_ec|BatchMulPreprocessing::windowed_mul"
    if m is None:
        rule.bad(key, "anchor missing")
    else:
        problems, unrec = [], []
        w, size = A(1, "window"), A(1, "max_scalar_size")
        o_it = ("iter", 0, C("div_ceil", size, w))
        i_it = ("iter", 0, w)
        names = {o_it: "o", i_it: "i", w: "w"}

        def leaf(t):
            if t in names:
                return names[t]
            # the window bit may be the parameter of a closure (`(0..w).filter(|&i| ..).fold(..)`)
            if isinstance(t, tuple) and t and t[0] == "cparam" and not t[3]:
                return "i"
            return None
        want_bit = Q.var("o") * Q.var("w") + Q.var("i")
        hosts = [m] + [c for c in facts.fns(unit=m.unit, crate=m.crate) if c.kind == "Closure" and c.id.startswith(m.id + "::{closure")]

        def L(h, o):
            return norm(DF.lift_captures(facts, h, DF.expr(h, o, depth=40)))
        bits_src = C("to_bits_le", C("into_bigint", A(2)))
        bit_reads = [L(h, t["args"][1]) for h in hosts for _, t in h.calls() if t["f"].get("name") == "index" and len(t["args"]) == 2 and L(h, t["args"][0]) == bits_src]
        try:
            if len(bit_reads) != 1:
                unrec.append("the read of the scalar bit not found")
            elif not qeq(to_q(bit_reads[0], leaf), want_bit):
                problems.append("the scalar bit read for column bit i of row o is %s, expected bit o*w + i" % [show(x)[:80] for x in bit_reads])
        except NotPoly as e:
            unrec.append("bit index is not an index polynomial of (row, bit, window): %s" % e)
        guards = [L(h, bl["t"]["o"]) for h in hosts for bl in h.bbs if bl["t"]["k"] == "switch"]
        # a closure may return the conjunction directly: comparisons feeding the return value count as guards too
        for h in hosts[1:]:
            for bi, si, st_ in h.stmts():
                r = st_.get("r")
                if r and r["k"] == "bin" and r["op"] == "Lt":
                    guards.append(("bin", "Lt", L(h, r["a"]), L(h, r["b"])))
        okg = False
        for g in guards:
            if isinstance(g, tuple) and g[0] == "bin" and g[1] == "Lt" and g[3] == "MODULUS_BIT_SIZE":
                try:
                    okg = okg or qeq(to_q(g[2], leaf), want_bit)
                except NotPoly:
                    pass
        if not okg and not unrec:
            problems.append("the bit read is not guarded by o*w + i < MODULUS_BIT_SIZE")
        ors = []
        for h in hosts:
            for bi, si, st_ in h.stmts():
                r = st_.get("r")
                if r and r["k"] == "bin" and r["op"] == "BitOr":
                    ors.append((L(h, r["a"]), L(h, r["b"])))

        def is_shift_i(x):
            return isinstance(x, tuple) and x[:3] == ("bin", "Shl", 1) and (x[3] == i_it or (isinstance(x[3], tuple) and x[3] and x[3][0] == "cparam"))
        if not ors:
            unrec.append("assembly of the column index not found")
        elif not any(is_shift_i(a_) or is_shift_i(b_) for a_, b_ in ors):
            problems.append("column index is not assembled as inner |= 1 << i (found %s)" % [(show(a_)[:40], show(b_)[:40]) for a_, b_ in ors])
        accs = [t for _, t in m.calls() if t["f"].get("name") == "add_assign"]
        if len(accs) != 1:
            unrec.append("accumulation per row not found")
        else:
            val = E(m, accs[0]["args"][1])
            okv = isinstance(val, tuple) and val[:2] == ("call", "index") and val[2][0] == C("index", A(1, "table"), o_it)
            if not okv:
                problems.append("the accumulated entry is %s, expected table[o][inner]" % show(val)[:100])
            init = E(m, accs[0]["args"][0])
            if init != C("index", C("index", A(1, "table"), 0), 0):
                problems.append("the accumulator starts at %s, expected the zero entry table[0][0]" % show(init)[:80])
        if problems:
            rule.bad(key, "; ".join(problems), m.loc)
        elif unrec:
            rule.noverdict(key, "shape not modelled (%s)" % "; ".join(unrec), m.loc)
        else:
            rule.ok(key, "rows 0..ceil(size/w); column = sum of bit(o*w+i) << i for i < w (bits below the modulus size); res = table[0][0] + sum table[o][column]", m.loc)


def run(ctx, res):
    facts = ctx.facts(UNITS)
    res.analysed = facts.stats()
    check_daa(res, facts)
    check_rawscalar(res, facts)
    check_wnaf(res, facts)
    check_bits(res, facts)
    check_glvdecomp(res, facts)
    from rules import iter_override
    iter_override.check_width(res, facts)      # the two GLV digit streams are zipped by position
    check_fixedbase(res, facts)
    # the affine GLV hook (endomorphism_affine) feeds glv_mul_affine: phi(O) must be O (shared with C12's fast subgroup tests)
    from rules import c12
    c12.check_endoinf(res, facts)
    from rules import c04_value
    c04_value.check_daa_value(res, facts, ctx.tier)
    return {
        "level": "other",
        "explanation": "Loop-recurrence typing and dataflow rules over the MIR of ark-ec / ark-ff scalar multiplication and exponentiation loops and of every curve crate's overrides of the raw-limb entry points; GLV constants and lattice bases are decided exhaustively under C16. Does NOT decide equality of any path's result with k*P, correctness of wNAF digits (C15); the fixed-base table layout and window arithmetic are decided structurally (R-FIXEDBASE), not as a run-time equality.",
        "assumptions": ["point addition / doubling realise the group law (C03)"],
    }
