"""C05 — multi-scalar multiplication: structural clauses.

  R-PAIR    the two buffers handed together to an msm kernel are mutated in lock-step: every
            push/clear/extend/... on one has a same-named partner on the other that executes on
            exactly the same paths (dominance + post-dominance).  Covers ChunkedPippenger::add/finalize
            and any reusable chunk buffers in msm_chunks.
  R-LEN     checked entry points (`msm` of VariableBaseMSM / SWCurveConfig / TECurveConfig) test
            bases.len() == scalars.len() and report min(len, len); both bucket kernels truncate
            *both* inputs to the common length before use.
  R-FLUSH   Pippenger accumulators: the full-buffer arm of `add` folds an msm of the buffers into
            `result`; `finalize` folds again on the non-empty arm and returns `result`.
  R-WINDOW  both bucket methods recombine windows high-to-low with a doubling loop whose trip count is
            the same variable `c` that sized the buckets / digits.
"""
from arklib import dataflow as DF
from arklib.facts import closure_args, op_local, op_place, place_parts
from rules import chunk

KERNELS = {"msm_bigint", "msm_bigint_wnaf", "msm_unchecked", "msm"}
MUTATORS = {"push", "clear", "extend", "extend_from_slice", "truncate", "append", "resize", "pop", "drain", "insert", "remove", "push_back", "retain", "reserve"}
VIEW = {"as_slice", "deref", "as_ref", "borrow", "as_mut_slice", "index", "deref_mut", "as_mut", "iter"}


def root_key(fn, operand, depth=10):
    """identity of the container an operand views: (local, field-name-path) following view adapters"""
    defs = fn.defs()
    o = operand
    for _ in range(depth):
        p = op_place(o)
        if p is None:
            return None
        l, projs = place_parts(p)
        fields = tuple(pr[2] for pr in projs if isinstance(pr, (list, tuple)) and pr[0] == "f")
        if fields:
            return (l, fields)
        ds = defs.get(l, [])
        if len(ds) != 1:
            return (l, ())
        d = ds[0]
        if d[2] == "assign":
            r = d[3]["r"]
            if r["k"] in ("ref", "raw"):
                pl, pp = place_parts(r["p"])
                f2 = tuple(pr[2] for pr in pp if isinstance(pr, (list, tuple)) and pr[0] == "f")
                if f2:
                    return (pl, f2)
                o = {"c": pl}
                continue
            if r["k"] in ("use", "cast"):
                o = r["o"]
                if "k" in o:
                    return None
                continue
            return (l, ())
        if d[2] == "call":
            t = d[3]
            if t["f"].get("name") in VIEW and t["args"]:
                o = t["args"][0]
                continue
            return (l, ())
    return None


def check_pair(res, facts):
    rule = res.rule("R-PAIR", "buffers passed together to an msm kernel are mutated in lock-step on every path", 1)
    n_sites = 0
    for fn in facts.fns(unit="ws", crate="ark_ec"):
        if "::tests::" in fn.id:
            continue
        sites = [(bb, t) for bb, t in fn.calls() if t["f"].get("name") in KERNELS and len(t["args"]) >= 2]
        for bb, t in sites:
            ra, rb = root_key(fn, t["args"][0]), root_key(fn, t["args"][1])
            if ra is None or rb is None or ra == rb:
                continue
            n_sites += 1
            muts = {ra: [], rb: []}
            for b2, t2 in fn.calls():
                if t2["f"].get("name") in MUTATORS and t2["args"]:
                    r2 = root_key(fn, t2["args"][0])
                    if r2 in muts:
                        muts[r2].append((b2, t2["f"]["name"]))
            key = "ark_ec|%s|%s" % (fn.id[-100:], t["f"]["name"])
            if not muts[ra] and not muts[rb]:
                rule.ok(key, "buffers are built fresh, no in-place mutation", fn.loc)
                continue
            unmatched = []
            for x, y in ((ra, rb), (rb, ra)):
                for (b1, n1) in muts[x]:
                    partner = [b2 for (b2, n2) in muts[y] if n2 == n1 and ((fn.dominates(b1, b2) and fn.postdominates(b2, b1)) or (fn.dominates(b2, b1) and fn.postdominates(b1, b2)))]
                    if not partner:
                        unmatched.append((n1, x))
            if unmatched:
                rule.bad(key, "buffers %s and %s feed one msm call but are not updated in lock-step: %s has no partner on the other buffer on the same paths (bases and scalars drift out of alignment)" % (
                    ra[1] or ra[0], rb[1] or rb[0], ", ".join("%s() on %s" % (n, (x[1] or x[0])) for n, x in unmatched)), fn.loc)
            else:
                rule.ok(key, "mutators paired: %s" % sorted({n for _, n in muts[ra]}), fn.loc)
    if n_sites == 0:
        rule.bad("ark_ec|anchor", "no msm kernel call with two distinct buffers found")


def lens_of(fn, dep, local):
    """parameter locals whose slice length feeds `local`"""
    out = set()
    sl = dep.slice([local])
    for bi, si, s in fn.stmts():
        r = s.get("r")
        if r and r["k"] == "un" and r["op"] == "PtrMetadata" and place_parts(s["d"])[0] in sl:
            src = op_local(r["o"])
            if src is not None:
                out |= dep.args_in_slice([src])
    # len() calls
    for bb, t in fn.calls():
        if t["f"].get("name") == "len" and place_parts(t["d"])[0] in sl and t["args"]:
            src = op_local(t["args"][0])
            if src is not None:
                out |= dep.args_in_slice([src])
    return out


def check_len(res, facts):
    rule = res.rule("R-LEN", "checked msm compares both lengths and reports the minimum; bucket kernels truncate both inputs to the common length", 5)
    for fn in facts.fns(unit="ws", crate="ark_ec"):
        if fn.kind == "Closure" or "::tests::" in fn.id:
            continue
        if fn.name == "msm" and fn.d["argc"] == 2 and fn.local_ty(0).startswith("core::result::Result<"):
            key = "ark_ec|%s" % fn.id[-110:]
            if len(fn.bbs) <= 3 and any(t["f"].get("name") == "msm" for _, t in fn.calls()):
                rule.ok(key, "delegates to the configuration's msm", fn.loc)
                continue
            dep = DF.Dep(fn)
            eqs = []
            for bi, si, s in fn.stmts():
                r = s.get("r")
                if r and r["k"] == "bin" and r["op"] in ("Eq", "Ne"):
                    la, lb = op_local(r["a"]), op_local(r["b"])
                    if la is None or lb is None:
                        continue
                    A, B = lens_of(fn, dep, la), lens_of(fn, dep, lb)
                    if (1 in A and 2 in B) or (2 in A and 1 in B):
                        eqs.append(bi)
            clos = [facts.get(c, fn.unit) for _, t in fn.calls() if t["f"].get("name") in ("ok_or_else", "map_err", "unwrap_or_else") for c in closure_args(fn, t)]
            mins = [c for c in clos if c is not None and any(t["f"].get("name") == "min" for _, t in c.calls())]
            inline_min = any(t["f"].get("name") == "min" for _, t in fn.calls())
            if not eqs:
                rule.bad(key, "no comparison bases.len() == scalars.len(): mismatched lengths are not reported", fn.loc)
            elif not (mins or inline_min):
                rule.bad(key, "the error value is not the minimum of the two lengths", fn.loc)
            else:
                rule.ok(key, "length equality guards the result; Err carries min(len, len)", fn.loc)
        if fn.name in ("msm_bigint", "msm_bigint_wnaf") and not fn.default_of and not fn.impl:
            key = "ark_ec|%s" % fn.id[-110:]
            dep = DF.Dep(fn)
            mins = [(bb, t) for bb, t in fn.calls() if t["f"].get("name") == "min"]
            if not mins:
                rule.bad(key, "inputs are not truncated to min(bases.len(), scalars.len())", fn.loc)
                continue
            size_local = place_parts(mins[0][1]["d"])[0]
            sliced = set()
            for bb, t in fn.calls():
                if t["f"].get("name") == "index" and len(t["args"]) == 2:
                    rng = op_local(t["args"][1])
                    base = op_local(t["args"][0])
                    if rng is not None and base is not None and size_local in dep.slice([rng]):
                        sliced |= dep.args_in_slice([base])
            if {1, 2} <= sliced:
                rule.ok(key, "both inputs sliced to [..min]", fn.loc)
            else:
                rule.bad(key, "only argument(s) %s are truncated to the common length: the other is used at full length (index misalignment / out-of-bounds zip)" % sorted(sliced), fn.loc)


def check_flush(res, facts):
    rule = res.rule("R-FLUSH", "Pippenger accumulators fold an msm of the buffer into `result` on the full-buffer arm and on finalize's non-empty arm", 4)
    for fn in facts.fns(unit="ws", crate="ark_ec"):
        if fn.kind == "Closure" or not fn.self_head or "stream_pippenger" not in fn.self_head:
            continue
        if fn.name not in ("add", "finalize"):
            continue
        key = "ark_ec|%s::%s" % (fn.self_head.rsplit("::", 1)[-1], fn.name)
        ks = [(bb, t) for bb, t in fn.calls() if t["f"].get("name") in KERNELS]
        if not ks:
            rule.bad(key, "no msm kernel call: buffered pairs are never folded into the result", fn.loc)
            continue
        dep = DF.Dep(fn)
        cd = DF.control_deps(fn)
        ok = True
        why = []
        for bb, t in ks:
            # the msm result must flow into self.result (local 1's pointee / field result)
            dl = place_parts(t["d"])[0]
            flows = False
            for b2, t2 in fn.calls():
                if t2["f"].get("name") in ("add_assign", "add") and t2["args"]:
                    if any(op_local(a) is not None and dl in dep.slice([op_local(a)]) for a in t2["args"][1:]):
                        r0 = root_key(fn, t2["args"][0])
                        if r0 and "result" in (r0[1] or ()):
                            flows = True
            if not flows:
                ok = False
                why.append("msm result is not added to self.result")
            if not cd.get(bb):
                ok = False
                why.append("msm call is not guarded by the buffer-state test")
        if fn.name == "add":
            clears = [t["f"]["name"] for _, t in fn.calls() if t["f"].get("name") == "clear"]
            if not clears:
                ok = False
                why.append("buffer is not cleared after the flush (pairs would be counted twice)")
        if ok:
            rule.ok(key, "guarded msm folded into result", fn.loc)
        else:
            rule.bad(key, "; ".join(sorted(set(why))), fn.loc)


def check_window(res, facts):
    rule = res.rule("R-WINDOW", "window recombination doubles exactly c times between windows, c being the window width that sized buckets/digits", 2)
    for fn in facts.fns(unit="ws", crate="ark_ec"):
        if fn.name not in ("msm_bigint", "msm_bigint_wnaf") or fn.default_of or fn.impl or fn.kind == "Closure":
            continue
        key = "ark_ec|%s" % fn.id[-100:]
        folds = [(bb, t) for bb, t in fn.calls() if t["f"].get("name") == "fold"]
        found = False
        for bb, t in folds:
            for cid in closure_args(fn, t):
                clo = facts.get(cid, fn.unit)
                if clo is None:
                    continue
                dbl = [b for b, c in clo.calls() if c["f"].get("name") in ("double_in_place", "double")]
                if not dbl:
                    continue
                found = True
                # the doubling must sit on a loop whose range bound is an upvar named c (usize) -- check: the closure
                # captures exactly one usize upvar and a Range is built from it
                ups = clo.d.get("upvars", [])
                usz = [i for i, u in enumerate(ups) if u["ty"] == "usize"]
                on_cycle = all(b in clo.reachable_from(s) for b in dbl for s in clo.succ()[b][:1])
                # which parent local is captured?
                cap = None
                for bi, si, s in fn.stmts():
                    r = s.get("r")
                    if r and r.get("k") == "agg" and r.get("closure") == cid:
                        for i in usz:
                            cap = serorigin(fn, r["ops"][i])
                # c must also feed the bucket allocation / digit extraction in the same function
                if len(usz) != 1 or not on_cycle or cap is None:
                    rule.bad(key, "recombination closure does not double in a loop bounded by a single captured window width", fn.loc)
                else:
                    dep = DF.Dep(fn)
                    # other uses of c: Shl (1 << c) somewhere in fn or its closures
                    shl = False
                    for f2 in [fn] + facts.closures_of(fn):
                        for bi, si, s in f2.stmts():
                            r = s.get("r")
                            if r and r["k"] == "bin" and r["op"] in ("Shl", "ShlUnchecked"):
                                shl = True
                    if shl:
                        rule.ok(key, "doubling loop bounded by captured c (local %s); buckets sized by 1 << c" % cap, fn.loc)
                    else:
                        rule.bad(key, "bucket sizing by 1 << c not found", fn.loc)
        if not found:
            rule.bad(key, "no high-to-low fold with doublings between windows found", fn.loc)


def serorigin(fn, operand):
    """parent local a by-ref/by-value capture operand refers to"""
    defs = fn.defs()
    p = op_place(operand)
    if p is None:
        return None
    l, projs = place_parts(p)
    for _ in range(5):
        ds = [d for d in defs.get(l, []) if d[2] == "assign"]
        if len(ds) != 1:
            return l
        r = ds[0][3]["r"]
        if r["k"] == "ref":
            l = place_parts(r["p"])[0]
        elif r["k"] == "use" and op_local(r["o"]) is not None:
            l = op_local(r["o"])
        else:
            return l
    return l


def run(ctx, res):
    facts = ctx.facts(["ws", "par"])
    res.analysed = facts.stats()
    check_pair(res, facts)
    check_len(res, facts)
    check_flush(res, facts)
    check_window(res, facts)
    return {
        "level": "other",
        "explanation": "Typestate / pairing rules over the MIR of ark-ec's variable-base MSM and streaming Pippenger code (serial and parallel configurations): lock-step mutation of paired buffers, length policy of checked and unchecked entry points, flush/finalize structure, window recombination. Does NOT decide that any entry point returns the sum (digit extraction and bucket indexing are run-time index arithmetic).",
        "assumptions": ["msm kernels truncate to the shorter input (checked by R-LEN on the two kernels)"],
    }
