"""C16: curve-level constants (generators, cofactors, model conversions, GLV, SWU / WB / Elligator)."""
from arklib import numth as N
from arklib.configs import parse_ty, ty_str, FP, QUAD, CUBIC, SW_AFFINE, TE_AFFINE


def loc(r):
    return "%s:%s" % (r.get("file"), r.get("line"))


def sample_points_sw(E, count=2):
    F = E.F
    out = []
    for x in N.small_elements(F, 60):
        rhs = F.add(F.add(F.mul(F.sqr(x), x), F.mul(E.a, x)), E.b)
        y = N.f_sqrt(F, rhs)
        if y is not None and not F.is_zero(y):
            out.append((x, y))
            if len(out) >= count:
                break
    return out


def sample_points_te(E, count=2):
    F = E.F
    out = []
    for y in N.small_elements(F, 60):
        y2 = F.sqr(y)
        num = F.sub(F.one(), y2)
        den = F.sub(E.a, F.mul(E.d, y2))
        if F.is_zero(den):
            continue
        x = N.f_sqrt(F, F.mul(num, F.inv(den)))
        if x is not None and not F.is_zero(x):
            out.append((x, y))
            if len(out) >= count:
                break
    return out


def curve_of(cx, owner):
    """-> (kind, curve object, base field, scalar prime r, records) or None"""
    reg = cx.reg
    a_sw = reg.const(owner, "COEFF_A", "SWCurveConfig")
    a_te = reg.const(owner, "COEFF_A", "TECurveConfig")
    inv = reg.const(owner, "COFACTOR_INV", "CurveConfig")
    if inv is None:
        return None
    Fr = reg.field(inv["ty"])
    if a_sw is not None:
        F = reg.field(a_sw["ty"])
        a = reg.decode(a_sw["val"], a_sw["ty"])
        br = reg.const(owner, "COEFF_B", "SWCurveConfig")
        b = reg.decode(br["val"], br["ty"])
        return ("sw", N.SW(F, a, b), F, Fr, a_sw)
    if a_te is not None:
        F = reg.field(a_te["ty"])
        a = reg.decode(a_te["val"], a_te["ty"])
        dr = reg.const(owner, "COEFF_D", "TECurveConfig")
        d = reg.decode(dr["val"], dr["ty"])
        return ("te", N.TE(F, a, d), F, Fr, a_te)
    return None


def generator_of(cx, owner, kind, F):
    reg = cx.reg
    g = reg.const(owner, "GENERATOR", "SWCurveConfig" if kind == "sw" else "TECurveConfig")
    if g is None:
        return None, None
    v = g["val"]
    fty = ty_str(parse_ty(reg.const(owner, "COEFF_A", "SWCurveConfig" if kind == "sw" else "TECurveConfig")["ty"]))
    x = reg.decode(v["x"], fty)
    y = reg.decode(v["y"], fty)
    if kind == "sw" and v.get("infinity"):
        return None, g
    return (x, y), g


def check_curves(cx):
    res, reg = cx.res, cx.reg
    rule = res.rule("R-CONST.curve", "generator on the curve and of order r; cofactor * cofactor_inv = 1 mod r; group order within the Hasse interval and annihilating sample points; model conversions", 200)
    n = 0
    cx.curves = {}
    for cof in reg.impls_of("CurveConfig", "COFACTOR"):
        owner = cof["owner"]
        tag = "%s|%s" % (cof["crate"], owner)
        info = curve_of(cx, owner)
        if info is None:
            rule.undecided(tag, "neither SW nor TE constants found", loc(cof))
            continue
        kind, E, F, Fr, arec = info
        n += 1
        r = Fr.p
        h = N.limbs_to_int(cof["val"])
        cx.curves[owner] = (kind, E, F, Fr, h)
        hinv_r = reg.const(owner, "COFACTOR_INV", "CurveConfig")
        hinv = reg.decode(hinv_r["val"], hinv_r["ty"])
        if (h % r) * hinv % r == 1:
            rule.ok(tag + "|COFACTOR_INV", "h * h_inv = 1 mod r", loc(hinv_r))
        else:
            rule.bad(tag + "|COFACTOR_INV", "%s::COFACTOR * COFACTOR_INV != 1 (mod r): mul_by_cofactor_inv does not invert cofactor clearing" % owner, loc(hinv_r))
        G, grec = generator_of(cx, owner, kind, F)
        if G is None:
            rule.bad(tag + "|GENERATOR", "generator missing or the point at infinity", loc(grec or cof))
        else:
            if E.on_curve(G):
                rule.ok(tag + "|GENERATOR.on_curve", "", loc(grec))
            else:
                rule.bad(tag + "|GENERATOR.on_curve", "%s::GENERATOR does not satisfy the curve equation" % owner, loc(grec))
            rG = E.mul(r, G)
            is_id = (rG is None) if kind == "sw" else E.is_identity(rG)
            if is_id:
                rule.ok(tag + "|GENERATOR.order", "r*G = O (r prime)", loc(grec))
            else:
                rule.bad(tag + "|GENERATOR.order", "%s::GENERATOR does not have order r (r*G != O): it is not in the prime-order subgroup" % owner, loc(grec))
        q = F.order
        order = h * r
        if N.hasse_ok(order, q):
            rule.ok(tag + "|COFACTOR.hasse", "h*r within the Hasse interval of the base field", loc(cof))
        else:
            rule.bad(tag + "|COFACTOR.hasse", "%s::COFACTOR * r = %d bits is outside the Hasse interval around |F_q|+1: the cofactor (or the scalar field) is wrong" % (owner, order.bit_length()), loc(cof))
        pts = sample_points_sw(E) if kind == "sw" else sample_points_te(E)
        if pts:
            bad = 0
            for P in pts:
                R = E.mul(order, P)
                if not ((R is None) if kind == "sw" else E.is_identity(R)):
                    bad += 1
            if bad:
                rule.bad(tag + "|COFACTOR.order", "h*r does not annihilate %d of %d sample points of E(F_q): h*r is not the group order" % (bad, len(pts)), loc(cof))
            else:
                rule.ok(tag + "|COFACTOR.order", "h*r*P = O on %d sample points" % len(pts), loc(cof))
        else:
            rule.undecided(tag + "|COFACTOR.order", "no sample point found", loc(cof))
        if kind == "te":
            ma = reg.const(owner, "COEFF_A", "MontCurveConfig")
            mb = reg.const(owner, "COEFF_B", "MontCurveConfig")
            if ma is not None and mb is not None:
                A = reg.decode(ma["val"], ma["ty"])
                B = reg.decode(mb["val"], mb["ty"])
                amd_inv = F.inv(F.sub(E.a, E.d))
                wantA = F.mul(F.from_int(2), F.mul(F.add(E.a, E.d), amd_inv))
                wantB = F.mul(F.from_int(4), amd_inv)
                if F.eq(A, wantA) and F.eq(B, wantB):
                    rule.ok(tag + "|MontCurveConfig", "A = 2(a+d)/(a-d), B = 4/(a-d)", loc(ma))
                else:
                    rule.bad(tag + "|MontCurveConfig", "Montgomery coefficients are not the birational image of the twisted Edwards curve (A = 2(a+d)/(a-d), B = 4/(a-d))", loc(ma))
            # completeness precondition of the unified addition law, recorded as information
            sq_a, sq_d = F.is_square(E.a), F.is_square(E.d)
            rule.ok(tag + "|TE.completeness-class", "a %s, d %s%s" % ("square" if sq_a else "non-square", "square" if sq_d else "non-square", " (complete addition law)" if sq_a and not sq_d else " (complete only on the odd-order subgroup)"), loc(arec))
    check_glv(cx, rule)
    check_h2c(cx, rule)
    return n


def check_glv(cx, rule):
    reg = cx.reg
    for lam_r in reg.impls_of("GLVConfig", "LAMBDA"):
        owner = lam_r["owner"]
        tag = "%s|%s|GLV" % (lam_r["crate"], owner)
        if owner not in cx.curves:
            rule.undecided(tag, "curve not resolved", loc(lam_r))
            continue
        kind, E, F, Fr, h = cx.curves[owner]
        r = Fr.p
        lam = reg.decode(lam_r["val"], lam_r["ty"])
        co = reg.const(owner, "SCALAR_DECOMP_COEFFS", "GLVConfig")
        rows = reg.decode(co["val"], co["ty"])
        n = [(v if pos else -v) for (pos, v) in rows]
        n11, n12, n21, n22 = n
        ok_rows = (n11 + lam * n12) % r == 0 and (n21 + lam * n22) % r == 0
        det = n11 * n22 - n12 * n21
        if ok_rows and abs(det) == r:
            rule.ok(tag + "|SCALAR_DECOMP_COEFFS", "rows lie in the lattice {(a,b): a + lambda b = 0 mod r}, |det| = r", loc(co))
        else:
            rule.bad(tag + "|SCALAR_DECOMP_COEFFS", "decomposition basis is not a basis of the GLV lattice for LAMBDA (rows in lattice: %s, |det| == r: %s): k1 + lambda*k2 != k" % (ok_rows, abs(det) == r), loc(co))
        er = reg.const(owner, "ENDO_COEFFS", "GLVConfig")
        endo = reg.decode(er["val"], er["ty"])
        G, grec = generator_of(cx, owner, kind, F)
        if kind == "sw" and len(endo) == 1 and G is not None:
            beta = endo[0]
            cube = F.eq(F.mul(F.sqr(beta), beta), F.one()) and not F.eq(beta, F.one())
            img = (F.mul(beta, G[0]), G[1])
            lamG = E.mul(lam, G)
            if cube and E.eq(img, lamG):
                rule.ok(tag + "|ENDO/LAMBDA", "beta primitive cube root of unity and (beta*x, y) = lambda*G", loc(er))
            else:
                rule.bad(tag + "|ENDO/LAMBDA", "the endomorphism coefficient and LAMBDA do not match: (beta*x, y) != lambda*G on the generator (beta^3 == 1: %s)" % cube, loc(er))
        else:
            # general form: lambda must satisfy the endomorphism's characteristic polynomial; only recorded
            rule.ok(tag + "|ENDO/LAMBDA.recorded", "%d endomorphism coefficients (formula is code, not a constant)" % len(endo), loc(er))


def poly_eval(F, coeffs, x):
    acc = F.zero()
    for c in reversed(coeffs):
        acc = F.add(F.mul(acc, x), c)
    return acc


def check_h2c(cx, rule):
    reg = cx.reg
    # SWU: ZETA non-square, a*b != 0
    for z in reg.impls_of("SWUConfig", "ZETA"):
        owner = z["owner"]
        tag = "%s|%s|SWU" % (z["crate"], owner)
        if owner not in cx.curves:
            rule.undecided(tag, "curve not resolved", loc(z))
            continue
        kind, E, F, Fr, h = cx.curves[owner]
        zeta = reg.decode(z["val"], z["ty"])
        if F.is_square(zeta):
            rule.bad(tag + "|ZETA", "SWU ZETA is a square in the base field (the map needs a non-square)", loc(z))
        else:
            rule.ok(tag + "|ZETA", "non-square", loc(z))
        if F.is_zero(E.a) or F.is_zero(E.b):
            rule.bad(tag + "|ab", "simplified SWU requires a*b != 0 on the target curve", loc(z))
        else:
            rule.ok(tag + "|ab", "a*b != 0", loc(z))
            # RFC 9380 section 6.6.2 criterion 4: g(B / (Z * A)) is square, so that the exceptional case of the map
            # (Z^2 u^4 + Z u^2 = 0) always finds y on the first candidate x1 = B / (Z * A)
            try:
                x = F.mul(E.b, F.inv(F.mul(zeta, E.a)))
                gx = F.add(F.add(F.mul(F.mul(x, x), x), F.mul(E.a, x)), E.b)
                if F.is_square(gx):
                    rule.ok(tag + "|exceptional", "g(B/(ZETA*A)) is a square", loc(z))
                else:
                    rule.bad(tag + "|exceptional", "g(B/(ZETA*A)) is not a square: for u = 0 (and Z u^2 = -1) the simplified SWU map takes its second candidate, which is not on the curve", loc(z))
            except Exception as e:
                rule.undecided(tag + "|exceptional", "not evaluable: %s" % e, loc(z))
    # WB isogeny maps: E' -> E polynomial identity
    for im in reg.impls_of("WBConfig", "ISOGENY_MAP"):
        owner = im["owner"]
        tag = "%s|%s|WB" % (im["crate"], owner)
        if owner not in cx.curves:
            rule.undecided(tag, "curve not resolved", loc(im))
            continue
        kind, E, F, Fr, h = cx.curves[owner]
        v = im["val"]
        fty = reg.const(owner, "COEFF_A", "SWCurveConfig")["ty"]
        dec = lambda lst: [reg.decode(c, fty) for c in lst]
        xn, xd, yn, yd = dec(v["x_map_numerator"]), dec(v["x_map_denominator"]), dec(v["y_map_numerator"]), dec(v["y_map_denominator"])
        # the isogenous curve: type parameter of IsogenyMap is not in the value; find the SWU config in the same crate whose
        # points map onto E: try every SW curve over the same field with a ZETA
        cands = [o for o, c in cx.curves.items() if c[0] == "sw" and c[2].ty == F.ty and reg.const(o, "ZETA", "SWUConfig") is not None]
        matched = None
        for o in cands:
            Ei = cx.curves[o][1]
            pts = sample_points_sw(Ei, 3)
            ok = bool(pts)
            for (x, y) in pts:
                dx, dy = poly_eval(F, xd, x), poly_eval(F, yd, x)
                if F.is_zero(dx) or F.is_zero(dy):
                    continue
                X = F.mul(poly_eval(F, xn, x), F.inv(dx))
                Y = F.mul(y, F.mul(poly_eval(F, yn, x), F.inv(dy)))
                if not E.on_curve((X, Y)):
                    ok = False
            if ok:
                matched = o
                break
        if matched:
            rule.ok(tag + "|ISOGENY_MAP", "maps sample points of %s onto the target curve" % matched.rsplit("::", 2)[-2], loc(im))
        else:
            rule.bad(tag + "|ISOGENY_MAP", "the isogeny's rational maps do not send points of any SWU-isogenous curve in this crate onto %s" % owner, loc(im))
    # Elligator2
    for z in reg.impls_of("Elligator2Config", "Z"):
        owner = z["owner"]
        tag = "%s|%s|Elligator2" % (z["crate"], owner)
        if owner not in cx.curves:
            rule.undecided(tag, "curve not resolved", loc(z))
            continue
        kind, E, F, Fr, h = cx.curves[owner]
        zv = reg.decode(z["val"], z["ty"])
        (rule.bad if F.is_square(zv) else rule.ok)(tag + "|Z", "Elligator 2 Z must be a non-square", loc(z))
        ma = reg.const(owner, "COEFF_A", "MontCurveConfig")
        mb = reg.const(owner, "COEFF_B", "MontCurveConfig")
        o1 = reg.const(owner, "ONE_OVER_COEFF_B_SQUARE", "Elligator2Config")
        o2 = reg.const(owner, "COEFF_A_OVER_COEFF_B", "Elligator2Config")
        if ma and mb and o1 and o2:
            A, B = reg.decode(ma["val"], ma["ty"]), reg.decode(mb["val"], mb["ty"])
            v1, v2 = reg.decode(o1["val"], o1["ty"]), reg.decode(o2["val"], o2["ty"])
            ok = F.eq(F.mul(v1, F.sqr(B)), F.one()) and F.eq(F.mul(v2, B), A)
            (rule.ok if ok else rule.bad)(tag + "|precomputed", "ONE_OVER_COEFF_B_SQUARE = 1/B^2 and COEFF_A_OVER_COEFF_B = A/B", loc(o1))
