"""Operators defined through other operators compute the stated combination (ring-operation
propagation at the level of whole polynomials / extensions / points).

Each operator impl whose body is expressed purely through other operators (clone, neg, add, sub,
scalar mul, conversions) is evaluated symbolically with its operands as ring symbols; every path
must produce the combination its trait promises (Sub -> x - y, SubAssign -> x := x - y, ...).  Bodies
that touch coefficients directly (loops) are not instances of this rule."""
from arklib import symex as SX
from arklib.poly import Q

EXPECT = {
    ("core::ops::arith::Add", "add"): ("ret", lambda x, y: x + y),
    ("core::ops::arith::Sub", "sub"): ("ret", lambda x, y: x - y),
    ("core::ops::arith::Neg", "neg"): ("ret1", lambda x: -x),
    ("core::ops::arith::Mul", "mul"): ("ret", lambda x, y: x * y),
    ("core::ops::arith::AddAssign", "add_assign"): ("self", lambda x, y: x + y),
    ("core::ops::arith::SubAssign", "sub_assign"): ("self", lambda x, y: x - y),
    ("core::ops::arith::MulAssign", "mul_assign"): ("self", lambda x, y: x * y),
    ("core::ops::arith::Div", "div"): ("ret", lambda x, y: x / y),
    ("core::ops::arith::DivAssign", "div_assign"): ("self", lambda x, y: x / y),
}


def conv_models(m):
    ident = lambda ex, st, fr, t, a: ex.deref(a[0]) if len(a) == 1 and SX.q_of(ex.deref(a[0])) is not None else NotImplemented
    m.on(SX.by("core::convert::Into", "into"), ident)
    m.on(SX.by("core::convert::From", "from"), ident)
    m.on(SX.by("core::ops::deref::Deref", "deref"), lambda ex, st, fr, t, a: a[0])


def sym_arg(name, ty):
    o = SX.Obj(name=name)
    if ty.startswith("&"):
        return SX.Ref(SX.Cell(o))
    return o


def apply_subst(q, st):
    for var, p in st.subst.items():
        q = q.subst(var, p)
    return q


def check_operator_impls(rule, facts, unit, crate, self_filter, transparent=("coeffs", "evaluations", "evals"), tuple_rhs=False, on_undecided=None):
    n = 0
    models = SX.ring_models(conv_models)
    for fn in facts.fns(unit=unit, crate=crate):
        tr = fn.trait_impl
        if not tr or (tr, fn.name) not in EXPECT or fn.kind == "Closure":
            continue
        if not self_filter(fn.impl["self"]):
            continue
        if "::tests::" in fn.id:
            continue
        mode, expect = EXPECT[(tr, fn.name)]
        argc = fn.d["argc"]
        ex = SX.Engine(facts, unit, models, transparent=transparent, max_paths=60, max_depth=3, inline_limit=60)
        names = ["x", "y"][:argc]
        args = [sym_arg(nm, fn.local_ty(i + 1)) for i, nm in enumerate(names)]
        if tuple_rhs and argc == 2 and fn.local_ty(2).startswith("("):
            # (F, &Self) right-hand side: scaled add  x := x + f*y
            args[1] = SX.Obj(adt="tuple", fields={0: SX.Obj(name="f"), 1: SX.Ref(SX.Cell(SX.Obj(name="y")))})
        try:
            paths = ex.run(fn, args)
        except RecursionError:
            continue
        key = "%s|%s::%s for %s" % (fn.crate, tr.rsplit("::", 1)[-1], fn.name, fn.id.split(" as ")[0].lstrip("<")[-90:] + "|rhs=" + (fn.impl.get("trait_args", ["", ""])[-1][-100:]))
        decided = True
        bad = None
        for p in paths:
            if p.flags & {"cut", "diverge", "top-branch"} or any(f.startswith("unmodelled") for f in p.flags):
                decided = False
                break
            if mode in ("ret", "ret1"):
                got = SX.q_of(p.ret)
            else:
                got = SX.q_of(ex.deref(p.args.cell(1).v)) if p.args is not None else None
            if got is None:
                decided = False
                break
            x = Q.var("x")
            if mode == "ret1":
                want = expect(x)
            elif tuple_rhs and argc == 2 and fn.local_ty(2).startswith("("):
                want = x + Q.var("f") * Q.var("y")
            else:
                want = expect(x, Q.var("y"))
            want = apply_subst(want, p.st)
            if not got.equals(want):
                bad = (got, want, p.assume)
                break
        if not decided or not paths:
            if on_undecided is not None:
                on_undecided(fn, key)
            continue
        n += 1
        if bad:
            rule.bad(key, "operator computes %r where its trait promises %r%s" % (bad[0], bad[1], (" (on the path assuming %s)" % bad[2]) if bad[2] else ""), fn.loc)
        else:
            rule.ok(key, "%d path(s)" % len(paths), fn.loc)
    return n


def check_poly_ops(res, facts):
    rule = res.rule("R-LINCOMB.univariate", "operators on Dense/SparsePolynomial that are defined through other operators compute the promised combination of their operands", 6)
    f = lambda s: "polynomial::univariate::" in s and ("DensePolynomial<" in s or "SparsePolynomial<" in s)
    check_operator_impls(rule, facts, "ws", "ark_poly", f, tuple_rhs=True)


def check_field_ops(res, facts, which, floor):
    """The by-value / by-reference / &mut operator twins on field elements (hand-written on Fp, generated by
    impl_additive_ops_from_ref! / impl_multiplicative_ops_from_ref! on the extension templates) are defined through the
    one kernel per operator: each must compute the operation its trait names, with the operands in that order
    (`&a / b` is a * b^-1, `&a - b` is a - b)."""
    rule = res.rule("R-LINCOMB.fields", "operator impls on field elements that are defined through other operators compute the operation their trait names, operands in order", floor)
    check_operator_impls(rule, facts, "ws", "ark_ff", lambda s: any(w in s for w in which), transparent=())
