use crate::json::J;
use crate::{path_str, span_str, ty_str};
use rustc_abi::FIRST_VARIANT;
use rustc_hir::def::DefKind;
use rustc_hir::def_id::DefId;
use rustc_middle::mir::interpret::Scalar;
use rustc_middle::mir::*;
use rustc_middle::ty::{self, GenericArgsRef, Instance, TyCtxt, TypeVisitableExt};

pub struct Cx<'a, 'tcx> {
    pub promoted_defs: Vec<Vec<String>>,
    pub tcx: TyCtxt<'tcx>,
    pub body: &'a Body<'tcx>,
    pub did: DefId,
    pub env: ty::TypingEnv<'tcx>,
}

fn args_json<'tcx>(args: GenericArgsRef<'tcx>) -> J {
    J::A(args
        .iter()
        .map(|a| J::S(crate::show(a)))
        .collect())
}

pub fn dump_fn<'tcx>(tcx: TyCtxt<'tcx>, did: DefId, n_bb: &mut usize) -> Option<J> {
    if !tcx.is_mir_available(did) {
        return None;
    }
    let kind = tcx.def_kind(did);
    let body: &Body<'tcx> = tcx.optimized_mir(did);
    let env = ty::TypingEnv::post_analysis(tcx, did);
    // per promoted body: the named constants it mentions (e.g. `&P::MODULUS` promoted in generic code)
    let mut promoted_defs: Vec<Vec<String>> = Vec::new();
    for pb in tcx.promoted_mir(did).iter() {
        let mut names = Vec::new();
        for bbd in pb.basic_blocks.iter() {
            for st in &bbd.statements {
                if let StatementKind::Assign(b) = &st.kind {
                    collect_const_defs(tcx, &b.1, &mut names);
                }
            }
        }
        promoted_defs.push(names);
    }
    let cx = Cx { promoted_defs, tcx, body, did, env };
    let (file, line) = span_str(tcx, tcx.def_span(did));
    let mut f: Vec<(&'static str, J)> = vec![
        ("id", J::S(path_str(tcx, did))),
        ("kind", J::S(format!("{:?}", kind))),
        ("name", J::S(tcx.opt_item_name(did).map(|s| s.to_string()).unwrap_or_default())),
        ("file", J::S(file)),
        ("line", J::I(line as i128)),
        ("mac", J::B(tcx.def_span(did).from_expansion())),
        ("argc", J::I(body.arg_count as i128)),
    ];
    if matches!(kind, DefKind::Fn | DefKind::AssocFn) {
        f.push(("const", J::B(tcx.is_const_fn(did))));
        f.push(("vis", J::S(format!("{:?}", tcx.visibility(did)))));
        f.push(("n_generics", J::I(tcx.generics_of(did).count() as i128)));
    }
    if kind == DefKind::Closure {
        f.push(("parent", J::S(path_str(tcx, tcx.typeck_root_def_id(did)))));
        let cty = tcx.type_of(did).instantiate_identity().skip_norm_wip();
        if let ty::Closure(_, cargs) = cty.kind() {
            let mut ups = Vec::new();
            for uty in cargs.as_closure().upvar_tys() {
                let (by, inner) = match uty.kind() {
                    ty::Ref(_, t, m) => (if m.is_mut() { "mut" } else { "ref" }, *t),
                    _ => ("val", uty),
                };
                ups.push(J::obj(vec![
                    ("ty", J::S(ty_str(inner))),
                    ("by", J::s(by)),
                    ("freeze", J::B(deep_freeze(tcx, env, inner, 0))),
                ]));
            }
            f.push(("upvars", J::A(ups)));
        }
    }
    if let Some(imp) = tcx.impl_of_assoc(did) {
        let self_ty = tcx.type_of(imp).instantiate_identity().skip_norm_wip();
        let mut im = vec![
            ("id", J::S(path_str(tcx, imp))),
            ("self", J::S(ty_str(self_ty))),
            (
                "self_head",
                match self_ty.kind() {
                    ty::Adt(d, _) => J::S(path_str(tcx, d.did())),
                    _ => J::Null,
                },
            ),
            ("derived", J::B(tcx.is_automatically_derived(imp))),
        ];
        if tcx.impl_is_of_trait(imp) {
            let tr = tcx.impl_trait_ref(imp).instantiate_identity().skip_norm_wip();
            im.push(("trait", J::S(path_str(tcx, tr.def_id))));
            im.push(("trait_args", args_json(tr.args)));
        }
        f.push(("impl", J::obj(im)));
    }
    if let Some(tr) = tcx.trait_of_assoc(did) {
        f.push(("trait_default_of", J::S(path_str(tcx, tr))));
    }
    // locals
    let mut locals = Vec::new();
    for d in body.local_decls.iter() {
        locals.push(J::S(ty_str(d.ty)));
    }
    f.push(("locals", J::A(locals)));
    // user variable names
    let mut dbg = Vec::new();
    for v in &body.var_debug_info {
        let val = match &v.value {
            VarDebugInfoContents::Place(p) => cx.place(*p),
            VarDebugInfoContents::Const(c) => cx.constant(c),
        };
        dbg.push(J::A(vec![J::S(v.name.to_string()), val]));
    }
    f.push(("dbg", J::A(dbg)));
    let mut bbs = Vec::new();
    for (_bb, data) in body.basic_blocks.iter_enumerated() {
        *n_bb += 1;
        let mut stmts = Vec::new();
        for st in &data.statements {
            if let Some(j) = cx.stmt(st) {
                stmts.push(j);
            }
        }
        let term = cx.term(data.terminator());
        let mut b = vec![("s", J::A(stmts)), ("t", term)];
        if data.is_cleanup {
            b.push(("cleanup", J::B(true)));
        }
        bbs.push(J::obj(b));
    }
    f.push(("bbs", J::A(bbs)));
    Some(J::obj(f))
}

impl<'a, 'tcx> Cx<'a, 'tcx> {
    fn line(&self, sp: rustc_span::Span) -> J {
        let sp = if sp.from_expansion() { sp.source_callsite() } else { sp };
        let lo = self.tcx.sess.source_map().lookup_char_pos(sp.lo());
        J::I(lo.line as i128)
    }

    pub fn place(&self, p: Place<'tcx>) -> J {
        let tcx = self.tcx;
        let mut pty = PlaceTy::from_ty(self.body.local_decls[p.local].ty);
        let mut projs = Vec::new();
        for elem in p.projection.iter() {
            let j = match elem {
                ProjectionElem::Deref => J::s("*"),
                ProjectionElem::Field(idx, _) => {
                    let name = match pty.ty.kind() {
                        ty::Adt(def, _) => {
                            let v = pty.variant_index.unwrap_or(FIRST_VARIANT);
                            if def.is_enum() || def.is_struct() || def.is_union() {
                                def.variant(v)
                                    .fields
                                    .get(idx)
                                    .map(|f| f.name.to_string())
                                    .unwrap_or_else(|| idx.as_usize().to_string())
                            } else {
                                idx.as_usize().to_string()
                            }
                        }
                        _ => idx.as_usize().to_string(),
                    };
                    J::A(vec![J::s("f"), J::I(idx.as_usize() as i128), J::S(name)])
                }
                ProjectionElem::Index(l) => J::A(vec![J::s("i"), J::I(l.as_usize() as i128)]),
                ProjectionElem::ConstantIndex { offset, min_length: _, from_end } => {
                    J::A(vec![J::s("ci"), J::I(offset as i128), J::B(from_end)])
                }
                ProjectionElem::Subslice { from, to, from_end } => {
                    J::A(vec![J::s("sub"), J::I(from as i128), J::I(to as i128), J::B(from_end)])
                }
                ProjectionElem::Downcast(name, v) => J::A(vec![
                    J::s("dc"),
                    J::I(v.as_usize() as i128),
                    J::S(name.map(|s| s.to_string()).unwrap_or_default()),
                ]),
                ProjectionElem::OpaqueCast(_) => J::s("opaque"),
                ProjectionElem::UnwrapUnsafeBinder(_) => J::s("unwrap_binder"),
            };
            projs.push(j);
            pty = pty.projection_ty(tcx, elem);
        }
        if projs.is_empty() {
            J::I(p.local.as_usize() as i128)
        } else {
            J::A(vec![J::I(p.local.as_usize() as i128), J::A(projs)])
        }
    }

    pub fn constant(&self, c: &ConstOperand<'tcx>) -> J {
        let tcx = self.tcx;
        let cst = c.const_;
        let ty = cst.ty();
        let mut o: Vec<(&'static str, J)> = Vec::new();
        if let ty::FnDef(did, args) = ty.kind() {
            o.push(("fn", self.callee(*did, args)));
            return J::obj(vec![("k", J::obj(o))]);
        }
        o.push(("ty", J::S(ty_str(ty))));
        let mut val: Option<ConstValue> = None;
        match cst {
            Const::Val(v, _) => val = Some(v),
            Const::Unevaluated(uv, _) => {
                o.push(("def", J::S(path_str(tcx, uv.def))));
                if !uv.args.is_empty() {
                    o.push(("args", args_json(uv.args)));
                }
                if let Some(p) = uv.promoted {
                    o.push(("promoted", J::I(p.as_usize() as i128)));
                    if uv.def == self.did {
                        if let Some(names) = self.promoted_defs.get(p.as_usize()) {
                            if !names.is_empty() {
                                o.push(("pdefs", J::A(names.iter().map(|n| J::S(n.clone())).collect())));
                            }
                        }
                    }
                }
                if !uv.args.has_non_region_param() && uv.promoted.is_none() {
                    if let Ok(v) = tcx.const_eval_resolve(self.env, uv, c.span) {
                        val = Some(v);
                    }
                }
                if !uv.args.has_non_region_param() && uv.promoted.is_some() && !ty.has_non_region_param() {
                    // closed promoted (e.g. the modulus literal inside derived field code): decode it
                    let r = std::panic::catch_unwind(std::panic::AssertUnwindSafe(|| {
                        tcx.const_eval_resolve(ty::TypingEnv::fully_monomorphized(), uv, c.span).ok()
                    }));
                    if let Ok(Some(v)) = r {
                        o.push(("pv", crate::consts::decode_value(tcx, v, ty)));
                    }
                }
            }
            Const::Ty(_, ct) => match ct.kind() {
                ty::ConstKind::Param(p) => o.push(("param", J::S(p.name.to_string()))),
                ty::ConstKind::Value(v) => {
                    if let Some(s) = v.try_to_leaf() {
                        o.push(("v", scalar_int(s, v.ty)));
                    }
                }
                ty::ConstKind::Unevaluated(uv) => {
                    o.push(("def", J::S(path_str(tcx, uv.def))));
                }
                _ => {}
            },
        }
        if let Some(ConstValue::Scalar(Scalar::Ptr(ptr, _))) = val {
            // pointer to a static item: record which one
            let (prov, _off) = ptr.into_raw_parts();
            if let rustc_middle::mir::interpret::GlobalAlloc::Static(sdid) = tcx.global_alloc(prov.alloc_id()) {
                o.push(("static", J::S(path_str(tcx, sdid))));
            }
        }
        if let Some(v) = val {
            match v {
                ConstValue::Scalar(Scalar::Int(s)) => {
                    o.push(("v", scalar_int(s, ty)));
                    if let ty::Adt(def, _) = ty.kind() {
                        if def.is_enum() {
                            let bits = s.to_bits(s.size());
                            for (vi, vd) in def.variants().iter_enumerated() {
                                if def.discriminant_for_variant(tcx, vi).val == bits {
                                    o.push(("variant", J::S(vd.name.to_string())));
                                }
                            }
                        }
                    }
                }
                ConstValue::ZeroSized => o.push(("zst", J::B(true))),
                ConstValue::Slice { alloc_id, meta } => {
                    // string literals
                    if let ty::Ref(_, inner, _) = ty.kind() {
                        if inner.is_str() {
                            if let rustc_middle::mir::interpret::GlobalAlloc::Memory(a) = tcx.global_alloc(alloc_id) {
                                let a = a.inner();
                                let bytes = a.inspect_with_uninit_and_ptr_outside_interpreter(0..(meta as usize).min(a.len()));
                                o.push(("str", J::S(String::from_utf8_lossy(bytes).to_string())));
                            }
                        }
                    }
                }
                _ => {}
            }
        }
        J::obj(vec![("k", J::obj(o))])
    }

    pub fn operand(&self, op: &Operand<'tcx>) -> J {
        match op {
            Operand::Copy(p) => J::obj(vec![("c", self.place(*p))]),
            Operand::Move(p) => J::obj(vec![("m", self.place(*p))]),
            Operand::Constant(c) => self.constant(c),
            Operand::RuntimeChecks(rc) => J::obj(vec![("rt", J::S(format!("{:?}", rc)))]),
        }
    }

    /// Describes a statically known callee and, when possible, the instance it resolves to in
    /// the caller's typing environment.
    pub fn callee(&self, did: DefId, args: GenericArgsRef<'tcx>) -> J {
        let tcx = self.tcx;
        let mut o: Vec<(&'static str, J)> = vec![("path", J::S(path_str(tcx, did)))];
        o.push(("name", J::S(tcx.opt_item_name(did).map(|s| s.to_string()).unwrap_or_default())));
        if !args.is_empty() {
            o.push(("targs", args_json(args)));
        }
        if let Some(tr) = tcx.trait_of_assoc(did) {
            o.push(("trait", J::S(path_str(tcx, tr))));
            if args.len() > 0 {
                if let Some(t) = args.get(0).and_then(|a| a.as_type()) {
                    o.push(("self", J::S(ty_str(t))));
                    if let ty::Adt(d, _) = t.peel_refs().kind() {
                        o.push(("self_head", J::S(path_str(tcx, d.did()))));
                    }
                }
            }
        } else if let Some(imp) = tcx.impl_of_assoc(did) {
            let st = tcx.type_of(imp).instantiate_identity().skip_norm_wip();
            if let ty::Adt(d, _) = st.kind() {
                o.push(("self_head", J::S(path_str(tcx, d.did()))));
            }
        }
        let nargs = tcx.try_normalize_erasing_regions(self.env, ty::Unnormalized::new_wip(args)).unwrap_or_else(|_| tcx.erase_and_anonymize_regions(args));
        if !nargs.has_infer() {
            if let Ok(Some(inst)) = Instance::try_resolve(tcx, self.env, did, nargs) {
                let rk = match inst.def {
                    ty::InstanceKind::Item(_) => "item",
                    ty::InstanceKind::Virtual(..) => "virtual",
                    ty::InstanceKind::Intrinsic(_) => "intrinsic",
                    ty::InstanceKind::ClosureOnceShim { .. } => "closure_once_shim",
                    ty::InstanceKind::FnPtrShim(..) => "fnptr_shim",
                    ty::InstanceKind::CloneShim(..) => "clone_shim",
                    ty::InstanceKind::DropGlue(..) => "drop_glue",
                    _ => "shim",
                };
                let rdid = inst.def_id();
                if rdid != did || rk != "item" {
                    o.push(("res", J::S(path_str(tcx, rdid))));
                    o.push(("res_kind", J::s(rk)));
                    if let Some(imp) = tcx.impl_of_assoc(rdid) {
                        o.push(("res_impl", J::S(path_str(tcx, imp))));
                    }
                } else {
                    o.push(("res_kind", J::s("self")));
                }
            }
        }
        J::obj(o)
    }

    fn rvalue(&self, rv: &Rvalue<'tcx>) -> J {
        let tcx = self.tcx;
        match rv {
            Rvalue::Use(op, _) => J::obj(vec![("k", J::s("use")), ("o", self.operand(op))]),
            Rvalue::CopyForDeref(p) => J::obj(vec![("k", J::s("use")), ("o", J::obj(vec![("c", self.place(*p))]))]),
            Rvalue::Repeat(op, n) => J::obj(vec![
                ("k", J::s("repeat")),
                ("o", self.operand(op)),
                ("n", J::S(crate::show(n))),
            ]),
            Rvalue::Ref(_, bk, p) => J::obj(vec![
                ("k", J::s("ref")),
                ("mut", J::B(matches!(bk, BorrowKind::Mut { .. }))),
                ("p", self.place(*p)),
            ]),
            Rvalue::RawPtr(k, p) => J::obj(vec![
                ("k", J::s("raw")),
                ("mut", J::B(matches!(k, RawPtrKind::Mut))),
                ("p", self.place(*p)),
            ]),
            Rvalue::Cast(ck, op, ty) => J::obj(vec![
                ("k", J::s("cast")),
                ("ck", J::S(format!("{:?}", ck))),
                ("o", self.operand(op)),
                ("ty", J::S(ty_str(*ty))),
            ]),
            Rvalue::BinaryOp(op, ab) => J::obj(vec![
                ("k", J::s("bin")),
                ("op", J::S(format!("{:?}", op))),
                ("a", self.operand(&ab.0)),
                ("b", self.operand(&ab.1)),
            ]),
            Rvalue::UnaryOp(op, a) => J::obj(vec![
                ("k", J::s("un")),
                ("op", J::S(format!("{:?}", op))),
                ("o", self.operand(a)),
            ]),
            Rvalue::Discriminant(p) => J::obj(vec![("k", J::s("discr")), ("p", self.place(*p))]),
            Rvalue::Aggregate(ak, ops) => {
                let mut o: Vec<(&'static str, J)> = vec![("k", J::s("agg"))];
                match &**ak {
                    AggregateKind::Array(_) => o.push(("ak", J::s("array"))),
                    AggregateKind::Tuple => o.push(("ak", J::s("tuple"))),
                    AggregateKind::Adt(did, vidx, _args, _, _) => {
                        o.push(("ak", J::s("adt")));
                        o.push(("adt", J::S(path_str(tcx, *did))));
                        let def = tcx.adt_def(*did);
                        let v = def.variant(*vidx);
                        o.push(("variant", J::S(v.name.to_string())));
                        o.push(("vidx", J::I(vidx.as_usize() as i128)));
                        if def.is_enum() {
                            // discriminant value as the bits a SwitchInt on this enum compares with
                            let dv = def.discriminant_for_variant(tcx, *vidx);
                            let bits = dv.ty.primitive_size(tcx).bits();
                            let mask: u128 = if bits >= 128 { u128::MAX } else { (1u128 << bits) - 1 };
                            o.push(("dv", J::U(dv.val & mask)));
                        }
                        o.push(("fields", J::A(v.fields.iter().map(|f| J::S(f.name.to_string())).collect())));
                    }
                    AggregateKind::Closure(did, _) => {
                        o.push(("ak", J::s("closure")));
                        o.push(("closure", J::S(path_str(tcx, *did))));
                    }
                    AggregateKind::RawPtr(..) => o.push(("ak", J::s("rawptr"))),
                    _ => o.push(("ak", J::s("other"))),
                }
                o.push(("ops", J::A(ops.iter().map(|x| self.operand(x)).collect())));
                J::obj(o)
            }
            Rvalue::ThreadLocalRef(_) => J::obj(vec![("k", J::s("tls"))]),
            Rvalue::WrapUnsafeBinder(op, _) => J::obj(vec![("k", J::s("use")), ("o", self.operand(op))]),
        }
    }

    fn stmt(&self, st: &Statement<'tcx>) -> Option<J> {
        match &st.kind {
            StatementKind::Assign(b) => {
                let (p, rv) = &**b;
                Some(J::obj(vec![
                    ("d", self.place(*p)),
                    ("r", self.rvalue(rv)),
                    ("ln", self.line(st.source_info.span)),
                ]))
            }
            StatementKind::SetDiscriminant { place, variant_index } => Some(J::obj(vec![
                ("setdiscr", self.place(**place)),
                ("v", J::I(variant_index.as_usize() as i128)),
            ])),
            StatementKind::Intrinsic(i) => match &**i {
                NonDivergingIntrinsic::Assume(op) => Some(J::obj(vec![("assume", self.operand(op))])),
                NonDivergingIntrinsic::CopyNonOverlapping(c) => Some(J::obj(vec![
                    ("copy_nonoverlapping", J::A(vec![self.operand(&c.src), self.operand(&c.dst), self.operand(&c.count)])),
                ])),
            },
            _ => None,
        }
    }

    fn term(&self, t: &Terminator<'tcx>) -> J {
        let bbj = |b: BasicBlock| J::I(b.as_usize() as i128);
        let unwind = |u: &UnwindAction| match u {
            UnwindAction::Cleanup(b) => J::I(b.as_usize() as i128),
            _ => J::Null,
        };
        match &t.kind {
            TerminatorKind::Goto { target } => J::obj(vec![("k", J::s("goto")), ("t", bbj(*target))]),
            TerminatorKind::FalseEdge { real_target, .. } => J::obj(vec![("k", J::s("goto")), ("t", bbj(*real_target))]),
            TerminatorKind::FalseUnwind { real_target, .. } => J::obj(vec![("k", J::s("goto")), ("t", bbj(*real_target))]),
            TerminatorKind::SwitchInt { discr, targets } => {
                let mut vals = Vec::new();
                let mut tg = Vec::new();
                for (v, b) in targets.iter() {
                    vals.push(J::U(v));
                    tg.push(bbj(b));
                }
                J::obj(vec![
                    ("k", J::s("switch")),
                    ("o", self.operand(discr)),
                    ("vals", J::A(vals)),
                    ("tgts", J::A(tg)),
                    ("else", bbj(targets.otherwise())),
                    ("ln", self.line(t.source_info.span)),
                ])
            }
            TerminatorKind::Return => J::obj(vec![("k", J::s("return"))]),
            TerminatorKind::Unreachable => J::obj(vec![("k", J::s("unreachable"))]),
            TerminatorKind::UnwindResume => J::obj(vec![("k", J::s("resume"))]),
            TerminatorKind::UnwindTerminate(_) => J::obj(vec![("k", J::s("abort"))]),
            TerminatorKind::Drop { place, target, unwind: u, .. } => J::obj(vec![
                ("k", J::s("drop")),
                ("p", self.place(*place)),
                ("t", bbj(*target)),
                ("u", unwind(u)),
            ]),
            TerminatorKind::Call { func, args, destination, target, unwind: u, .. } => {
                let f = match func.const_fn_def() {
                    Some((did, ga)) => self.callee(did, ga),
                    None => J::obj(vec![("indirect", self.operand(func))]),
                };
                J::obj(vec![
                    ("k", J::s("call")),
                    ("f", f),
                    ("args", J::A(args.iter().map(|a| self.operand(&a.node)).collect())),
                    ("d", self.place(*destination)),
                    ("t", target.map(bbj).unwrap_or(J::Null)),
                    ("u", unwind(u)),
                    ("ln", self.line(t.source_info.span)),
                    ("mac", J::B(t.source_info.span.from_expansion())),
                ])
            }
            TerminatorKind::TailCall { func, args, .. } => {
                let f = match func.const_fn_def() {
                    Some((did, ga)) => self.callee(did, ga),
                    None => J::obj(vec![("indirect", self.operand(func))]),
                };
                J::obj(vec![
                    ("k", J::s("tailcall")),
                    ("f", f),
                    ("args", J::A(args.iter().map(|a| self.operand(&a.node)).collect())),
                ])
            }
            TerminatorKind::Assert { cond, expected, msg, target, unwind: u } => {
                let m = match &**msg {
                    AssertKind::BoundsCheck { .. } => "BoundsCheck".to_string(),
                    AssertKind::Overflow(op, ..) => format!("Overflow({:?})", op),
                    AssertKind::OverflowNeg(_) => "OverflowNeg".to_string(),
                    AssertKind::DivisionByZero(_) => "DivisionByZero".to_string(),
                    AssertKind::RemainderByZero(_) => "RemainderByZero".to_string(),
                    AssertKind::MisalignedPointerDereference { .. } => "Misaligned".to_string(),
                    AssertKind::NullPointerDereference => "NullDeref".to_string(),
                    _ => "Other".to_string(),
                };
                let mut o = vec![
                    ("k", J::s("assert")),
                    ("c", self.operand(cond)),
                    ("exp", J::B(*expected)),
                    ("msg", J::S(m)),
                    ("t", bbj(*target)),
                    ("u", unwind(u)),
                    ("ln", self.line(t.source_info.span)),
                ];
                if let AssertKind::BoundsCheck { len, index } = &**msg {
                    o.push(("len", self.operand(len)));
                    o.push(("index", self.operand(index)));
                }
                J::obj(o)
            }
            TerminatorKind::InlineAsm { targets, .. } => J::obj(vec![
                ("k", J::s("asm")),
                ("tgts", J::A(targets.iter().map(|b| bbj(*b)).collect())),
            ]),
            TerminatorKind::Yield { .. } | TerminatorKind::CoroutineDrop => J::obj(vec![("k", J::s("coroutine"))]),
        }
    }
}

/// No interior mutability reachable by value or through shared references.  `Copy` implies the
/// absence of `UnsafeCell` (which is not `Copy`), which settles generic parameters bounded by `Copy`.
fn deep_freeze<'tcx>(tcx: TyCtxt<'tcx>, env: ty::TypingEnv<'tcx>, t: ty::Ty<'tcx>, depth: usize) -> bool {
    if depth > 6 {
        return false;
    }
    match t.kind() {
        ty::Ref(_, inner, _) | ty::RawPtr(inner, _) => deep_freeze(tcx, env, *inner, depth + 1),
        ty::Slice(e) | ty::Array(e, _) => deep_freeze(tcx, env, *e, depth + 1),
        ty::Tuple(ts) => ts.iter().all(|x| deep_freeze(tcx, env, x, depth + 1)),
        _ => {
            if tcx.type_is_copy_modulo_regions(env, t) {
                return true;
            }
            if !t.is_freeze(tcx, env) {
                return false;
            }
            // Freeze by value; look through ADT fields for references to non-freeze data
            if let ty::Adt(def, args) = t.kind() {
                if def.is_union() {
                    return false;
                }
                for v in def.variants() {
                    for f in v.fields.iter() {
                        let ft = f.ty(tcx, *args);
                        if matches!(ft.kind(), ty::Ref(..) | ty::RawPtr(..)) && !deep_freeze(tcx, env, ft, depth + 1) {
                            return false;
                        }
                    }
                }
            }
            true
        }
    }
}

fn collect_const_defs<'tcx>(tcx: TyCtxt<'tcx>, rv: &Rvalue<'tcx>, out: &mut Vec<String>) {
    let mut ops: Vec<&Operand<'tcx>> = Vec::new();
    match rv {
        Rvalue::Use(o, _) | Rvalue::Repeat(o, _) | Rvalue::Cast(_, o, _) | Rvalue::UnaryOp(_, o) => ops.push(o),
        Rvalue::BinaryOp(_, ab) => {
            ops.push(&ab.0);
            ops.push(&ab.1);
        }
        Rvalue::Aggregate(ak, v) => {
            if let AggregateKind::Adt(did, vidx, _, _, _) = &**ak {
                if v.is_empty() {
                    // fieldless enum variant literal, e.g. `&Validate::Yes`
                    let def = tcx.adt_def(*did);
                    out.push(format!("variant:{}::{}#{}", path_str(tcx, *did), def.variant(*vidx).name, vidx.as_usize()));
                }
            }
            for o in v.iter() {
                ops.push(o);
            }
        }
        _ => {}
    }
    for o in ops {
        if let Operand::Constant(c) = o {
            if let Const::Unevaluated(uv, _) = c.const_ {
                if uv.promoted.is_none() {
                    out.push(path_str(tcx, uv.def));
                }
            }
            if let Const::Val(ConstValue::Scalar(Scalar::Int(si)), ty) = c.const_ {
                if ty.is_integral() {
                    // integer literals inside a promoted (e.g. `&[1, 2]`)
                    let sz = si.size();
                    out.push(format!("lit:{}", si.to_bits(sz)));
                }
                if let ty::Adt(def, _) = ty.kind() {
                    if def.is_enum() {
                        let bits = si.to_bits(si.size());
                        for (vi, v) in def.variants().iter_enumerated() {
                            if def.discriminant_for_variant(tcx, vi).val == bits {
                                out.push(format!("variant:{}::{}#{}", path_str(tcx, def.did()), v.name, vi.as_usize()));
                            }
                        }
                    }
                }
            }
        }
    }
}

pub fn scalar_int<'tcx>(s: ty::ScalarInt, ty: ty::Ty<'tcx>) -> J {
    let size = s.size();
    let bits = s.to_bits(size);
    match ty.kind() {
        ty::Bool => J::B(bits != 0),
        ty::Int(_) => {
            let sh = 128 - size.bits() as u32;
            let v = ((bits << sh) as i128) >> sh;
            J::I(v)
        }
        _ => J::U(bits),
    }
}
