"""C01 R-CIOS: word-level proof that the derive-generated Montgomery multiplications compute a*b*R^-1 modulo p.

For every `MontConfig::mul_assign` emitted by `#[derive(MontConfig)]` (one straight-line body per configuration, the
modulus limbs and INV baked in as literals) the body is executed symbolically on limb symbols a_i, b_j.  Every
`mac` / `mac_with_carry` / `adc` step introduces a pair (low word, high word) with low + 2^64 high = the exact u128 value
(R-LIMB of C15 shows the primitives compute that value); `wrapping_mul` yields the low word k of r0*INV; `mac_discard`
drops a low word.  With OUT the limbs handed to the final conditional subtraction (plus its carry flag, if any),
M = sum k_i W^i and D = sum (dropped low word)_i W^i, the rule checks the polynomial identity

        OUT * W^N  =  A * B  +  M * P  -  D                       (W = 2^64, P the configuration's modulus)

after eliminating the low words, and that every dropped word is zero: it is the low word of r0 + k*p0 with
k = r0*INV mod W (checked symbolically) and INV*p0 = -1 mod W (checked on the constants).  Hence OUT = a*b*W^-N mod p
for ALL limb contents.  The final conditional subtraction is decided by R-REDUCER.  Assumed: intermediate sums fit the
types used (no-carry optimisation: carry1 + carry2 < 2^64, which is what CAN_USE_NO_CARRY_MUL_OPT -- R-SHAPE -- encodes).
"""
import re
from arklib import symex as SX
from arklib.poly import Q

W = 1 << 64


def _models(events):
    from rules.c15 import word_models
    wm = word_models()

    def q(ex, v):
        v = ex.deref(v)
        if isinstance(v, bool):
            return Q.const(int(v))
        return SX.q_of(v)

    def wrapping_mul(ex, st, fr, t, a):
        x, y = q(ex, a[0]), q(ex, a[1])
        if x is None or y is None:
            return SX.TOP
        lo, hi = ex.split(x * y)
        st.events.append(("wrap", x * y, lo, hi))
        return lo
    wm.on(SX.by(None, "wrapping_mul"), wrapping_mul)

    def mac_discard(ex, st, fr, t, a):
        vs = [q(ex, z) for z in a]
        if any(v is None for v in vs):
            return SX.TOP
        x = vs[0] + vs[1] * vs[2] + vs[3]
        lo, hi = ex.split(x)
        st.events.append(("discard", x, lo, hi))
        ex.write_ref(a[3], hi)
        return SX.Obj(adt="()")
    wm.on(SX.by(None, "mac_discard"), mac_discard)

    def mac(ex, st, fr, t, a):
        # fa::mac(a, b, c, &mut carry): returns the low word of a + b*c, stores the high word
        vs = [q(ex, z) for z in a[:3]]
        if len(a) != 4 or any(v is None for v in vs):
            return NotImplemented
        x = vs[0] + vs[1] * vs[2]
        lo, hi = ex.split(x)
        st.events.append(("mac", x, lo, hi, vs[1]))
        ex.write_ref(a[3], hi)
        return lo
    wm.on(SX.by(None, "mac"), mac)

    def adc(ex, st, fr, t, a):
        # fa::adc(&mut a, b, carry) -> carry out
        vs = [q(ex, z) for z in a]
        if len(a) != 3 or any(v is None for v in vs):
            return NotImplemented
        x = vs[0] + vs[1] + vs[2]
        lo, hi = ex.split(x)
        st.events.append(("adc", x, lo, hi))
        ex.write_ref(a[0], lo)
        return hi
    wm.on(SX.by(None, "adc"), adc)

    def subtract(ex, st, fr, t, a):
        c = None
        if len(a) > 1:
            v = ex.deref(a[1])
            if isinstance(v, SX.Cond) and v.kind == "eq" and isinstance(v.a, Q) and isinstance(v.b, Q) and v.b.is_zero():
                c = v.a              # `carry != 0` (or == 0): the carry word itself
            elif isinstance(v, bool):
                c = Q.const(int(v))
            else:
                c = SX.q_of(v)
        st.events.append(("subtract", c))
        return SX.Obj(adt="()")
    wm.on(SX.by(None, "__subtract_modulus"), subtract)
    wm.on(SX.by(None, "__subtract_modulus_with_carry"), subtract)
    wm.on(SX.by(None, "subtract_modulus"), subtract)
    wm.on(SX.by(None, "subtract_modulus_with_carry"), subtract)

    def index(ex, st, fr, t, a):
        # scratch[N..] : sub-array
        arr, rng = ex.deref(a[0]), ex.deref(a[1])
        if isinstance(arr, SX.Obj) and arr.adt == "array" and isinstance(rng, SX.Obj) and set(rng.fields) == {0} and isinstance(rng.fields[0], int):
            k = rng.fields[0]
            return SX.Ref(SX.Cell(SX.Obj(adt="array", fields={i - k: v for i, v in arr.fields.items() if i >= k})))
        return NotImplemented
    wm.on(SX.by("core::ops::index::Index", "index"), index)
    wm.on(SX.by(None, "try_into"), lambda ex, st, fr, t, a: SX.some(ex.deref(a[0])))

    def copy_from_slice(ex, st, fr, t, a):
        import os
        src = ex.deref(a[1])
        if os.environ.get("VERIF_DEBUG"):
            print("copy_from_slice", type(a[0]).__name__, type(src).__name__, getattr(src, "adt", None), str(src)[:80])
        if isinstance(src, SX.Obj) and src.adt == "array" and isinstance(a[0], SX.Ref):
            import copy as _copy
            ex.write_ref(a[0], _copy.deepcopy(src))
            return SX.Obj(adt="()")
        return NotImplemented
    wm.on(SX.by(None, "copy_from_slice"), copy_from_slice)

    def contains(ex, st, fr, t, a):
        import os
        r, x = ex.deref(a[0]), ex.deref(a[1])
        if os.environ.get("VERIF_DEBUG"):
            print("contains", str(r)[:80], getattr(r, "adt", None), getattr(r, "fields", None), x, t["f"].get("path"))
        if not isinstance(r, SX.Obj) and isinstance(x, int):
            # `(2..=6).contains(&N)`: the range is a promoted constant; read its two literals off the operand
            from arklib import dataflow as DF
            kc = DF.direct_const(fr.fn, t["args"][0]) or {}
            lits = [int(d_[4:]) for d_ in (kc.get("pdefs") or []) if d_.startswith("lit:")]
            if len(lits) >= 2:
                incl = "RangeInclusive" in (t["f"].get("path") or "")
                return lits[0] <= x < lits[1] + (1 if incl else 0)
            return NotImplemented
        if isinstance(r, SX.Obj) and isinstance(x, int) and all(isinstance(r.fields.get(i), int) for i in (0, 1)):
            hi_ = r.fields[1] + (1 if "Inclusive" in (r.adt or "") else 0)
            return r.fields[0] <= x < hi_
        return NotImplemented
    wm.on(SX.by(None, "contains"), contains)

    def unwrap(ex, st, fr, t, a):
        o = ex.deref(a[0])
        if isinstance(o, SX.Obj) and o.variant in ("Some", "Ok") and 0 in o.fields:
            return o.fields[0]
        return NotImplemented
    wm.on(SX.by(None, "unwrap"), unwrap)
    wm.on(SX.by(None, "expect"), unwrap)
    return wm


def prove(facts, fn, P, INV, N, square=False, cv=None):
    """-> (verdict, message): verdict in 'ok' | 'bad' | 'undecided'.  cv: constant resolver for generic (trait-default)
    bodies, which are run with the configuration's constants and a concrete limb count"""
    from rules.c15 import WordEngine, _loop_models
    events = []
    wm = _models(events)
    if cv is not None:
        wm = _loop_models(wm)
    ex = WordEngine(facts, fn.unit, wm, env={"N": N}, max_paths=10, max_depth=8, inline_limit=(20000 if cv is not None else 200), max_visits=(4 * N * N + 16 if cv is not None else 2), const_value=cv)

    def big(prefix):
        return SX.Obj(adt="BigInt", fields={0: SX.Obj(adt="array", fields={i: Q.var("%s%d" % (prefix, i)) for i in range(N)})})
    a = SX.Obj(adt="Fp", fields={0: big("a")})
    ca = SX.Cell(a)
    args = [SX.Ref(ca)] if square else [SX.Ref(ca), SX.Ref(SX.Cell(SX.Obj(adt="Fp", fields={0: big("b")})))]
    try:
        paths = [p for p in ex.run(fn, args) if "panic" not in p.flags]
    except Exception as e:
        return "undecided", "symbolic evaluation failed: %s" % str(e)[:80]
    # a test that cannot be evaluated but whose arms rejoin (`(2..=6).contains(&N) && cfg!(asm..)` with cfg! false) forks
    # the evaluation; every resulting path must satisfy the identity
    benign = {"top-branch", "unmodelled:contains"}
    if not paths or any(p_.flags - benign for p_ in paths) or len(paths) > 4:
        return "undecided", "the body is not a straight-line word computation (%d paths, flags %s)" % (len(paths), sorted(set().union(*[p_.flags for p_ in paths]))[:4] if paths else [])
    verdicts = [_prove_path(ex, p_, ca, P, INV, N, square) for p_ in paths]
    for v_ in verdicts:
        if v_[0] != "ok":
            return v_
    return verdicts[0]


def _prove_path(ex, path, ca, P, INV, N, square):
    events = [e for e in path.st.events if e and e[0] in ("wrap", "discard", "mac", "adc", "subtract")]
    try:
        cell_v = path.args.cell(1).v if getattr(path, "args", None) is not None else ca.v
        out = ex.deref(ex.deref(cell_v).fields[0])
        arr = ex.deref(out.fields[0])
        limbs = [SX.q_of(ex.deref(arr.fields[i])) for i in range(N)]
    except Exception as e:
        return "undecided", "result limbs not found (%s)" % str(e)[:60]
    if any(x is None for x in limbs):
        return "undecided", "a result limb is not a word expression"
    wraps = [e for e in events if e[0] == "wrap"]
    knames = {next(iter(e[2].n.vars())) for e in wraps}
    # dropped low words: explicit mac_discard, or a `mac(r0, k, p0, ..)` with k one of the Montgomery factors (its result
    # is not used by the generated code; if it were, the identity below would fail)
    discs = [e for e in events if e[0] == "discard" or (e[0] == "mac" and e[4].is_poly() and len(e[4].n.vars()) == 1 and next(iter(e[4].n.vars())) in knames and e[4].equals(Q.var(next(iter(e[4].n.vars())))))]
    if not discs:
        # const-fn form: the step `mac!(r0, k, p0, &mut carry)` is inline arithmetic; its decomposition is the first one
        # whose value is r0 + k*p0 for the Montgomery factor k of that step
        p0_ = P % W
        for we in wraps:
            kn = next(iter(we[2].n.vars()))
            for (x, lo, hi) in ex.decomp:
                if x.is_poly() and x.n.t.get(((kn, 1),)) == p0_ and not any(kn in [v for v, _e in mono] for mono in x.n.t if mono != ((kn, 1),)):
                    discs.append(("discard", x, lo, hi))
                    break
    subs = [e for e in events if e[0] == "subtract"]
    adcs = [e for e in events if e[0] == "adc"]
    if len(wraps) != N or len(discs) != N or len(subs) != 1:
        return "undecided", "expected N Montgomery steps (k = r0*INV, dropped low word) and one final reduction; found %d / %d / %d" % (len(wraps), len(discs), len(subs))
    A = sum((Q.var("a%d" % i) * Q.const(W ** i) for i in range(N)), Q.const(0))
    B = A if square else sum((Q.var("b%d" % i) * Q.const(W ** i) for i in range(N)), Q.const(0))
    OUT = sum((x * Q.const(W ** k) for k, x in enumerate(limbs)), Q.const(0))
    note = ""
    if subs[0][1] is not None:
        OUT = OUT + subs[0][1] * Q.const(W ** N)
    elif adcs:
        # general CIOS with a spare bit: the carry out of the top word is not handed to the reduction because it is 0
        # (a, b < p < 2^(64N-1) give (a*b + M*p) / W^N < 2p < W^N); it is added here so that the identity is exact
        OUT = OUT + adcs[-1][3] * Q.const(W ** N)
        note = "; top carry word assumed 0 by the bound 2p < W^N (spare bit)"
    M = sum((e[2] * Q.const(W ** i) for i, e in enumerate(wraps)), Q.const(0))
    D = sum((e[2] * Q.const(W ** i) for i, e in enumerate(discs)), Q.const(0))
    d = OUT * Q.const(W ** N) - A * B - M * Q.const(P) + D
    wrapnames = {next(iter(e[2].n.vars())) for e in wraps}
    for (x, lo, hi) in reversed(ex.decomp):
        ln = next(iter(lo.n.vars()))
        if ln in wrapnames:
            continue
        if ln in d.vars():
            d = d.subst(ln, (x - Q.const(ex.base_of(lo)) * hi).n)
    spare = P.bit_length() < 64 * N
    if subs[0][1] is None and not spare and N > 0:
        # without a spare bit (a*b + M*p)/W^N can reach W^N: the carry out of the top word must reach the reduction
        carry_needed = True
    else:
        carry_needed = False
    if carry_needed and not d.is_zero():
        return "bad", "the modulus has no spare bit but the final reduction is not given the carry out of the top word (residual %s): sums that reach 2^(64N) are reduced as if the carry were 0" % str(d)[:100]
    if (square or subs[0][1] is None) and not d.is_zero() and d.is_poly():
        # the 2N-word square of an N-word value has no carry out of word 2N-1: carry symbols that would be worth
        # W^(2N) are zero by that bound (a^2 < W^(2N)); they are not stored by the code
        from arklib.poly import Poly
        rest, dropped = {}, 0
        for mono, c in d.n.t.items():
            names = [v for v, e in mono] if mono and isinstance(mono[0], tuple) else list(mono)
            single = len(mono) == 1 and (mono[0][1] == 1 if isinstance(mono[0], tuple) else True)
            nm = (mono[0][0] if isinstance(mono[0], tuple) else mono[0]) if mono else ""
            if single and (nm.startswith("hi#") or nm.startswith("top#")) and c % (W ** (2 * N)) == 0:
                dropped += 1
            else:
                rest[mono] = c
        if not rest:
            d = Q.const(0)
            note = note + "; %d carry symbol(s) worth W^(2N) taken as 0 (%s)" % (dropped, "a^2 < W^(2N)" if square else "spare bit: (a*b + M*p)/W^N < 2p < W^N")
    if not d.is_zero():
        return "bad", "OUT*W^N - (A*B + M*P - D) reduces to %s, not 0: the limb schedule does not compute a*b*R^-1 mod p" % str(d)[:140]
    p0 = P % W
    if (INV * p0 + 1) % W != 0:
        return "bad", "INV * p0 != -1 mod 2^64: the low word dropped by each Montgomery step is not zero"
    for i, (we, de) in enumerate(zip(wraps, discs)):
        xw, klo, xd = we[1], we[2], de[1]
        r0 = xd - klo * Q.const(p0)
        if not (xw - r0 * Q.const(INV)).is_zero():
            return "bad", "step %d: k is the low word of %s, but the dropped word is the low word of %s: k != r0*INV for the r0 that is reduced" % (i, str(xw)[:60], str(xd)[:60])
    return "ok", "OUT*W^N = A*B + M*P - D identically (%d word decompositions); each dropped word D_i is 0 (k_i = r0_i*INV mod W, INV*p0 = -1 mod W)%s" % (len(ex.decomp), note)


def prove_reduce(facts, fn, P, INV, N, cv):
    """into_bigint (Montgomery reduction of a single element): OUT * W^N = A + M*P - D, dropped words zero"""
    from rules.c15 import WordEngine, _loop_models
    wm = _loop_models(_models([]))
    ex = WordEngine(facts, fn.unit, wm, env={"N": N}, max_paths=10, max_depth=8, inline_limit=20000, max_visits=4 * N * N + 16, const_value=cv)
    a = SX.Obj(adt="Fp", fields={0: SX.Obj(adt="BigInt", fields={0: SX.Obj(adt="array", fields={i: Q.var("a%d" % i) for i in range(N)})})})
    try:
        paths = [p for p in ex.run(fn, [a]) if "panic" not in p.flags]
    except Exception as e:
        return "undecided", "symbolic evaluation failed: %s" % str(e)[:80]
    if len(paths) != 1 or paths[0].flags:
        return "undecided", "the body is not a straight-line word computation (%d paths, flags %s)" % (len(paths), sorted(paths[0].flags)[:4] if paths else [])
    path = paths[0]
    try:
        arr = ex.deref(ex.deref(path.ret).fields[0])
        limbs = [SX.q_of(ex.deref(arr.fields[i])) for i in range(N)]
    except Exception as e:
        return "undecided", "result limbs not found (%s)" % str(e)[:60]
    if any(x is None for x in limbs):
        return "undecided", "a result limb is not a word expression"
    wraps = [e for e in path.st.events if e and e[0] == "wrap"]
    if len(wraps) != N:
        return "undecided", "expected N Montgomery steps, found %d" % len(wraps)
    p0 = P % W
    discs = []
    for we in wraps:
        kn = next(iter(we[2].n.vars()))
        for (x, lo, hi) in ex.decomp:
            if x.is_poly() and x.n.t.get(((kn, 1),)) == p0 and not any(kn in [v for v, _e in mono] for mono in x.n.t if mono != ((kn, 1),)):
                discs.append((x, lo, hi))
                break
    if len(discs) != N:
        return "undecided", "dropped low words not identified (%d of %d)" % (len(discs), N)
    A = sum((Q.var("a%d" % i) * Q.const(W ** i) for i in range(N)), Q.const(0))
    OUT = sum((x * Q.const(W ** k) for k, x in enumerate(limbs)), Q.const(0))
    M = sum((e[2] * Q.const(W ** i) for i, e in enumerate(wraps)), Q.const(0))
    D = sum((dl[1] * Q.const(W ** i) for i, dl in enumerate(discs)), Q.const(0))
    d = OUT * Q.const(W ** N) - A - M * Q.const(P) + D
    wrapnames = {next(iter(e[2].n.vars())) for e in wraps}
    for (x, lo, hi) in reversed(ex.decomp):
        ln = next(iter(lo.n.vars()))
        if ln in wrapnames:
            continue
        if ln in d.vars():
            d = d.subst(ln, (x - Q.const(ex.base_of(lo)) * hi).n)
    if not d.is_zero():
        return "bad", "OUT*W^N - (A + M*P - D) reduces to %s, not 0: the reduction does not compute a*R^-1 mod p" % str(d)[:140]
    if (INV * p0 + 1) % W != 0:
        return "bad", "INV * p0 != -1 mod 2^64"
    for i, (we, dl) in enumerate(zip(wraps, discs)):
        r0 = dl[0] - we[2] * Q.const(p0)
        # r0 may include the incoming carry of the step (0): the Montgomery factor must be r0 * INV
        if not (we[1] - r0 * Q.const(INV)).is_zero():
            return "bad", "step %d: k is the low word of %s but the dropped word is the low word of %s" % (i, str(we[1])[:60], str(dl[0])[:60])
    return "ok", "OUT*W^N = A + M*P - D identically (%d word decompositions); each dropped word is 0" % len(ex.decomp)


def check_cios_default(rule, facts):
    """the trait-default bodies (generic in N, loops expanded by unroll_for_loops) are what hand-written configurations
    run: they are evaluated with each such configuration's constants (MODULUS, INV, the no-carry / spare-bit flags) and
    its limb count, and must satisfy the same identity"""
    MONT = "ark_ff::fields::models::fp::montgomery_backend::MontConfig"
    defaults = {f.name: f for f in facts.fns(unit="ws", crate="ark_ff") if f.kind != "Closure" and f.id in (MONT + "::mul_assign", MONT + "::square_in_place")}
    table = {}
    for c in facts.crates:
        for k in c.consts:
            if k.get("owner") and k.get("trait", "").endswith("MontConfig"):
                table.setdefault((c.unit, k["owner"]), {})[k["name"]] = k.get("val")
    overriding = {(f.unit, (f.impl or {}).get("self")) for f in facts.fns() if f.name == "mul_assign" and (f.trait_impl or "").endswith("MontConfig") and not f.default_of}
    ib = [f for f in facts.fns(unit="ws", crate="ark_ff") if f.kind != "Closure" and f.id == MONT + "::into_bigint"]
    ib_over = {(f.unit, (f.impl or {}).get("self")) for f in facts.fns() if f.name == "into_bigint" and (f.trait_impl or "").endswith("MontConfig") and not f.default_of}
    if ib:
        # the conversion out of Montgomery form is the trait default for every configuration: one instance per shape
        # (limb count, modulus) -- run with each configuration's constants
        seen_mod = set()
        for (unit, owner), cs in sorted(table.items()):
            if (unit, owner) in ib_over or not isinstance(cs.get("MODULUS"), dict) or not isinstance(cs.get("INV"), int):
                continue
            limbs = cs["MODULUS"]["0"]
            P_ = sum(x << (64 * i) for i, x in enumerate(limbs))
            if (P_, len(limbs)) in seen_mod:
                continue
            seen_mod.add((P_, len(limbs)))

            def cv2(d, k, ctx=(), cs=cs, limbs=limbs):
                nm = d.rsplit("::", 1)[-1]
                if nm == "MODULUS":
                    return SX.Obj(adt="BigInt", fields={0: SX.Obj(adt="array", fields={i: x for i, x in enumerate(limbs)})})
                v = cs.get(nm)
                return v if isinstance(v, (bool, int)) else None
            verdict, msg = prove_reduce(facts, ib[0], P_, cs["INV"], len(limbs), cv2)
            key = "%s|%s|into_bigint(default)" % (unit, owner)
            (rule.ok if verdict == "ok" else rule.bad if verdict == "bad" else rule.undecided)(key, msg, ib[0].loc)
    for (unit, owner), cs in sorted(table.items()):
        if (unit, owner) in overriding or not isinstance(cs.get("MODULUS"), dict) or not isinstance(cs.get("INV"), int):
            continue
        limbs = cs["MODULUS"]["0"]
        N = len(limbs)
        P = sum(x << (64 * i) for i, x in enumerate(limbs))

        def cv(d, k, ctx=(), cs=cs, limbs=limbs):
            nm = d.rsplit("::", 1)[-1]
            if nm == "MODULUS":
                return SX.Obj(adt="BigInt", fields={0: SX.Obj(adt="array", fields={i: x for i, x in enumerate(limbs)})})
            v = cs.get(nm)
            if isinstance(v, (bool, int)):
                return v
            return None
        for name, fn in sorted(defaults.items()):
            if name == "into_bigint":
                continue
            if name == "square_in_place" and N == 1:
                continue
            key = "%s|%s|%s(default)" % (unit, owner, name)
            verdict, msg = prove(facts, fn, P, cs["INV"], N, square=(name == "square_in_place"), cv=cv)
            (rule.ok if verdict == "ok" else rule.bad if verdict == "bad" else rule.undecided)(key, msg, fn.loc)


def check_cios(res, facts, units):
    rule = res.rule("R-CIOS", "derive-generated Montgomery mul_assign / square_in_place: OUT*W^N = A*B + M*P with every dropped low word zero, for all limb contents [word-level polynomial identity per configuration]", 180)
    consts = {}
    for c in facts.crates:
        for k in c.consts:
            if k["name"] in ("MODULUS", "INV") and k.get("owner"):
                consts[(c.unit, k["owner"], k["name"])] = k.get("val")
    seen = set()
    for unit in units:
        for fn in facts.fns(unit=unit):
            if fn.kind == "Closure" or fn.name not in ("mul_assign", "square_in_place") or not (fn.trait_impl or "").endswith("MontConfig") or fn.default_of:
                continue
            owner = (fn.impl or {}).get("self")
            m = re.search(r"MontConfig<(\d+)>", fn.id)
            if not owner or not m:
                continue
            key = "%s|%s|%s" % (fn.crate, owner, fn.name)
            if key in seen:
                continue
            seen.add(key)
            N = int(m.group(1))
            pv, inv = consts.get((unit, owner, "MODULUS")), consts.get((unit, owner, "INV"))
            if not isinstance(pv, dict) or not isinstance(inv, int):
                rule.undecided(key, "MODULUS / INV of the configuration not found in the constant table", fn.loc)
                continue
            P = sum(x << (64 * i) for i, x in enumerate(pv["0"]))
            names = {t["f"].get("name") for _, t in fn.calls()}
            if fn.name == "square_in_place" and "wrapping_mul" not in names:
                continue        # delegates to mul_assign (N = 1) -- nothing of its own
            verdict, msg = prove(facts, fn, P, inv, N, square=(fn.name == "square_in_place"))
            (rule.ok if verdict == "ok" else rule.bad if verdict == "bad" else rule.undecided)(key, msg, fn.loc)
    check_cios_default(rule, facts)
