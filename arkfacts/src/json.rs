// Minimal JSON value + writer (the driver has no crate dependencies).
pub enum J {
    Null,
    B(bool),
    I(i128),
    U(u128),
    S(String),
    A(Vec<J>),
    O(Vec<(&'static str, J)>),
    M(Vec<(String, J)>),
}

impl J {
    pub fn s(x: &str) -> J {
        J::S(x.to_string())
    }
    pub fn obj(v: Vec<(&'static str, J)>) -> J {
        J::O(v)
    }
    pub fn write(&self, out: &mut String) {
        match self {
            J::Null => out.push_str("null"),
            J::B(b) => out.push_str(if *b { "true" } else { "false" }),
            J::I(i) => out.push_str(&i.to_string()),
            J::U(u) => out.push_str(&u.to_string()),
            J::S(s) => write_str(s, out),
            J::A(v) => {
                out.push('[');
                for (i, x) in v.iter().enumerate() {
                    if i > 0 {
                        out.push(',');
                    }
                    x.write(out);
                }
                out.push(']');
            }
            J::O(v) => {
                out.push('{');
                for (i, (k, x)) in v.iter().enumerate() {
                    if i > 0 {
                        out.push(',');
                    }
                    write_str(k, out);
                    out.push(':');
                    x.write(out);
                }
                out.push('}');
            }
            J::M(v) => {
                out.push('{');
                for (i, (k, x)) in v.iter().enumerate() {
                    if i > 0 {
                        out.push(',');
                    }
                    write_str(k, out);
                    out.push(':');
                    x.write(out);
                }
                out.push('}');
            }
        }
    }
}

fn write_str(s: &str, out: &mut String) {
    out.push('"');
    for c in s.chars() {
        match c {
            '"' => out.push_str("\\\""),
            '\\' => out.push_str("\\\\"),
            '\n' => out.push_str("\\n"),
            '\r' => out.push_str("\\r"),
            '\t' => out.push_str("\\t"),
            c if (c as u32) < 0x20 => out.push_str(&format!("\\u{:04x}", c as u32)),
            c => out.push(c),
        }
    }
    out.push('"');
}
