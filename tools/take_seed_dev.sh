#!/bin/bash
# take_seed_dev.sh <round-tag> <ID> [extra check ids...]: like take_seed.sh, but the seeded change is applied to the scratch
# worktree /tmp/dev_wt (ARK_REPO) so that /repo stays free; evidence written by these runs is refreshed later.
tag=$1; id=$2; shift 2; wt=${WT_PREFIX:-/tmp/w4_}$id
for v in A B; do
  d=/verif/seeded/$id-$tag$v; mkdir -p $d; cp -r $wt/SEED/$v/* $d/ 2>/dev/null
done
find /verif/seeded -name target -type d | xargs rm -rf
git -C /repo worktree remove --force $wt
for v in A B; do
  d=/verif/seeded/$id-$tag$v
  echo "== $id-$tag$v"
  git -C /tmp/dev_wt checkout HEAD -- .
  if git -C /tmp/dev_wt apply --check $d/patch.diff 2>/dev/null; then
    git -C /tmp/dev_wt apply $d/patch.diff
    for c in $id "$@"; do
      ARK_REPO=/tmp/dev_wt python3 /verif/check.py $c 2>&1 | grep -E "^(FAIL|OK|VIOLATION|KNOWN)" | grep -v "^KNOWN" | cut -c1-420 | head -4
    done
    git -C /tmp/dev_wt checkout HEAD -- .
  else
    echo "patch does not apply"; git -C /tmp/dev_wt apply --check $d/patch.diff 2>&1 | head -3
  fi
done
