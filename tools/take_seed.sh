#!/bin/bash
# take_seed.sh <round-tag> <ID>   e.g. take_seed.sh r2 C03 : copy /tmp/w2_<ID>/SEED/{A,B} to /verif/seeded/<ID>-<tag>{A,B}, remove worktree, test with check
tag=$1; id=$2; wt=${WT_PREFIX:-/tmp/w2_}$id
for v in A B; do
  d=/verif/seeded/$id-$tag$v; mkdir -p $d; cp -r $wt/SEED/$v/* $d/ 2>/dev/null
done
find /verif/seeded -name target -type d | xargs rm -rf
git -C /repo worktree remove --force $wt
for v in A B; do
  d=/verif/seeded/$id-$tag$v
  echo "== $id-$tag$v"
  if git -C /repo apply --check $d/patch.diff 2>/dev/null; then
    git -C /repo apply $d/patch.diff
    python3 /verif/check.py $id 2>&1 | grep -E "^(FAIL|OK|VIOLATION|KNOWN)" | cut -c1-${3:-420} | head -4
    git -C /repo checkout HEAD -- .
  else
    echo "patch does not apply to current HEAD"; git -C /repo apply --check $d/patch.diff 2>&1 | head -3
  fi
done
git -C /repo status --short | head -3
# evidence files must come from the unchanged tree: re-run the check there
python3 /verif/check.py $id 2>&1 | grep -E "^(FAIL|OK|VIOLATION)" | cut -c1-120
