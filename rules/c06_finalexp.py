"""C06, R-FINALEXP.exponent — the final exponentiation raises to a non-degenerate multiple of (q^k - 1)/r.

The Miller value f lies in F_{q^k}^*, a cyclic group of order M = q^k - 1.  Every operation of the final
exponentiation is a power map on that group, so the whole routine is f -> f^E for one integer E mod M.  The rule
evaluates the routine's MIR in the *exponent domain*: an element is represented by its exponent (an integer mod M);
multiplication adds exponents, squaring doubles, inversion negates, the Frobenius map multiplies by q^i, conjugation
/ cyclotomic inversion multiply by q^(k/2) (conjugation IS the Frobenius power q^(k/2); no subgroup assumption is
needed), exponentiation by a constant multiplies.  Configuration constants (X, signs, H_T, H_Y, W0, W1 ...) come from
the compiler-evaluated constant table of each shipped configuration, with the integer semantics of the source
(wrapping `as u64` casts, truncating division).

Obligation per configuration:  M | E*r  (the result has order dividing r, for EVERY f), and gcd(E*r/M, r) = 1
(the map (q^k-1)/r-th power is not further collapsed: non-degeneracy is preserved).
"""
from math import gcd
from arklib import symex as SX, numth as N
from rules.c16_pairing import impl_types

FAMILIES = [
    # (trait suffix, embedding degree, trait path of the model)
    ("bls12::Bls12Config", 12),
    ("bn::BnConfig", 12),
    ("bw6::BW6Config", 6),
    ("mnt4::MNT4Config", 4),
    ("mnt6::MNT6Config", 6),
]


def limbs_int(v):
    if isinstance(v, list):
        return sum(x << (64 * i) for i, x in enumerate(v))
    return v


def exp_models(M, q, k):
    half = pow(q, k // 2, M)

    def val(ex, a):
        d = ex.deref(a)
        return d if isinstance(d, int) and not isinstance(d, bool) else None

    def slice_int(ex, a):
        d = ex.deref(a)
        if isinstance(d, SX.Obj) and d.fields and all(isinstance(d.fields[i], int) for i in d.fields):
            return sum(d.fields[i] << (64 * i) for i in sorted(d.fields))
        if isinstance(d, int) and not isinstance(d, bool):
            return d
        return None

    def extra(m):
        def mul(ex, st, fr, t, a):
            x, y = val(ex, a[0]), val(ex, a[1])
            return (x + y) % M if x is not None and y is not None else SX.TOP
        m.on(SX.by("core::ops::arith::Mul", "mul"), mul)

        def mul_assign(ex, st, fr, t, a):
            x, y = val(ex, a[0]), val(ex, a[1])
            ex.write_ref(a[0], (x + y) % M if x is not None and y is not None else SX.TOP)
            return SX.Obj(adt="()")
        m.on(SX.by("core::ops::arith::MulAssign", "mul_assign"), mul_assign)

        def unary(fun, inplace, opt=False):
            def h(ex, st, fr, t, a):
                x = val(ex, a[0])
                r = fun(x) % M if x is not None else SX.TOP
                if inplace:
                    ex.write_ref(a[0], r)
                    return SX.some(a[0]) if opt else a[0]
                return SX.some(r) if opt else r
            return h
        for nm in ("square", "cyclotomic_square"):
            m.on(SX.by(None, nm), unary(lambda x: 2 * x, False))
        for nm in ("square_in_place", "cyclotomic_square_in_place"):
            m.on(SX.by(None, nm), unary(lambda x: 2 * x, True))
        m.on(SX.by(None, "inverse"), unary(lambda x: -x, False, opt=True))
        m.on(SX.by(None, "cyclotomic_inverse"), unary(lambda x: x * half, False, opt=True))
        m.on(SX.by(None, "cyclotomic_inverse_in_place"), unary(lambda x: x * half, True, opt=True))
        m.on(SX.by(None, "conjugate_in_place"), unary(lambda x: x * half, True))

        def frob_in_place(ex, st, fr, t, a):
            x, pw = val(ex, a[0]), val(ex, a[1])
            ex.write_ref(a[0], x * pow(q, pw, M) % M if x is not None and pw is not None else SX.TOP)
            return a[0]
        m.on(SX.by(None, "frobenius_map_in_place"), frob_in_place)

        def frob(ex, st, fr, t, a):
            x, pw = val(ex, a[0]), val(ex, a[1])
            return x * pow(q, pw, M) % M if x is not None and pw is not None else SX.TOP
        m.on(SX.by(None, "frobenius_map"), frob)

        def cyc_exp(ex, st, fr, t, a):
            x, e = val(ex, a[0]), slice_int(ex, a[1])
            return x * e % M if x is not None and e is not None else SX.TOP
        m.on(SX.by(None, "cyclotomic_exp"), cyc_exp)
        m.on(SX.by(None, "pow"), cyc_exp)

        def cyc_exp_in_place(ex, st, fr, t, a):
            x, e = val(ex, a[0]), slice_int(ex, a[1])
            ex.write_ref(a[0], x * e % M if x is not None and e is not None else SX.TOP)
            return SX.Obj(adt="()")
        m.on(SX.by(None, "cyclotomic_exp_in_place"), cyc_exp_in_place)
        m.on(SX.by(None, "is_zero"), lambda ex, st, fr, t, a: False)
    return SX.ring_models(extra)


def config_consts(reg, owner, suffix):
    out = {}
    for r in reg.recs:
        if r.get("owner") == owner and (r.get("trait") or "").endswith(suffix.split("::")[-1]):
            out[r["name"]] = r["val"]
    return out


def check_exponent(res, facts, reg):
    rule = res.rule("R-FINALEXP.exponent", "final exponentiation = f^E with (q^k - 1) | E*r and gcd(E*r/(q^k-1), r) = 1 for every shipped pairing configuration [exponent-domain evaluation of the MIR]", 8)
    seen = 0
    jobs = []
    for suffix, k in FAMILIES:
        trait_name = suffix.split("::")[-1]
        for xr in reg.impls_of(suffix, "X" if "MNT" not in trait_name else "ATE_LOOP_COUNT"):
            jobs.append((suffix, k, trait_name, xr, None))
    # hand-written pairings (no model trait): Pairing impls outside ark_ec
    for f in facts.fns():
        if f.kind != "Closure" and f.name == "final_exponentiation" and (f.trait_impl or "").endswith("pairing::Pairing") and f.crate != "ark_ec":
            owner = (f.impl or {}).get("self")
            tys = impl_types(facts, owner, "pairing::Pairing")
            g1a = tys.get("G1") or ""
            import re as _re
            mm = _re.search(r"<(.+)>", g1a)
            jobs.append(("pairing::Pairing", 6 if "cp6" in f.crate else None, "Pairing", {"owner": owner, "crate": f.crate, "unit": f.unit, "g1": mm.group(1) if mm else None}, f))
    for suffix, k, trait_name, xr, entry_fn in jobs:
        if True:
            owner = xr["owner"]
            key = "%s|%s|%s" % (xr["crate"], owner, trait_name)
            tys = impl_types(facts, owner, suffix)
            g1 = tys.get("G1Config") or xr.get("g1")
            if k is None:
                rule.undecided(key, "embedding degree of the hand-written pairing unknown")
                continue
            cts = impl_types(facts, g1, "CurveConfig") if g1 else {}
            try:
                q = reg.field(cts["BaseField"]).p
                r = reg.field(cts["ScalarField"]).p
            except Exception as e:
                rule.undecided(key, "base / scalar field not resolved (%s)" % e)
                continue
            seen += 1
            M = q ** k - 1
            consts = config_consts(reg, owner, suffix)
            unit = xr["unit"]
            # entry point: the trait's final_exponentiation (default body), overridden methods resolved per owner
            model = suffix.split("::")[0]
            entry = [f for f in facts.fns(unit=unit) if f.kind != "Closure" and f.id == "ark_ec::models::%s::%s::final_exponentiation" % (model, trait_name)] or \
                    [f for f in facts.fns() if f.kind != "Closure" and f.id == "ark_ec::models::%s::%s::final_exponentiation" % (model, trait_name)]
            overrides = {f.name: f for f in facts.fns(unit=unit) if f.kind != "Closure" and (f.impl or {}).get("self") == owner and (f.trait_impl or "").endswith(suffix)}
            if "final_exponentiation" in overrides:
                entry = [overrides["final_exponentiation"]]
            if entry_fn is not None:
                entry = [entry_fn]
            if not entry:
                rule.undecided(key, "final_exponentiation not found")
                continue

            byid = {r_["id"]: r_["val"] for r_ in reg.recs if r_.get("id") and r_["crate"] == xr["crate"]}
            for r_ in reg.recs:
                if r_.get("id") and r_["crate"] == xr["crate"] and not r_.get("owner"):
                    byid.setdefault(r_["id"].rsplit("::", 1)[-1], r_["val"])

            def cv(d, kk, ctx=(), consts=consts, byid=byid):
                n = d.rsplit("::", 1)[-1]
                v = consts[n] if n in consts else byid.get(d)
                if v is not None:
                    if isinstance(v, bool) or isinstance(v, int):
                        return v
                    if isinstance(v, list) and all(isinstance(x, int) for x in v):
                        return SX.Obj(adt="array", fields={i: x for i, x in enumerate(v)})
                    if isinstance(v, dict) and isinstance(v.get("0"), list):
                        return SX.Obj(adt="array", fields={i: x for i, x in enumerate(v["0"])})
                return None
            md = exp_models(M, q, k)
            ex = SX.Engine(facts, unit, md, max_paths=40, max_depth=8, inline_limit=400, const_value=cv)
            # methods of the configuration trait that this configuration overrides: run the override
            for nm, of in overrides.items():
                if nm == "final_exponentiation":
                    continue

                def handler(ex_, st, fr, t, a, of=of):
                    sub = SX.Engine(facts, unit, md, max_paths=40, max_depth=8, inline_limit=400, const_value=cv)
                    ps = [p for p in sub.run(of, list(a)) if not (p.flags & {"diverge", "panic", "cut"})]
                    if len(ps) != 1:
                        return SX.TOP
                    return ps[0].ret
                md.h.insert(0, (SX.by(None, nm), handler))
            f_in = SX.Obj(adt="MillerLoopOutput", fields={0: 1})
            paths = [p for p in ex.run(entry[0], [f_in]) if not (p.flags & {"diverge", "panic", "cut"})]
            outs = set()
            flags = set()
            for p in paths:
                flags |= {x for x in p.flags if x.startswith("unmodelled") or x == "top-branch"}
                v = p.ret
                for _ in range(4):
                    if isinstance(v, SX.Obj) and v.fields and 0 in v.fields and not (isinstance(v, SX.Obj) and v.variant == "None"):
                        v = v.fields[0]
                    else:
                        break
                outs.add(v if isinstance(v, int) and not isinstance(v, bool) else repr(v)[:60])
            ints = [o for o in outs if isinstance(o, int)]
            if len(outs) != 1 or len(ints) != 1:
                rule.undecided(key, "exponent-domain evaluation did not produce one exponent (results %s, flags %s)" % (sorted(map(str, outs))[:3], sorted(flags)[:4]), entry[0].loc)
                continue
            E = ints[0] % M
            if (E * r) % M != 0:
                # report the order defect
                g = gcd(E, M)
                rule.bad(key, "the routine computes f^E with (q^%d - 1) not dividing E*r: the output is not in the order-r subgroup for a generic Miller value (so e(aP, bQ) != e(P,Q)^(ab)); constants of this configuration: %s" % (k, {n: (v if isinstance(v, (int, bool)) else "..") for n, v in consts.items() if n in ("H_T", "H_Y", "T_MOD_R_IS_ZERO", "X_IS_NEGATIVE", "FINAL_EXPONENT_LAST_CHUNK_W0_IS_NEG")}), entry[0].loc)
                continue
            c = (E * r) // M % r
            if gcd(c, r) != 1:
                rule.bad(key, "E*r/(q^%d-1) is divisible by r: the pairing value would be collapsed to 1 (degenerate)" % k, entry[0].loc)
            else:
                rule.ok(key, "E = c * (q^%d - 1)/r with c mod r = %s...%s (a unit mod r)%s" % (k, str(c)[:6], "", " [flags %s]" % sorted(flags) if flags else ""), entry[0].loc)
    if seen == 0:
        rule.bad("pairing-configs", "no pairing configuration found")
