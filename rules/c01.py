"""C01 — prime-field operations equal integer arithmetic modulo p: structural clauses.

Decided here (see DESIGN.md, C01):
  R-REDUCER   every conditional-subtraction helper (the generic Fp ones, the const-fn twins, the
              macro-generated ones of every derived field) subtracts exactly when `carry || value >= p`
              (truth table over {<,=,>} x carry), and subtracts the configuration's own modulus.
  R-CARRY     on every configuration arm in which the modulus has no spare bit, each reduction that ends
              add/double/mul/square goes through a carry-aware helper and the carry it is given is
              computed from the limb arithmetic (not a constant); on every arm every path to the normal
              return passes a reduction.
  R-SHAPE     MODULUS_HAS_SPARE_BIT / CAN_USE_NO_CARRY_* of every analysed configuration equal the
              recomputation from the modulus limbs; no-carry predicates imply a spare bit.
  R-FROMINT   integer/bigint conversions reduce (from_bigint guarded by range check; N==1 arm of the
              small-integer conversions goes through `% modulus`).
"""
import re
from arklib import dataflow as DF, pathsim as PS
from arklib.facts import op_local, place_parts, op_place

MONT = "ark_ff::fields::models::fp::montgomery_backend::MontConfig"
SUB_NAMES = {"sub_with_borrow", "const_sub_with_borrow", "__sub_with_borrow"}
CMP_TRAITS = ("core::cmp::PartialOrd", "core::cmp::Ord")
UNITS = ["ws", "curves", "shapes", "par"]


def mentions(k, suffix="::MODULUS"):
    """does the constant operand denote / mention the named configuration constant"""
    if k.get("def", "").endswith(suffix) and "promoted" not in k:
        return True
    return any(d.endswith(suffix) for d in k.get("pdefs", []))


def limbs_to_int(l):
    return sum(x << (64 * i) for i, x in enumerate(l))


def bigint_val(v):
    if isinstance(v, dict) and v.get("$adt", "").endswith("::BigInt"):
        return limbs_to_int(v["0"])
    return None


def modulus_table(facts):
    """owner type string -> modulus int (from the const table)"""
    out = {}
    for c in facts.crates:
        for k in c.consts:
            if k["name"] == "MODULUS" and k.get("trait") == MONT:
                m = bigint_val(k["val"])
                if m is not None:
                    out[(c.unit, k["owner"])] = (m, len(k["val"]["0"]), c.name, k)
    return out


# ------------------------------------------------------------------------------------------------
# reducers

class Reducer:
    def __init__(self, fn):
        self.fn = fn
        self.sub_bbs = []        # blocks holding the subtraction call
        self.carry_arg = None    # index of the bool parameter that reaches the guard
        self.subtrahend = None   # 'MODULUS' | int (promoted literal) | None
        self.table = {}          # (case, carry) -> set of outcomes {True, False}


def _is_sub_call(t):
    f = t.get("f", {})
    return f.get("name") in SUB_NAMES


def find_reducers(facts):
    """functions in which a subtraction of the modulus is control dependent on a guard"""
    out = {}
    for fn in facts.fns():
        if fn.kind == "Closure":
            continue
        subs = [(bb, t) for bb, t in fn.calls() if _is_sub_call(t)]
        if not subs or len(fn.bbs) > 40:
            continue
        if DF.sccs(fn):
            continue        # a reduction helper is straight-line; loops (binary Euclid in `inverse`, ...) are other algorithms
        cd = DF.control_deps(fn)
        guarded = [(bb, t) for bb, t in subs if cd.get(bb)]
        if not guarded:
            continue
        dep = DF.Dep(fn)
        r = Reducer(fn)
        for bb, t in guarded:
            r.sub_bbs.append(bb)
            # subtrahend: last argument
            a = t["args"][-1]
            k = DF.direct_const(fn, a)
            if k is not None:
                if mentions(k):
                    r.subtrahend = "MODULUS"
                elif "pv" in k and bigint_val(k["pv"]) is not None:
                    r.subtrahend = bigint_val(k["pv"])
        if r.subtrahend is None:
            # e.g. neg_in_place (MODULUS - a): the modulus is the minuend, not a reduction
            continue
        argc = fn.d["argc"]
        for a in range(1, argc + 1):
            if fn.local_ty(a) == "bool":
                r.carry_arg = a
        out[(fn.unit, fn.id)] = r
    return out


def geq_oracle(case, preds):
    """oracle answering comparisons of (value, modulus) under the abstract case '<', '=', '>'"""
    def oracle(st, bb, t):
        f = t.get("f", {})
        name = f.get("name")
        tr = f.get("trait", "")
        if tr in CMP_TRAITS and name in ("ge", "gt", "le", "lt", "cmp", "partial_cmp"):
            # orientation: first argument is the value unless it is the modulus constant
            if name == "ge": return case in ("=", ">")
            if name == "gt": return case == ">"
            if name == "le": return case in ("=", "<")
            if name == "lt": return case == "<"
            if name == "cmp": return {"<": 255, "=": 0, ">": 1}[case]
            return PS.UNKNOWN
        key = f.get("res") or f.get("path")
        if key in preds:
            return preds[key](case)
        return PS.UNKNOWN
    return oracle


def cmp_orientation_ok(fn):
    """in a predicate comparing (value, MODULUS) the modulus must be the right operand"""
    dep = DF.Dep(fn)
    for bb, t in fn.calls():
        f = t.get("f", {})
        if f.get("trait", "") in CMP_TRAITS and f.get("name") in ("ge", "gt", "le", "lt", "cmp"):
            a0, a1 = t["args"][0], t["args"][1]
            c0 = [k for k in dep.consts_in_slice([op_local(a0)]) if mentions(k)] if op_local(a0) is not None else []
            c1 = [k for k in dep.consts_in_slice([op_local(a1)]) if mentions(k)] if op_local(a1) is not None else []
            if "k" in a1 and mentions(a1["k"]):
                c1 = [a1["k"]]
            return bool(c1) and not c0
    return None


def summarise_predicates(facts):
    """'value >= modulus' style predicates: fn path -> (case -> bool).  Runtime form (`is_geq_modulus`)
    is evaluated by path enumeration; the const-fn limb-loop form (`const_is_valid`) by its exits."""
    preds = {}
    info = {}
    for fn in facts.fns():
        if fn.kind == "Closure" or fn.d["argc"] != 1 or fn.local_ty(0) != "bool":
            continue
        # runtime form: one comparison call against MODULUS, no loop
        cmps = [(bb, t) for bb, t in fn.calls() if t["f"].get("trait", "") in CMP_TRAITS]
        if len(cmps) == 1 and len(fn.bbs) <= 6:
            orient = cmp_orientation_ok(fn)
            if orient is None:
                continue
            table = {}
            for case in "<=>":
                ends = PS.explore(fn, geq_oracle(case, {}))
                vals = {st.env.get(0, PS.UNKNOWN) for st, e in ends if e == "return"}
                table[case] = vals
            info[fn.id] = ("cmp", table, orient, fn)
            if all(len(v) == 1 and PS.UNKNOWN not in v for v in table.values()):
                tb = {c: next(iter(v)) for c, v in table.items()}
                preds[fn.id] = (lambda tb: (lambda case: tb[case]))(tb)
            continue
        # const limb-loop form: compares limbs of self with limbs of MODULUS with Lt / Gt
        if fn.d.get("const") and not cmps:
            res = limb_loop_predicate(fn)
            if res is None:
                res = delegated_predicate(facts, fn)
            if res is not None:
                info[fn.id] = ("loop", res, True, fn)
                if None not in res.values():
                    preds[fn.id] = (lambda tb: (lambda case: tb[case]))(res)
    return preds, info


def delegated_predicate(facts, fn):
    """`!self.0.const_geq(&MODULUS)` / `self.0.const_geq(&MODULUS)`: a predicate that hands (value, MODULUS) to a two-operand
    limb-loop comparison of the same crate; the table is the callee's, negated when the result is negated"""
    calls = [(bb, t) for bb, t in fn.calls()]
    if len(calls) != 1:
        return None
    bb, t = calls[0]
    callee = None
    for key in (t["f"].get("res"), t["f"].get("path")):
        c = facts.get(key, fn.unit) if key else None
        if c is not None and c.kind != "Closure" and c.crate == fn.crate:
            callee = c
    if callee is None or len(t["args"]) != 2 or callee.local_ty(0) != "bool":
        return None
    dep = DF.Dep(fn)
    l0, l1 = op_local(t["args"][0]), op_local(t["args"][1])
    self_first = l0 is not None and 1 in dep.args_in_slice([l0]) and not any(mentions(k) for k in dep.consts_in_slice([l0]))
    mod_second = ("k" in t["args"][1] and mentions(t["args"][1]["k"])) or (l1 is not None and any(mentions(k) for k in dep.consts_in_slice([l1])))
    if not (self_first and mod_second):
        return None
    tb = limb_loop_predicate(callee, other_arg=2)
    if tb is None or None in tb.values():
        return None
    # is the returned value the call's result or its negation?
    d = place_parts(t["d"])[0]
    neg = None
    if d == 0:
        neg = False
    for bi, si, st_ in fn.stmts():
        if st_.get("d") == 0 and st_.get("r"):
            r = st_["r"]
            if r["k"] == "un" and r.get("op") == "Not" and op_local(r["o"]) == d:
                neg = True
            elif r["k"] == "use" and op_local(r["o"]) == d:
                neg = False
    if neg is None:
        return None
    return {k: (not v if neg else v) for k, v in tb.items()}


def limb_loop_predicate(fn, other_arg=None):
    """const fn(&self)->bool that walks limbs from the most significant one comparing with MODULUS (other_arg=None) or
    with the limbs of parameter `other_arg` (BigInt::const_geq(&self, &other)).
    Returns {'<': b, '=': b, '>': b} read off the constant returns, or None if not of that shape."""
    dep = DF.Dep(fn)
    cd = DF.control_deps(fn)
    # comparisons on limbs
    cmp_sw = {}
    has_mod = False
    for bi, b in enumerate(fn.bbs):
        t = b["t"]
        if t["k"] != "switch":
            continue
        l = op_local(t["o"])
        if l is None:
            continue
        ds = [d for d in fn.defs().get(l, []) if d[2] == "assign"]
        if len(ds) != 1:
            continue
        r = ds[0][3]["r"]
        if r["k"] == "bin" and r["op"] in ("Lt", "Gt"):
            la, lb = op_local(r["a"]), op_local(r["b"])
            if la is None or lb is None:
                continue
            sa = dep.slice([la])
            ca = dep.consts_in_slice([la])
            cb = dep.consts_in_slice([lb])
            a_self = 1 in sa
            if other_arg is not None:
                sb = dep.slice([lb])
                b_mod = other_arg in sb and 1 not in dep.args_in_slice([lb])
                a_mod = other_arg in dep.args_in_slice([la])
            else:
                b_mod = any(mentions(k) for k in cb)
                a_mod = any(mentions(k) for k in ca)
            if a_self and b_mod and not a_mod:
                has_mod = True
                true_succ = t["else"]
                cmp_sw[bi] = (r["op"], true_succ)
    if not has_mod or not cmp_sw:
        return None
    # constant assignments to the return place
    res = {"<": None, "=": None, ">": None}
    for bi, b in enumerate(fn.bbs):
        for s in b["s"]:
            if s.get("d") == 0 and s["r"]["k"] == "use" and "k" in s["r"]["o"] and "v" in s["r"]["o"]["k"]:
                v = s["r"]["o"]["k"]["v"]
                deps = cd.get(bi, set())
                ops = {cmp_sw[a][0] for (a, sx) in deps if a in cmp_sw and sx == cmp_sw[a][1]}
                if ops == {"Lt"}:
                    res["<"] = v if res["<"] in (None, v) else "conflict"
                elif ops == {"Gt"}:
                    res[">"] = v if res[">"] in (None, v) else "conflict"
                elif not ops:
                    res["="] = v if res["="] in (None, v) else "conflict"
    if "conflict" in res.values():
        return None
    return res


def check_reducers(res, facts, reducers, preds, pinfo, mods):
    r1 = res.rule("R-REDUCER.table", "conditional subtraction helper subtracts iff carry || value >= modulus (truth table over orderings x carry)", 10)
    r2 = res.rule("R-REDUCER.modulus", "the subtracted constant is the configuration's MODULUS", 10)
    rp = res.rule("R-REDUCER.predicate", "'value >= modulus' predicates answer true exactly for = and > (equality reduces), modulus on the right", 2)
    for fid, (kind, table, orient, fn) in sorted(pinfo.items()):
        key = "%s|%s" % (fn.crate, fid)
        if kind == "cmp":
            want_ge = {"<": {False}, "=": {True}, ">": {True}}
            want_lt = {"<": {True}, "=": {False}, ">": {False}}
            if not orient:
                rp.bad(key, "comparison against MODULUS has the modulus on the left-hand side (predicate orientation not the canonical value-vs-modulus form)", fn.loc)
            elif table == want_ge or table == want_lt:
                rp.ok(key, "table=%s" % {k: sorted(map(str, v)) for k, v in table.items()}, fn.loc)
            elif any(PS.UNKNOWN in v for v in table.values()):
                rp.undecided(key, "could not evaluate predicate", fn.loc)
            else:
                rp.bad(key, "predicate is neither 'value >= modulus' nor 'value < modulus' on the three orderings: %s" % {k: sorted(map(str, v)) for k, v in table.items()}, fn.loc)
        else:
            if table in ({"<": True, "=": False, ">": False}, {"<": False, "=": True, ">": True}):
                rp.ok(key, "limb-loop predicate %s" % table, fn.loc)
            elif None in table.values():
                rp.undecided(key, "limb-loop predicate not fully classified: %s" % table, fn.loc)
            else:
                rp.bad(key, "limb-loop comparison with the modulus treats equality on the wrong side: %s (a value equal to the modulus would not be reduced)" % table, fn.loc)
    for (unit, fid), rd in sorted(reducers.items()):
        fn = rd.fn
        key = "%s|%s" % (fn.crate, fid)
        # truth table
        bad = []
        undec = False
        for case in "<=>":
            for carry in ((False, True) if rd.carry_arg else (None,)):
                init = {rd.carry_arg: carry} if rd.carry_arg else {}
                ends = PS.explore(fn, geq_oracle(case, preds), init=init)
                outcomes = set()
                for st, e in ends:
                    if e == "cut":
                        undec = True
                    outcomes.add(any(bb in rd.sub_bbs for bb in st.trace))
                want = bool(carry) or case in ("=", ">")
                if outcomes != {want}:
                    if len(outcomes) > 1:
                        undec_here = True
                        # an unknown guard: the helper's decision depends on something we cannot evaluate
                        bad.append((case, carry, "undetermined"))
                    else:
                        bad.append((case, carry, "subtracts" if True in outcomes else "does not subtract"))
        if undec:
            r1.undecided(key, "path enumeration cut", fn.loc)
        elif any(b[2] == "undetermined" for b in bad):
            r1.undecided(key, "guard depends on calls outside the comparison/predicate table: %s" % bad, fn.loc)
        elif bad:
            r1.bad(key, "reduction helper decision differs from `carry || value >= p`: " + "; ".join(
                "value %s p, carry=%s: %s" % b for b in bad), fn.loc)
        else:
            r1.ok(key, "carry_param=%s" % rd.carry_arg, fn.loc)
        # subtrahend
        if rd.subtrahend == "MODULUS":
            r2.ok(key, "MODULUS const", fn.loc)
        elif isinstance(rd.subtrahend, int):
            # derived helper: literal must equal the MODULUS of the config of its module
            ty = fn.local_ty(1)
            owner = [m for (u, o), m in mods.items() if u == unit and ("MontBackend<%s," % o) in ty]
            if owner and owner[0][0] == rd.subtrahend:
                r2.ok(key, "literal equals the configuration's MODULUS", fn.loc)
            elif owner:
                r2.bad(key, "derived reduction helper subtracts a literal different from the configuration's MODULUS", fn.loc)
            else:
                r2.undecided(key, "owner configuration not found for %s" % ty, fn.loc)
        else:
            r2.undecided(key, "subtrahend not recognised", fn.loc)


# ------------------------------------------------------------------------------------------------
# R-CARRY on the arithmetic entry points

OPS = ("add_assign", "double_in_place", "mul_assign", "square_in_place")
ENVS = [
    ("no-spare-bit", {"MODULUS_HAS_SPARE_BIT": False, "CAN_USE_NO_CARRY_MUL_OPT": False, "CAN_USE_NO_CARRY_SQUARE_OPT": False}),
    ("spare-bit", {"MODULUS_HAS_SPARE_BIT": True, "CAN_USE_NO_CARRY_MUL_OPT": False, "CAN_USE_NO_CARRY_SQUARE_OPT": False}),
    ("spare-bit+no-carry", {"MODULUS_HAS_SPARE_BIT": True, "CAN_USE_NO_CARRY_MUL_OPT": True, "CAN_USE_NO_CARRY_SQUARE_OPT": True}),
]


FP = "ark_ff::fields::models::fp::Fp"
DELEGATE_TRAITS = ("core::ops::arith::MulAssign", "core::ops::arith::AddAssign", "core::ops::arith::Mul", "core::ops::arith::Add")


def is_delegate(t):
    """a call that hands the whole operation to another (separately checked) field operation"""
    f = t["f"]
    if f.get("trait") in DELEGATE_TRAITS and f.get("self_head") == FP:
        return True
    return f.get("trait") == MONT and f.get("name") in OPS


def reducer_calls(fn, reducers, blocks):
    out = []
    for bb, t in fn.calls():
        if bb not in blocks:
            continue
        f = t["f"]
        if is_delegate(t):
            out.append((bb, t, None))
            continue
        key = f.get("res") or f.get("path")
        rd = reducers.get((fn.unit, key)) or next((r for (u, k), r in reducers.items() if k == key), None)
        if rd is not None:
            out.append((bb, t, rd))
    return out


def check_op(rule_mpt, rule_carry, fn, reducers, envname, env, key, n_limbs=None):
    if n_limbs is not None:
        env = dict(env, N=n_limbs)
    blocks, decided = DF.reach_under(fn, env)
    calls = reducer_calls(fn, reducers, blocks)
    red_bbs = {bb for bb, _, _ in calls}
    k = "%s|%s" % (key, envname)
    # must-pass-through: no path entry -> return inside `blocks` that avoids every reduction
    avoid = set(range(len(fn.bbs))) - blocks | red_bbs
    if 0 in red_bbs:
        escapes = False
    else:
        reach = fn.reachable_from(0, frozenset(avoid))
        escapes = any(e in reach for e in fn.exits())
    if not calls:
        rule_mpt.bad(k, "no reduction (conditional subtraction of the modulus) is reachable on this configuration arm", fn.loc)
    elif escapes:
        rule_mpt.bad(k, "a path reaches the normal return without passing a reduction on this configuration arm", fn.loc)
    else:
        rule_mpt.ok(k, "%d reduction call(s)" % len(calls), fn.loc)
    if env.get("MODULUS_HAS_SPARE_BIT") is False:
        dep = DF.Dep(fn)
        for bb, t, rd in calls:
            kk = "%s|%s" % (k, t["f"].get("name"))
            if rd is None:
                continue
            if rd.carry_arg is None:
                rule_carry.bad(kk, "modulus without a spare bit: the result may exceed 2^(64N) but the reduction reached here (`%s`) ignores the carry" % t["f"].get("name"), "%s (call at line %s)" % (fn.loc, t.get("ln")))
                continue
            a = t["args"][rd.carry_arg - 1]
            if "k" in a:
                rule_carry.bad(kk, "carry-aware reduction is given a constant carry", "%s (line %s)" % (fn.loc, t.get("ln")))
                continue
            l = op_local(a)
            cs = [c for c in dep.calls_in_slice([l]) if c[0] != bb]
            if not cs:
                rule_carry.bad(kk, "carry passed to the reduction is not computed from any limb operation (constant or unrelated value)", "%s (line %s)" % (fn.loc, t.get("ln")))
            else:
                rule_carry.ok(kk, "carry derives from %s" % sorted({c[1]["f"].get("name", "?") for c in cs})[:4], fn.loc)


def check_ops(res, facts, reducers, mods):
    rm = res.rule("R-CARRY.mpt", "every path of add/double/mul/square to the normal return passes a conditional subtraction, on every configuration arm", 12)
    rc = res.rule("R-CARRY.carry", "no-spare-bit arm: the final reduction consumes the carry produced by the limb arithmetic", 8)
    # generic default bodies
    n = 0
    for fn in facts.fns(unit="ws", crate="ark_ff"):
        if fn.default_of == MONT and fn.name in OPS:
            n += 1
            for envname, env in ENVS:
                check_op(rm, rc, fn, reducers, envname, env, "ark_ff|MontConfig::%s(default)" % fn.name)
    # derived / hand-written impls: environment from the configuration's own modulus
    for fn in facts.fns():
        if fn.trait_impl == MONT and fn.name in OPS and fn.kind != "Closure":
            owner = fn.impl["self"]
            m = mods.get((fn.unit, owner))
            if not m:
                rm.undecided("%s|%s::%s" % (fn.crate, owner, fn.name), "no MODULUS in const table", fn.loc)
                continue
            p, nl = m[0], m[1]
            spare = (p >> (64 * nl - 1)) == 0
            env = {"MODULUS_HAS_SPARE_BIT": spare}
            check_op(rm, rc, fn, reducers, "spare-bit" if spare else "no-spare-bit", env, "%s|%s::%s" % (fn.crate, owner, fn.name), nl)
    return n


# ------------------------------------------------------------------------------------------------
# R-SHAPE

def check_shape(res, facts, mods):
    rs = res.rule("R-SHAPE", "shape predicates of every analysed modulus equal their recomputation from the limbs; no-carry predicates imply a spare bit", 30)
    table = {}
    for c in facts.crates:
        for k in c.consts:
            if k.get("trait") == MONT and k["name"] in ("MODULUS_HAS_SPARE_BIT", "CAN_USE_NO_CARRY_MUL_OPT", "CAN_USE_NO_CARRY_SQUARE_OPT"):
                table[(c.unit, k["owner"], k["name"])] = (k["val"], c.name, k)
    for (unit, owner), (p, nl, crate, k) in sorted(mods.items()):
        top = p >> (64 * (nl - 1))
        spare = (top >> 63) == 0
        rest_all_ones = all(((p >> (64 * i)) & (2**64 - 1)) == 2**64 - 1 for i in range(nl - 1))
        # "no-carry" (Acar / gnark): top limb < 2^63 - 1 ... arkworks: spare bit and not (top limb == 2^63-1 and all lower limbs all-ones)
        first_bit = (top >> 63) != 0
        all_rem_set = (top == (2**63 - 1)) and rest_all_ones if nl > 1 else top == (2**63 - 1)
        nocarry = (not first_bit) and not all_rem_set
        top_two = (top >> 62) == 0
        nocarry_sq = top_two and not ((top == (2**62 - 1)) and rest_all_ones)
        for name, want in (("MODULUS_HAS_SPARE_BIT", spare), ("CAN_USE_NO_CARRY_MUL_OPT", nocarry)):
            got = table.get((unit, owner, name))
            key = "%s|%s|%s" % (crate, owner, name)
            if got is None:
                rs.undecided(key, "constant not in table")
            elif got[0] == want:
                rs.ok(key, "=%s" % want)
            else:
                rs.bad(key, "%s is %s but the modulus limbs give %s" % (name, got[0], want), "%s:%s" % (k["file"], k["line"]))
        got = table.get((unit, owner, "CAN_USE_NO_CARRY_SQUARE_OPT"))
        key = "%s|%s|CAN_USE_NO_CARRY_SQUARE_OPT=>SPARE" % (crate, owner)
        if got is not None:
            if got[0] and not spare:
                rs.bad(key, "no-carry squaring enabled for a modulus without a spare bit", "%s:%s" % (k["file"], k["line"]))
            else:
                rs.ok(key)


# ------------------------------------------------------------------------------------------------
# R-FROMINT

def check_fromint(res, facts):
    rf = res.rule("R-FROMINT", "bigint -> field conversion is guarded by the range check; the result on the in-range arm goes through the Montgomery conversion", 1)
    for fn in facts.fns(unit="ws", crate="ark_ff"):
        if fn.default_of == MONT and fn.name == "from_bigint":
            key = "ark_ff|MontConfig::from_bigint(default)"
            # a range predicate call must exist and the None-construction must be control dependent on it
            preds = [(bb, t) for bb, t in fn.calls() if t["f"].get("name") in ("is_geq_modulus", "const_is_valid")]
            if not preds:
                rf.bad(key, "no range check (is_geq_modulus) in from_bigint: out-of-range integers would be accepted", fn.loc)
                continue
            bbp = preds[0][0]
            # the Some(..) construction / Montgomery multiplication must not be reachable on the geq arm:
            oracle_true = lambda st, bb, t: True if t["f"].get("name") == "is_geq_modulus" else (False if t["f"].get("name") == "is_zero" else PS.UNKNOWN)
            ends = PS.explore(fn, oracle_true)
            some = False
            for st, e in ends:
                for bb in st.trace:
                    for s in fn.bbs[bb]["s"]:
                        r = s.get("r", {})
                        if r.get("k") == "agg" and r.get("variant") == "Some":
                            some = True
            if some:
                rf.bad(key, "from_bigint can return Some(..) although the integer is >= the modulus", fn.loc)
            else:
                rf.ok(key, "Some(..) unreachable when is_geq_modulus() holds", fn.loc)


def check_fromint_narrow(res, facts):
    """From<u128> / From<u64> / ... for Fp: the integer must be reduced at its full width.  A narrowing cast applied to the
    raw argument (`other as u64 % p` instead of `(other % p) as u64`) throws away the high bits before the reduction:
    the result is (x mod 2^64) mod p, not x mod p -- visible only for one-limb fields and arguments >= 2^64."""
    from rules.c07 import E, show
    rule = res.rule("R-FROMINT.narrow", "small-integer conversions into Fp never truncate the raw argument before reducing it", 5)
    bits = {"u8": 8, "u16": 16, "u32": 32, "u64": 64, "u128": 128, "usize": 64, "i8": 8, "i16": 16, "i32": 32, "i64": 64, "i128": 128, "bool": 1}
    for fn in facts.fns(unit="ws", crate="ark_ff"):
        if fn.kind == "Closure" or fn.name != "from" or fn.trait_impl != "core::convert::From" or fn.self_head != "ark_ff::fields::models::fp::Fp":
            continue
        src = fn.local_ty(1)
        if src not in bits or src == "bool":
            continue
        key = "ark_ff|Fp::from(%s)" % src
        bad = []
        raw = (("arg", 1, ()), ("phi", 1, ()))
        casts = [(bi, st_["r"], E(fn, st_["r"]["o"]), st_.get("ln")) for bi, si, st_ in fn.stmts() if st_.get("r") and st_["r"]["k"] == "cast" and st_["r"].get("ck") == "IntToInt" and st_["r"].get("ty") in bits]
        assigns = [d[0] for d in fn.defs().get(1, []) if d[2] == "assign"]
        for bi, r, e, ln in casts:
            if e in raw and bits[r["ty"]] < bits[src]:
                if any(fn.dominates(ab, bi) and ab != bi for ab in assigns):
                    continue        # the parameter was reassigned (reduced) on every path to this cast
                # a limb split keeps the other half: `(arg >> w) as _` on the same path
                w = bits[r["ty"]]
                split = any(isinstance(e2, tuple) and e2[:2] == ("bin", "Shr") and e2[2] in raw and e2[3] == w and (fn.dominates(bi, b2) or fn.dominates(b2, bi)) for b2, r2, e2, _ in casts)
                if not split:
                    bad.append("`arg as %s` (line %s)" % (r["ty"], ln))
        if bad:
            rule.bad(key, "the %s argument is narrowed before it is reduced: %s -- the bits above the narrowed width never reach the `%% modulus`, so values >= 2^%d convert to the wrong element on fields whose modulus fits the narrowed width" % (src, ", ".join(bad), min(bits[r_] for r_ in ("u64",))), fn.loc)
        else:
            rule.ok(key, "no narrowing of the raw argument", fn.loc)


# ------------------------------------------------------------------------------------------------
# integer expressions over configuration parameters

def ieval(t, env):
    """evaluate a reconstructed (normalised) integer expression; env maps leaf terms / names to ints"""
    if isinstance(t, bool):
        return int(t)
    if isinstance(t, int):
        return t
    if t in env:
        return env[t]
    if isinstance(t, str):
        raise KeyError(t)
    h = t[0]
    if h == "bin":
        a, b = ieval(t[2], env), ieval(t[3], env)
        op = t[1]
        if op == "Add":
            return a + b
        if op == "Sub":
            if a < b:
                raise ArithmeticError("underflow")
            return a - b
        if op == "Mul":
            return a * b
        if op == "Div":
            return a // b
        if op == "Rem":
            return a % b
        if op == "Shl":
            return a << b
        if op == "Shr":
            return a >> b
        if op in ("Ge", "Gt", "Le", "Lt", "Eq", "Ne"):
            return int({"Ge": a >= b, "Gt": a > b, "Le": a <= b, "Lt": a < b, "Eq": a == b, "Ne": a != b}[op])
    if h == "call":
        n, args = t[1], [ieval(a, env) for a in t[2]]
        if n == "div_ceil":
            return -(-args[0] // args[1])
        if n == "min":
            return min(args)
        if n == "max":
            return max(args)
        if n == "next_power_of_two":
            v = 1
            while v < args[0]:
                v *= 2
            return v
    raise KeyError(str(t)[:80])


def check_sopchunk(res, facts, mods):
    """sum_of_products accumulates M products before one Montgomery step per limb: the running value stays below
    (M+1)p, which must fit the N-limb accumulator, i.e. M <= 2^s - 1 with s = 64N - bits(p) spare bits (and the path must
    not be taken at all for s <= 1).  The chunk length is computed twice: by a formula in the generic default and as a
    literal baked in by the derive macro."""
    from rules.c07 import E, show
    rule = res.rule("R-SOPCHUNK", "sum_of_products: at most 2^s - 1 products are accumulated per chunk (s = spare bits), s <= 1 takes the plain path", 30)
    for unit in UNITS:
        for f in facts.fns(unit=unit):
            if f.name != "sum_of_products" or f.kind == "Closure":
                continue
            if f.id == MONT + "::sum_of_products":
                key = "ark_ff|MontConfig::sum_of_products(default)"
                chunks = [E(f, t["args"][1]) for _, t in f.calls() if t["f"].get("name") == "chunks"]
                guards = [E(f, b["t"]["o"]) for b in f.bbs if b["t"]["k"] == "switch"]
                bits_t = ("call", "const_num_bits", ("MODULUS",))
                fallback = [g for g in guards if isinstance(g, tuple) and g[0] == "bin" and g[1] in ("Ge", "Gt") and g[2] == bits_t]
                problems = []
                if len(set(chunks)) != 1 or len(chunks) != 2:
                    problems.append("chunk lengths of the two operand slices differ or are missing: %s" % [show(c) for c in chunks])
                if len(fallback) != 1:
                    problems.append("no guard on the modulus size selects the plain path")
                if not problems:
                    worst = None
                    for n in range(1, 14):
                        for bits in range(64 * (n - 1) + 1, 64 * n + 1):
                            env = {"N": n, bits_t: bits}
                            try:
                                plain = bool(ieval(fallback[0], env))
                            except (ArithmeticError, KeyError) as e:
                                problems.append("guard not evaluable: %s" % e)
                                break
                            s_ = 64 * n - bits
                            if plain:
                                continue
                            if s_ <= 1:
                                worst = worst or "N=%d, %d-bit modulus (s=%d) takes the interleaved path" % (n, bits, s_)
                                continue
                            try:
                                k = ieval(chunks[0], env)
                            except ArithmeticError:
                                worst = worst or "N=%d, %d-bit modulus: chunk length underflows" % (n, bits)
                                continue
                            except KeyError as e:
                                problems.append("chunk length not evaluable: %s" % e)
                                break
                            if not (1 <= k <= (1 << s_) - 1):
                                worst = worst or "N=%d, %d-bit modulus (s=%d spare bits): chunk length %d > 2^s - 1 = %d, the accumulator (M+1)p can exceed 2^(64N)" % (n, bits, s_, k, (1 << s_) - 1)
                        if problems:
                            break
                    if worst:
                        problems.append(worst)
                    # the M == 2 special case also needs 2 <= 2^s - 1, i.e. s >= 2: guaranteed when the guard covers s <= 1
                (rule.bad if problems else rule.ok)(key, "; ".join(problems) if problems else "chunk = %s, within 2^s - 1 for all N <= 13 and all modulus sizes; s <= 1 takes the plain path" % show(chunks[0]), f.loc)
                continue
            if f.trait_impl != MONT:
                continue
            owner = (f.impl or {}).get("self")
            m = mods.get((unit, owner))
            key = "%s|%s|sum_of_products" % (f.crate, owner)
            if m is None:
                continue
            p, n = m[0], m[1]
            s_ = 64 * n - p.bit_length()
            lits = []
            for b in f.bbs:
                t = b["t"]
                if t["k"] == "switch":
                    g = E(f, t["o"])
                    if isinstance(g, tuple) and g[0] == "bin" and g[1] in ("Le", "Lt") and g[2] == "M" and isinstance(g[3], int):
                        lits.append(g[3] if g[1] == "Le" else g[3] - 1)
            chunks = [E(f, t["args"][1]) for _, t in f.calls() if t["f"].get("name") == "chunks"]
            interleaved = any(t["f"].get("name") in ("mac_with_carry", "fold") for _, t in f.calls()) or bool(lits)
            if not interleaved:
                rule.ok(key, "plain path (s = %d)" % s_, f.loc)
            elif s_ <= 1:
                rule.bad(key, "modulus has %d spare bit(s) but the derived sum_of_products uses the interleaved accumulation" % s_, f.loc)
            else:
                ks = set(lits) | {c for c in chunks if isinstance(c, int)}
                if not ks or any(not isinstance(c, int) for c in chunks):
                    rule.undecided(key, "chunk length not a literal (%s)" % [show(c) for c in chunks], f.loc)
                elif all(1 <= k <= (1 << s_) - 1 for k in ks):
                    rule.ok(key, "chunk %s <= 2^%d - 1" % (sorted(ks), s_), f.loc)
                else:
                    rule.bad(key, "derived sum_of_products accumulates up to %d products per chunk but the %d-bit modulus over %d limbs has s = %d spare bits: more than 2^s - 1 = %d products can overflow the N-limb accumulator ((M+1)p >= 2^(64N))" % (max(ks), p.bit_length(), n, s_, (1 << s_) - 1), f.loc)


def check_bytes(res, facts):
    """from_le_bytes_mod_order converts a prefix directly (without reduction): it must be shorter than the modulus,
    8 * prefix_len <= bits - 1, for every modulus size; the rest is absorbed most-significant byte first as res*256 + byte"""
    from rules.c07 import E, show
    rule = res.rule("R-BYTES", "from_le_bytes_mod_order: directly converted prefix is below the modulus for every modulus size; remaining bytes absorbed as res*256 + byte from the most significant end", 2)
    fns = [f for f in facts.fns(unit="ws", crate="ark_ff") if f.id == "ark_ff::fields::prime::PrimeField::from_le_bytes_mod_order"]
    key = "ark_ff|PrimeField::from_le_bytes_mod_order|prefix"
    if not fns:
        rule.bad(key, "anchor missing")
        return
    f = fns[0]
    mins = [t for _, t in f.calls() if t["f"].get("name") == "min"]
    if len(mins) != 1:
        rule.bad(key, "prefix length is not min(bound, len)", f.loc)
    else:
        a, b = E(f, mins[0]["args"][0]), E(f, mins[0]["args"][1])
        bound = b if a == ("call", "len", (("arg", 1, ()),)) else a
        bad = None
        try:
            for bits in range(1, 64 * 64 + 1):
                try:
                    k = ieval(bound, {"MODULUS_BIT_SIZE": bits})
                except ArithmeticError:
                    bad = "for a %d-bit modulus the bound underflows" % bits
                    break
                if 8 * k > bits - 1:
                    bad = "for a %d-bit modulus %d bytes (%d bits) are converted without reduction: the value can reach or exceed p, and from_random_bytes(..).unwrap() panics or the result is not reduced" % (bits, k, 8 * k)
                    break
            # split point: len - prefix
            sp = [E(f, t["args"][1]) for _, t in f.calls() if t["f"].get("name") == "split_at"]
            if not bad and not (len(sp) == 1 and isinstance(sp[0], tuple) and sp[0][0] == "bin" and sp[0][1] == "Sub" and sp[0][2] == ("call", "len", (("arg", 1, ()),))):
                bad = "the directly converted part is not the trailing (most significant) bytes"
        except KeyError as e:
            bad = None
            rule.undecided(key, "bound %s not evaluable (%s)" % (show(bound), e), f.loc)
        if bad:
            rule.bad(key, bad + " (bound = %s)" % show(bound), f.loc)
        elif bad is None and not [1 for r_ in [0] if False]:
            rule.ok(key, "8 * (%s) <= bits - 1 for every modulus size 1..4096" % show(bound), f.loc)
    key = "ark_ff|PrimeField::from_le_bytes_mod_order|absorb"
    names = [t["f"].get("name") for _, t in f.calls()]
    w = [E(f, t["args"][1]) for _, t in f.calls() if t["f"].get("name") == "mul_assign"]
    ad = [E(f, t["args"][1]) for _, t in f.calls() if t["f"].get("name") == "add_assign"]
    ok = "rev" in names and w == [256] and len(ad) == 1 and names.index("mul_assign") < names.index("add_assign")
    (rule.ok if ok else rule.bad)(key, "for byte in rest.rev(): res = res*256 + byte" if ok else "absorption loop is not res*256 + byte over the reversed remainder (mul by %s, add %s, rev: %s)" % ([show(x) for x in w], [show(x) for x in ad], "rev" in names), f.loc)


def check_unroll(res, facts):
    """#[unroll_for_loops(K)] rewrites `for i in BEGIN..END { body }` into a main loop over T / K blocks (T = END - BEGIN)
    that starts block b at i = BEGIN + b*K, followed by a remainder that starts at i = BEGIN + (T / K)*K.  Decided on the
    expanded MIR of every unrolled loop: both start indices, with the loop's own BEGIN and K (so the index range covered
    is exactly BEGIN..END for every limb count, including loops that start at 1 and run more than K times)."""
    from rules.c07 import E, show, norm, qeq
    from rules.c17 import to_q, NotPoly
    from arklib.poly import Q
    rule = res.rule("R-UNROLL", "unrolled loops cover BEGIN..END: block b starts at BEGIN + b*K, the remainder at BEGIN + (T/K)*K", 100)
    for f in facts.fns(unit="ws", crate="ark_ff"):
        dbg = f.d.get("dbg") or []
        if not any(n == "num_loops" for n, l in dbg):
            continue
        names = {}
        for n, l in dbg:
            names.setdefault(l, n)
        groups = []          # (numloops term, T, K, BEGIN)
        inits = []           # (bb, local, term)
        for bi, si, st_ in f.stmts():
            if "d" not in st_:
                continue
            l, projs = place_parts(st_["d"])
            if projs or l not in names:
                continue
            r = st_["r"]
            if r["k"] == "bin":
                e = norm(("bin", r["op"], DF.expr(f, r["a"], depth=30), DF.expr(f, r["b"], depth=30)))
            elif r["k"] == "use":
                e = E(f, r["o"])
            else:
                continue
            if names[l] == "num_loops" and isinstance(e, tuple) and e[0] == "bin" and e[1] == "Div":
                T, K = e[2], e[3]
                if isinstance(T, tuple) and T[0] == "call" and T[1] == "unwrap_or" and isinstance(T[2][0], tuple) and T[2][0][1] == "checked_sub":
                    groups.append((e, T, K, T[2][0][2][1], T[2][0][2][0], bi))
            elif names[l] not in ("total_iters", "num_loops", "remainder", "iter") and isinstance(e, tuple) and e[0] == "bin" and e[1] in ("Add", "Mul") and "Mul" in show(e):
                inits.append((bi, l, e))
        for gi, (nl, T, K, BEGIN, END, gbb) in enumerate(groups):
            key = "ark_ff|%s|loop%d" % (f.id[-80:], gi)

            def leaf(t, nl=nl, BEGIN=BEGIN):
                if t == nl:
                    return "nl"
                if t == ("iter", 0, nl):
                    return "b"
                if t == BEGIN:
                    return "BEGIN"
                return "<%s>" % show(t)[:50]
            try:
                kq = to_q(K, leaf)
                bq = to_q(BEGIN, leaf)
            except NotPoly:
                rule.undecided(key, "BEGIN / K not integer expressions", f.loc)
                continue
            main = rem = None
            for bi, l, e in inits:
                if bi < gbb:
                    continue
                try:
                    q = to_q(e, leaf)
                except NotPoly:
                    continue
                txt = repr(q)
                if "b" in q.vars() and main is None:
                    main = q
                elif "nl" in q.vars() and "b" not in q.vars() and rem is None:
                    rem = q
                if main is not None and rem is not None:
                    break
            problems = []
            if main is None or not qeq(main, bq + Q.var("b") * kq):
                problems.append("block b of the unrolled loop starts at index %s instead of BEGIN + b*K = %s: for a loop beginning at %s that runs at least K = %s times the body is executed for the wrong indices" % (main, bq + Q.var("b") * kq, show(BEGIN), show(K)))
            if rem is None or not qeq(rem, bq + Q.var("nl") * kq):
                problems.append("the remainder starts at index %s instead of BEGIN + (T/K)*K = %s" % (rem, bq + Q.var("nl") * kq))
            (rule.bad if problems else rule.ok)(key, "; ".join(problems) if problems else "for %s..%s by %s: starts %s and %s" % (show(BEGIN), show(END)[:30], show(K), main, rem), f.loc)


def check_batchinv(res, facts):
    """batch_inversion_and_mul returns coeff * v_i^-1 in every slot: every value stored into the slice depends on `coeff`
    (dataflow), on every path -- including short-cut paths for particular lengths; the parallel form hands the same
    coeff to the serial kernel per chunk"""
    rule = res.rule("R-BATCHCOEFF", "batch_inversion_and_mul: every element written back carries the factor coeff", 2)
    for unit in ("ws", "par"):
        fs = [f for f in facts.fns(unit=unit, crate="ark_ff") if f.kind != "Closure" and f.id == "ark_ff::fields::serial_batch_inversion_and_mul"]
        key = "ark_ff|%s|serial_batch_inversion_and_mul" % unit
        if not fs:
            rule.bad(key, "anchor missing")
            continue
        f = fs[0]
        dep = DF.Dep(f)
        stores = []
        for bi, si, st_ in f.stmts():
            if "d" in st_:
                l, projs = place_parts(st_["d"])
                if projs and projs[0] == "*":
                    src = op_local(st_["r"]["o"]) if st_["r"]["k"] == "use" else None
                    if src is not None:
                        # does the written pointer derive from the slice argument?
                        if 1 in dep.args_in_slice([l]):
                            stores.append((bi, src, 2 in dep.args_in_slice([src])))
        # write-backs performed by closures (`v.iter_mut().zip(..).for_each(|(f, s)| { .. *f = .. })`): the stored value,
        # expressed in the enclosing function's terms, must mention coeff
        def mentions_coeff(t):
            if t == ("arg", 2, ()):
                return True
            return isinstance(t, tuple) and any(mentions_coeff(x) for x in t)
        for c in facts.fns(unit=unit, crate="ark_ff"):
            if c.kind != "Closure" or not c.id.startswith(f.id + "::{closure"):
                continue
            cdep = DF.Dep(c)
            for bi, si, st_ in c.stmts():
                if "d" in st_:
                    l, projs = place_parts(st_["d"])
                    if projs and projs[0] == "*" and st_["r"]["k"] == "use" and any(a >= 2 for a in cdep.args_in_slice([l])):
                        src = op_local(st_["r"]["o"])
                        if src is None:
                            continue
                        term = DF.lift_captures(facts, c, DF.expr(c, st_["r"]["o"], depth=30))
                        stores.append((("closure", bi), src, mentions_coeff(term)))
        if not stores:
            rule.undecided(key, "no write-back into the slice found", f.loc)
        elif all(ok for _, _, ok in stores):
            rule.ok(key, "%d write-back site(s), all depend on coeff" % len(stores), f.loc)
        else:
            rule.bad(key, "%d of %d write-backs into the slice do not depend on `coeff`: on that path the elements become v_i^-1 instead of coeff * v_i^-1 (e.g. a special case for short slices; with the parallel feature the serial kernel is called on chunks of any length)" % (sum(1 for s_ in stores if not s_[2]), len(stores)), f.loc)


def check_batchinv_par(res, facts):
    """the parallel batch_inversion_and_mul: every closure that writes elements of the slice either hands `coeff` to
    the serial kernel or multiplies by it"""
    rule = res.rule("R-BATCHCOEFF.par", "parallel batch_inversion_and_mul: every path that writes elements passes coeff on", 1)
    fs = [f for f in facts.fns(unit="par", crate="ark_ff") if f.kind != "Closure" and f.id == "ark_ff::fields::batch_inversion_and_mul"]
    key = "ark_ff|par|batch_inversion_and_mul"
    if not fs:
        rule.bad(key, "anchor missing")
        return
    f = fs[0]
    clos = [c for c in facts.fns(unit="par", crate="ark_ff") if c.kind == "Closure" and (c.d.get("parent") or "").startswith(f.id)]
    problems = []
    n_ok = 0
    for c in [f] + clos:
        dep = DF.Dep(c)
        calls = [t for _, t in c.calls()]
        writes = []
        for bi, si, st_ in c.stmts():
            if "d" in st_:
                l, projs = place_parts(st_["d"])
                if projs and projs[0] == "*" and st_["r"]["k"] == "use":
                    writes.append(op_local(st_["r"]["o"]))
        kernel = [t for t in calls if t["f"].get("name") in ("serial_batch_inversion_and_mul", "batch_inversion_and_mul")]
        if c is f:
            # coeff (arg 2) must reach every for_each closure that the function spawns over the slice
            for bb, t in c.calls():
                if t["f"].get("name") == "for_each":
                    env = DF.expr(c, t["args"][1], depth=12)
                    if not (isinstance(env, tuple) and env[0] == "agg" and ("arg", 2, ()) in env[2]):
                        problems.append("a worker closure over the slice does not receive coeff")
                    else:
                        n_ok += 1
            continue
        if kernel:
            for t in kernel:
                a1 = DF.expr(c, t["args"][1], depth=12) if len(t["args"]) > 1 else None
                if not (isinstance(a1, tuple) and a1[0] == "arg" and a1[1] == 1):
                    problems.append("the serial kernel is called with %s instead of the captured coeff" % (DF.show(a1) if a1 else None))
                else:
                    n_ok += 1
        for src in writes:
            if src is None or 1 not in dep.args_in_slice([src]):
                problems.append("a worker writes elements computed without coeff (closure %s): for that input shape the result is v_i^-1, not coeff * v_i^-1 -- and the shape depends on the number of threads" % c.id.rsplit("::", 1)[-1])
    (rule.bad if problems else rule.ok)(key, "; ".join(sorted(set(problems))) if problems else "%d worker path(s), all pass coeff to the kernel" % n_ok, f.loc)


def run(ctx, res):
    facts = ctx.facts(UNITS)
    res.analysed = facts.stats()
    mods = modulus_table(facts)
    reducers = find_reducers(facts)
    preds, pinfo = summarise_predicates(facts)
    check_reducers(res, facts, reducers, preds, pinfo, mods)
    check_ops(res, facts, reducers, mods)
    check_shape(res, facts, mods)
    check_fromint(res, facts)
    check_fromint_narrow(res, facts)
    check_sopchunk(res, facts, mods)
    check_bytes(res, facts)
    check_unroll(res, facts)
    check_batchinv(res, facts)
    check_batchinv_par(res, facts)
    from rules import c01_cios
    c01_cios.check_cios(res, facts, ["ws", "curves", "shapes"])
    from rules import lincomb
    lincomb.check_field_ops(res, facts, ("fp::Fp<",), 20)
    from rules import c01_fromint
    c01_fromint.check_fromint_divisor(res, facts)
    res.notes.append("moduli analysed: %d (units %s); reduction helpers: %d; geq-predicates: %d" % (len(mods), UNITS, len(reducers), len(pinfo)))
    return {
        "level": "other",
        "explanation": "Path-exhaustive structural rules over the MIR of the generic Montgomery backend (each configuration arm split on MODULUS_HAS_SPARE_BIT / CAN_USE_NO_CARRY_*), of every macro-derived field in the workspace, in all curve crates and in /verif/witness/shapes, and over the compiler-evaluated constant table. Decides: carry reaches the final reduction, equality with the modulus reduces, shape predicates match the modulus, from_bigint is range-checked. Does NOT decide that the limb schedules (CIOS/SOS) compute a*b*R^-1.",
        "assumptions": ["limb-level mac/adc chains compute what their names say (not decided statically)", "rustc MIR faithfully represents the compiled code"],
    }
