#!/usr/bin/env python3
"""Entry point of every registered check:  python3 /verif/check.py <PROPERTY-ID> [--tier quick|thorough]

Rebuilds the fact base from /repo's current working tree (cached by content hash), runs the rule
module of the property and writes /verif/evidence/<id>.json.  Exit 0: property held on everything
analysed (known findings are printed as KNOWN-FINDING lines); exit 1 + VIOLATION line otherwise.
"""
import sys, os, importlib, time, traceback, json

VERIF = os.path.dirname(os.path.abspath(__file__))
sys.path.insert(0, VERIF)
from arklib import extract, facts as F, report


class Ctx:
    def __init__(self, tier):
        self.tier = tier
        self.root = None
        self.status = None
        self._facts = {}

    def ensure(self, units):
        root, status = extract.extract(units)
        self.root, self.status = root, status
        bad = [u for u in units if not status.get(u, {}).get("ok")]
        if bad:
            raise RuntimeError("fact extraction failed for units %s: %s" % (bad, json.dumps({u: status[u].get("stderr_tail", "")[-1500:] for u in bad})))

    def facts(self, units):
        units = tuple(units)
        if units not in self._facts:
            self.ensure(list(units))
            self._facts[units] = F.Facts(self.root, units)
        return self._facts[units]


def main():
    args = [a for a in sys.argv[1:] if not a.startswith("--")]
    tier = os.environ.get("VERIF_TIER", "quick")
    if "--tier" in sys.argv:
        tier = sys.argv[sys.argv.index("--tier") + 1]
        args = [a for a in args if a != tier]
    if tier not in ("quick", "thorough"):
        tier = "quick"
    pid = args[0]
    mod = importlib.import_module("rules.%s" % pid.lower())
    ctx = Ctx(tier)
    res = report.Result(pid, tier)
    try:
        meta = mod.run(ctx, res) or {}
    except Exception as e:
        traceback.print_exc()
        # fail closed: an analysis that cannot run is not a pass
        r = res.rule("engine", "the analysis itself must complete", 0)
        r.bad("engine-error", "%s: %s" % (type(e).__name__, str(e)[:500]))
        meta = {}
    rc = report.finish(res, level=meta.get("level", "other"), explanation=meta.get("explanation", ""),
                       assumptions=meta.get("assumptions", ()), trusted_base=meta.get("trusted_base", ()),
                       checker_cmd="python3 /verif/check.py %s --tier %s" % (pid, tier))
    sys.exit(rc)


if __name__ == "__main__":
    main()
