"""Abstract interpretation of small integer MIR bodies in the domain of GF(2)-affine bit vectors.

A value is either a concrete integer / bool, a tuple of values, a Slice (list of values, for `&[u64]` inputs), a
Struct (dict of fields, for closure environments) or a BV: 64 result bits, bit j = XOR of a set of *input bits*
(numbered globally: input word k contributes bits 64k .. 64k+63) xor a constant bit.  Shifts by concrete amounts,
AND with concrete masks, XOR, and OR of bit-disjoint values are exact in this domain, so one abstract run covers all
2^(64*words) inputs.  Anything else stops the run with a reason (the caller reports 'undecided', never 'ok').
"""
from .facts import place_parts, op_place

W = 64
MASK = (1 << W) - 1


class BV:
    __slots__ = ("rows", "const")

    def __init__(self, rows, const=0):
        self.rows, self.const = rows, const

    @staticmethod
    def word(k=0):
        return BV([1 << (W * k + j) for j in range(W)])

    def bit(self, j):
        """(mask of input bits XORed into result bit j, constant bit)"""
        return self.rows[j], (self.const >> j) & 1

    def is_zero_bit(self, j):
        return self.rows[j] == 0 and not (self.const >> j) & 1


class Slice:
    def __init__(self, items):
        self.items = list(items)


class Struct:
    def __init__(self, fields):
        self.fields = dict(fields)


class Ref:
    def __init__(self, target):
        self.target = target


class Stop(Exception):
    pass


def _bin(op, x, y):
    ovf = op.endswith("WithOverflow")
    base = op.replace("WithOverflow", "").replace("Unchecked", "")
    if isinstance(x, bool):
        x = int(x)
    if isinstance(y, bool):
        y = int(y)
    if isinstance(x, int) and isinstance(y, int):
        o_ = False
        if base == "Add":
            v, o_ = x + y, x + y > MASK
        elif base == "Sub":
            v, o_ = x - y, x < y
        elif base == "Mul":
            v, o_ = x * y, x * y > MASK
        elif base == "Div":
            if y == 0:
                raise Stop("division by zero")
            v = x // y
        elif base == "Rem":
            if y == 0:
                raise Stop("remainder by zero")
            v = x % y
        elif base == "Shl":
            v, o_ = (x << y) & MASK, y >= W
        elif base == "Shr":
            v, o_ = x >> y, y >= W
        elif base == "BitAnd":
            v = x & y
        elif base == "BitOr":
            v = x | y
        elif base == "BitXor":
            v = x ^ y
        elif base in ("Lt", "Le", "Gt", "Ge", "Eq", "Ne"):
            return {"Lt": x < y, "Le": x <= y, "Gt": x > y, "Ge": x >= y, "Eq": x == y, "Ne": x != y}[base]
        else:
            raise Stop("operator %s" % op)
        return (v & MASK, o_) if ovf else v & MASK
    if isinstance(x, BV) and isinstance(y, int) and base in ("Shl", "Shr"):
        if y >= W:
            raise Stop("shift amount %d out of range" % y)
        if base == "Shr":
            return BV(x.rows[y:] + [0] * y, x.const >> y)
        return BV([0] * y + x.rows[:W - y], (x.const << y) & MASK)
    if base == "BitAnd" and (isinstance(x, BV) != isinstance(y, BV)):
        v, m = (x, y) if isinstance(x, BV) else (y, x)
        if not isinstance(m, int):
            raise Stop("mask is not concrete")
        return BV([v.rows[j] if (m >> j) & 1 else 0 for j in range(W)], v.const & m)
    if base == "BitXor" and isinstance(x, BV) and isinstance(y, BV):
        return BV([p ^ q for p, q in zip(x.rows, y.rows)], x.const ^ y.const)
    if base == "BitXor" and (isinstance(x, BV) != isinstance(y, BV)):
        v, m = (x, y) if isinstance(x, BV) else (y, x)
        if not isinstance(m, int):
            raise Stop("xor with unknown")
        return BV(list(v.rows), v.const ^ m)
    if base == "BitOr" and isinstance(x, BV) and isinstance(y, BV):
        rows = []
        for j in range(W):
            if not (x.is_zero_bit(j) or y.is_zero_bit(j)):
                raise Stop("bitwise OR of overlapping symbolic bits")
            rows.append(x.rows[j] | y.rows[j])
        return BV(rows, x.const | y.const)
    if base == "BitOr" and (isinstance(x, BV) != isinstance(y, BV)):
        v, m = (x, y) if isinstance(x, BV) else (y, x)
        if isinstance(m, int) and m == 0:
            return v
        raise Stop("bitwise OR with a non-zero constant")
    raise Stop("operator %s on symbolic operands" % op)


def run(fn, args, stop_before=None, max_steps=400, call_model=None, stop_after=None):
    """Run fn's MIR from bb0.  args: {local: value}.  Returns (locals dict, end) where end is 'return' or ('stop', bb)
    when a block in stop_before is reached.  Raises Stop(reason) when the domain cannot represent a step or an
    assertion (overflow / bounds check) fails."""
    vals = dict(args)

    def project(v, projs):
        for p in projs:
            if p == "*":
                if isinstance(v, Ref):
                    v = v.target
                continue
            if isinstance(p, (list, tuple)):
                if p[0] == "f":
                    if isinstance(v, tuple):
                        v = v[int(p[1])]
                    elif isinstance(v, Struct):
                        if int(p[1]) not in v.fields:
                            raise Stop("unknown field %s" % p[1])
                        v = v.fields[int(p[1])]
                    else:
                        raise Stop("field of non-aggregate")
                elif p[0] == "i":
                    idx = vals.get(p[1])
                    if not isinstance(v, Slice) or not isinstance(idx, int):
                        raise Stop("index into non-slice / symbolic index")
                    if idx >= len(v.items):
                        raise Stop("index %d out of bounds (len %d)" % (idx, len(v.items)))
                    v = v.items[idx]
                elif p[0] == "ci":
                    if not isinstance(v, Slice):
                        raise Stop("index into non-slice")
                    v = v.items[-p[1] if p[2] else p[1]]
                else:
                    raise Stop("projection %s" % (p,))
            else:
                raise Stop("projection %s" % (p,))
        return v

    def operand(o):
        if "k" in o:
            v = o["k"].get("v")
            if isinstance(v, bool):
                return v
            if isinstance(v, int):
                return v
            raise Stop("non-integer constant")
        l, projs = place_parts(op_place(o))
        if l not in vals:
            raise Stop("read of undefined local _%d" % l)
        return project(vals[l], projs)
    bb = 0
    for _ in range(max_steps):
        if stop_before is not None and bb in stop_before:
            return vals, ("stop", bb)
        blk = fn.bbs[bb]
        for si_, s in enumerate(blk["s"]):
            if stop_after is not None and stop_after[0] == bb and si_ > stop_after[1]:
                return vals, ("stop", bb)
            if "d" not in s:
                continue
            l, projs = place_parts(s["d"])
            if projs:
                raise Stop("store through projection")
            r = s["r"]
            k = r["k"]
            if k in ("use", "cast"):
                v = operand(r["o"])
                if k == "cast" and isinstance(v, bool):
                    v = int(v)
                vals[l] = v
            elif k == "bin":
                vals[l] = _bin(r["op"], operand(r["a"]), operand(r["b"]))
            elif k == "un":
                v = operand(r["o"])
                if r["op"] == "Not":
                    if isinstance(v, bool):
                        vals[l] = not v
                    elif isinstance(v, int):
                        vals[l] = (~v) & MASK
                    elif isinstance(v, BV):
                        vals[l] = BV(list(v.rows), v.const ^ MASK)
                    else:
                        raise Stop("not of aggregate")
                elif r["op"] == "PtrMetadata":
                    t = v.target if isinstance(v, Ref) else v
                    if not isinstance(t, Slice):
                        raise Stop("metadata of non-slice")
                    vals[l] = len(t.items)
                else:
                    raise Stop("unary %s" % r["op"])
            elif k in ("ref", "raw", "addr"):
                pl, pp = place_parts(r["p"])
                if pl not in vals:
                    raise Stop("reference to undefined local")
                tgt = project(vals[pl], [p for p in pp])
                vals[l] = Ref(tgt)
            elif k == "agg" and r.get("ak") == "tuple":
                vals[l] = tuple(operand(o) for o in r["ops"])
            else:
                raise Stop("statement kind %s" % k)
        t = blk["t"]
        tk = t["k"]
        if tk == "goto":
            bb = t["t"]
        elif tk == "assert":
            c = operand(t["c"])
            if isinstance(c, (BV, Slice, Struct, tuple)):
                raise Stop("assertion on a symbolic value")
            if bool(c) != bool(t.get("exp", True)):
                raise Stop("assertion fails: %s" % t.get("msg", "?"))
            bb = t["t"]
        elif tk == "switch":
            v = operand(t["o"])
            if isinstance(v, bool):
                v = int(v)
            if not isinstance(v, int):
                raise Stop("branch on a symbolic value")
            bb = t["else"]
            for val, tgt in zip(t["vals"], t["tgts"]):
                if v == val:
                    bb = tgt
        elif tk == "return":
            return vals, "return"
        elif tk == "call":
            name = t["f"].get("name")
            argv = [operand(a) for a in t["args"]]
            if call_model is not None:
                out = call_model(name, argv, t)
            else:
                out = NotImplemented
            if out is NotImplemented:
                if name == "len" and argv and isinstance(argv[0].target if isinstance(argv[0], Ref) else argv[0], Slice):
                    a0 = argv[0].target if isinstance(argv[0], Ref) else argv[0]
                    out = len(a0.items)
                else:
                    raise Stop("call to %s" % name)
            dl, dp = place_parts(t["d"])
            if dp:
                raise Stop("call result stored through projection")
            vals[dl] = out
            if t.get("t") is None:
                raise Stop("diverging call")
            bb = t["t"]
        else:
            raise Stop("terminator %s" % tk)
    raise Stop("too many steps")
