#!/usr/bin/env python3
"""collect_refactor.py <tag> [prefix]: copy /tmp/<prefix><tag>/SEED/R* into /verif/refactors/<tag>-R<k>/ with a result.json
naming the checks anchored in the touched files; remove the worktree.  Replay with tools/regress_refactors.py."""
import sys, os, json, shutil, re, glob, subprocess
VERIF = "/verif"
props = [json.loads(l) for l in open(os.path.join(VERIF, "properties.jsonl"))]
byfile = {}
for p in props:
    for f in p["anchors"]["files"]:
        byfile.setdefault(f, set()).add(p["id"])
EXTRA = {"ff-macros/src/montgomery/mul.rs": {"C01", "C16", "C20"}, "ff-macros/src/montgomery/square.rs": {"C01", "C16", "C20"}, "ff/src/biginteger/arithmetic.rs": {"C01", "C15"},
         "ff/src/fields/models/fp/montgomery_backend.rs": {"C01", "C20"}, "ec/src/hashing/map_to_curve_hasher.rs": {"C13"}, "ec/src/hashing/curve_maps/mod.rs": {"C13"},
         "ff/src/fields/fft_friendly.rs": {"C07", "C16"}, "ff/src/fields/utils.rs": {"C07"}, "ff/src/fields/cyclotomic.rs": {"C02", "C06"}, "ff/src/fields/arithmetic.rs": {"C01", "C02", "C03"},
         "ff/src/bits.rs": {"C02", "C04", "C15"}, "ec/src/scalar_mul/mod.rs": {"C04"}, "ec/src/lib.rs": {"C04"}, "ff/src/fields/mod.rs": {"C01", "C04", "C14"}, "poly/src/domain/utils.rs": {"C07", "C14"},
         "ff/src/fields/models/fp/mod.rs": {"C01", "C09", "C19"}, "ec/src/models/twisted_edwards/mod.rs": {"C04", "C05", "C10", "C12"}}
tag = sys.argv[1]
prefix = sys.argv[2] if len(sys.argv) > 2 else "w5_"
src = "/tmp/%s%s/SEED" % (prefix, tag)
for d in sorted(glob.glob(src + "/R*")):
    k = os.path.basename(d)
    dst = os.path.join(VERIF, "refactors", "%s-%s" % (tag, k))
    os.makedirs(dst, exist_ok=True)
    for fn in os.listdir(d):
        if os.path.isfile(os.path.join(d, fn)):
            shutil.copy(os.path.join(d, fn), dst)
    patch = os.path.join(dst, "patch.diff")
    files = sorted(set(re.findall(r"^\+\+\+ b/(\S+)", open(patch).read(), re.M)))
    ids = set()
    for f in files:
        ids |= byfile.get(f, set()) | EXTRA.get(f, set())
    json.dump({"refactoring": "%s-%s" % (tag, k), "files": files, "checks_run": sorted(ids), "alarms": {}}, open(os.path.join(dst, "result.json"), "w"), indent=1)
    print(dst, files, sorted(ids))
subprocess.run(["git", "-C", "/repo", "worktree", "remove", "--force", "/tmp/%s%s" % (prefix, tag)], capture_output=True)
