"""C13 — hash-to-field / hash-to-curve follow RFC 9380: structural clauses.

  R-XMD      expand_message_xmd feeds the hash in the RFC's order:
               b_0 = H(Z_pad || msg || I2OSP(n,2) || I2OSP(0,1) || DST'),  b_1 = H(b_0 || 1 || DST'),
               b_i = H(b_0 xor b_(i-1) || i || DST'); DST' = DST || I2OSP(len,1); oversize DSTs are
             replaced by H("H2C-OVERSIZE-DST-" || DST); ell <= 255 and n < 2^16 are asserted.
             Decided by abstracting every `update` argument to its provenance and comparing the
             sequence between finalisations.
  R-ZPAD     the Z_pad length handed to the expander derives from the hash's input block size, not
             from the field size (RFC 9380 5.3.1: s_in_bytes).
  R-LEN      L = ceil((MODULUS_BIT_SIZE + SEC_PARAM) / 8); hash_to_field requests N*m*L bytes, slices
             element (i, j) at L*(j + i*m) and reduces big-endian.
  R-SGN0     parity() takes the first non-zero base-prime-field coordinate and returns its low bit.
  R-CLEARED  MapToCurveBasedHasher::hash maps two field elements, adds the points and returns only
             through clear_cofactor.
  Constants (ZETA, isogenies, Elligator precomputations): C16.
"""
from arklib import dataflow as DF
from arklib.poly import Q
from arklib.facts import op_local, op_place, place_parts, closure_args

EXP = "ark_ff::fields::field_hashers::expander::"


def rpo(fn):
    succ = fn.succ()
    seen, order = set(), []
    st = [(0, iter(succ[0]))]
    seen.add(0)
    while st:
        n, it = st[-1]
        adv = False
        for s in it:
            if s not in seen:
                seen.add(s)
                st.append((s, iter(succ[s])))
                adv = True
                break
        if not adv:
            order.append(n)
            st.pop()
    return order[::-1]


def root_def(fn, operand, depth=10):
    """follow an operand through single-definition borrows / copies / unsizing casts / index calls to the
    event that produced the underlying value: ('const', k) | ('call', t) | ('rv', rvalue) | ('arg', n)"""
    defs = fn.defs()
    o = operand
    for _ in range(depth):
        if "k" in o:
            return ("const", o["k"])
        p = op_place(o)
        l, projs = place_parts(p)
        ds = defs.get(l, [])
        if not ds and 1 <= l <= fn.d["argc"]:
            return ("arg", l)
        if len(ds) != 1:
            return ("multi", l)
        d = ds[0]
        if d[2] == "call":
            t = d[3]
            if t["f"].get("name") in ("index", "deref", "as_ref", "borrow", "as_slice", "into_iter", "iter") and t["args"]:
                o = t["args"][0]
                continue
            return ("call", t)
        r = d[3]["r"]
        if r["k"] in ("use", "cast"):
            o = r["o"]
        elif r["k"] == "ref":
            pl, pp = place_parts(r["p"])
            fields = [x for x in pp if isinstance(x, (list, tuple)) and x[0] == "f"]
            if fields and 1 <= pl <= fn.d["argc"]:
                return ("argfield", pl, fields[-1][2])
            o = {"c": pl}
        else:
            return ("rv", r)
    return ("deep", None)


def _scalar_tok(fn, o):
    """caller-side description of a one-byte counter argument handed to a helper: its literal value, else 'i'"""
    e = root_def(fn, o)
    if e[0] == "const" and "v" in e[1]:
        return str(e[1]["v"])
    if e[0] == "arg":
        return "ARG%d" % e[1]
    return "i"


def token(fn, dep, t, facts=None, fin_helpers=()):
    """provenance class of the data argument of an `update` call"""
    ev = root_def(fn, t["args"][-1])
    if ev[0] == "call" and ev[1]["f"].get("name") in fin_helpers:
        return "B0"
    if ev[0] == "call" and ev[1]["f"].get("name") in ("collect", "from_iter") and facts is not None and ev[1]["args"]:
        # strxor written as an iterator chain: a.iter().zip(b.iter()).map(|(l, r)| l ^ r).collect()
        l = op_local(ev[1]["args"][0])
        calls = [c["f"].get("name") for _, c in dep.calls_in_slice([l])] if l is not None else []
        xor = any(s2.get("r", {}).get("k") == "bin" and s2["r"]["op"] == "BitXor" for c in facts.closures_of(fn) for _, _, s2 in c.stmts())
        if "zip" in calls and "map" in calls and xor:
            return "XOR"
    if ev[0] == "const":
        k = ev[1]
        st = (k.get("static") or "").rsplit("::", 1)[-1]
        if st:
            return st
        lits = [d for d in k.get("pdefs", []) if d.startswith("lit:")]
        if lits:
            return "I(%s)" % lits[0][4:]
        names = [d.rsplit("::", 1)[-1] for d in ([k.get("def") or ""] + k.get("pdefs", []))]
        for n in names:
            if n in ("Z_PAD", "LONG_DST_PREFIX"):
                return n
        return "CONST"
    if ev[0] == "arg":
        return "ARG%d" % ev[1]
    if ev[0] == "argfield":
        return "ARG%d.%s" % (ev[1], ev[2])
    if ev[0] == "call":
        n = ev[1]["f"].get("name")
        if n in ("finalize_fixed_reset", "finalize_fixed"):
            return "B0" if True else "?"
        if n == "to_be_bytes":
            return "LEN2"
        return "CALL:%s" % n
    if ev[0] == "rv":
        r = ev[1]
        if r.get("k") == "agg" and r.get("ak") == "array" and len(r.get("ops", [])) == 1:
            o = r["ops"][0]
            if "k" in o and "v" in o["k"]:
                return "I(%s)" % o["k"]["v"]
            e2 = root_def(fn, o)
            if e2[0] == "rv" and e2[1].get("k") == "bin" and e2[1].get("op") == "BitXor":
                return "XOR"
            if e2[0] == "arg":
                return "I(ARG%d)" % e2[1]
            if e2[0] == "call" and e2[1]["f"].get("name") == "len":
                return "LEN1"
            l = op_local(o)
            calls = [c["f"].get("name") for _, c in dep.calls_in_slice([l])] if l is not None else []
            if "len" in calls:
                return "LEN1"
            return "I(i)"
    return "?"


def hasher_events(fn, facts=None, depth=1, on_arg=False):
    """order of the data fed to the hash.  Calls of helper functions of the same crate that themselves feed the hasher
    (a maintainer may extract `update(counter); update(DST'); finalize`) are expanded in place, their argument
    tokens replaced by the caller's."""
    dep = DF.Dep(fn)
    pos = {b: i for i, b in enumerate(rpo(fn))}
    helpers = {}
    if facts is not None and depth > 0:
        for bb, t, callee in DF.local_callees(facts, fn):
            sub = hasher_events(callee, facts, depth - 1, on_arg=True)
            if sub:
                helpers[id(t)] = (callee, sub)
    fin_helpers = {c.name for c, sub in helpers.values() if sub and sub[-1] == "FIN"}
    ev = []
    for bb, t in fn.calls():
        n = t["f"].get("name")
        p0 = pos.get(bb, 1 << 30)
        if on_arg and n in ("update", "finalize_fixed_reset", "finalize_fixed"):
            # a helper is expanded only for what it feeds into the hasher it was handed (not one it owns)
            is_dst = n == "update" and "DST" in (t["f"].get("self_head") or t["f"].get("path", ""))
            recv = t["args"][1] if is_dst and len(t["args"]) > 1 else t["args"][0]
            if root_def(fn, recv)[0] not in ("arg", "argfield"):
                continue
        if n == "update" and "DST" in (t["f"].get("self_head") or t["f"].get("path", "")):
            ev.append((p0, 0, "DST'"))
        elif id(t) in helpers:
            callee, sub = helpers[id(t)]
            for k, e in enumerate(sub):
                if e.startswith("I(ARG") and e.endswith(")"):
                    j = int(e[5:-1])
                    e = "I(%s)" % _scalar_tok(fn, t["args"][j - 1])
                elif e.startswith("ARG") and e[3:].isdigit():
                    e = token(fn, dep, {"args": [t["args"][int(e[3:]) - 1]]}, facts, fin_helpers)
                ev.append((p0, k, e))
        elif n == "update" and (t["f"].get("trait") or "").endswith("Update"):
            ev.append((p0, 0, token(fn, dep, t, facts, fin_helpers)))
        elif n in ("finalize_fixed_reset", "finalize_fixed"):
            ev.append((p0, 0, "FIN"))
    return [e for _, _, e in sorted(ev, key=lambda x: (x[0], x[1]))]


# ---- map kernels (symbolic evaluation) -------------------------------------------------------------------

def _map_models():
    from arklib import symex as SX
    F = "ark_ff::fields::Field"

    def extra(m):
        def legendre(ex, st, fr, t, a):
            return SX.Obj(adt="Legendre", fields={0: SX.q_of(ex.deref(a[0]))})
        m.on(SX.by(F, "legendre"), legendre)

        def is_qr(ex, st, fr, t, a):
            d = ex.deref(a[0])
            return SX.Cond("qr", d.fields[0]) if isinstance(d, SX.Obj) and d.adt == "Legendre" and d.fields[0] is not None else SX.TOP
        m.on(SX.by(None, "is_qr"), is_qr)

        def is_qnr(ex, st, fr, t, a):
            d = ex.deref(a[0])
            return SX.Cond("qr", d.fields[0], None, True) if isinstance(d, SX.Obj) and d.adt == "Legendre" and d.fields[0] is not None else SX.TOP
        m.on(SX.by(None, "is_qnr"), is_qnr)

        def sqrt(ex, st, fr, t, a):
            q = SX.q_of(ex.deref(a[0]))
            name = "Y%d" % len([e for e in st.events if e[0] == "sqrt"])
            st.events.append(("sqrt", name, q))
            return SX.some(SX.Obj(name=name))
        m.on(SX.by(F, "sqrt"), sqrt)

        def parity(ex, st, fr, t, a):
            q = SX.q_of(ex.deref(a[0]))
            st.events.append(("parity", q))
            return SX.Cond("par", q)
        m.on(SX.by(None, "parity"), parity)

        def new_unchecked(ex, st, fr, t, a):
            if len(a) == 2:
                x, y = SX.q_of(ex.deref(a[0])), SX.q_of(ex.deref(a[1]))
                st.events.append(("point", x, y))
                return SX.Obj(adt="Affine", fields={0: x, 1: y})
            return NotImplemented
        m.on(SX.by(None, "new_unchecked"), new_unchecked)
        m.on(SX.by(None, "is_on_curve"), lambda ex, st, fr, t, a: True)
    return SX.ring_models(extra)


def _run_map(facts, fn, consts, u):
    from arklib import symex as SX

    def cv(d, k, ctx=()):
        return consts.get(d.rsplit("::", 1)[-1])
    ex = SX.Engine(facts, fn.unit, _map_models(), max_paths=200, max_depth=3, inline_limit=int(__import__("os").environ.get("MAP_INLINE", "120")), const_value=cv)
    out = []
    for p in ex.run(fn, [u]):
        if "diverge" in p.flags or "cut" in p.flags or "panic" in p.flags:
            continue
        pts = [e for e in p.st.events if e[0] == "point"]
        sq = [e for e in p.st.events if e[0] == "sqrt"]
        par = [e for e in p.st.events if e[0] == "parity"]
        out.append({"assume": list(p.assume), "points": pts, "sqrt": sq, "flags": set(p.flags), "parity": par})
    return out


def _lin(y, name):
    """y must be alpha * Y (linear, no constant term) in the sqrt symbol: returns alpha or None"""
    from arklib.poly import Q, Poly
    if y is None:
        return None
    y0 = y.subst(name, Poly())
    if not y0.is_zero():
        return None
    return y.subst(name, Q.const(1).n)


def check_maps(res, facts):
    from arklib import symex as SX
    from arklib.poly import Q
    rule = res.rule("R-MAPS", "map kernels: candidate x-coordinates and g(x) as in RFC 9380, y^2 = g(x) on every arm [polynomial identities, sqrt as a symbol with Y^2 = its argument], exceptional inputs", 7)
    fns = {}
    for f in facts.fns(unit="ws", crate="ark_ec"):
        if f.name == "map_to_curve" and f.kind != "Closure":
            for tag in ("swu", "elligator2"):
                if "curve_maps::" + tag in f.id:
                    fns[tag] = f
    A, B, Z, u = Q.var("A"), Q.var("B"), Q.var("Z"), Q.var("u")
    # ---------------- simplified SWU ----------------
    f = fns.get("swu")
    if f is None:
        rule.bad("ark_ec|SWUMap::map_to_curve", "anchor missing")
    else:
        g = lambda x: x * x * x + A * x + B

        def arms(paths, Zv, uv, want_x1=None):
            """returns {(qr?): [problems]} over the returning paths"""
            found = {}
            for p in paths:
                if len(p["points"]) != 1 or len(p["sqrt"]) != 1:
                    continue
                qr = [c for c in p["assume"] if c.kind == "qr"]
                if len(qr) != 1:
                    continue
                is_qr = not qr[0].neg
                gx1 = qr[0].a
                _, name, arg = p["sqrt"][0]
                _, x, y = p["points"][0]
                probs = []
                alpha = _lin(y, name)
                if alpha is None or x is None or arg is None:
                    probs.append("y is not a multiple of the computed square root")
                else:
                    resid = alpha * alpha * arg - g(x)
                    if not resid.is_zero():
                        probs.append("y^2 - (x^3 + A x + B) does not vanish identically (y = %s*sqrt(%s), x = %s)" % (str(alpha)[:60], str(arg)[:60], str(x)[:80]))
                    if is_qr and not arg.equals(gx1):
                        probs.append("the root taken on the square arm is of %s, not of g(x1)" % str(arg)[:60])
                    if (not is_qr) and not arg.equals(Zv * gx1):
                        probs.append("the root taken on the non-square arm is of %s, not of ZETA*g(x1)" % str(arg)[:60])
                    if is_qr and want_x1 is not None and not x.equals(want_x1):
                        probs.append("x1 = %s, RFC 9380 requires %s" % (str(x)[:80], str(want_x1)[:80]))
                found.setdefault(is_qr, []).append(probs)
            return found
        # generic: Z^2 u^4 + Z u^2 != 0
        paths = [p for p in _run_map(facts, f, {"COEFF_A": A, "COEFF_B": B, "ZETA": Z}, SX.Obj(name="u"))
                 if not any(c.kind == "zero" and not c.neg and "u" in repr(c.a) for c in p["assume"])]
        tv1 = Z * Z * u * u * u * u + Z * u * u
        want_x1 = (Q.const(0) - B) / A * (Q.const(1) + Q.const(1) / tv1)
        fa = arms(paths, Z, u, want_x1)
        for is_qr, label in ((True, "g(x1) square"), (False, "g(x1) non-square")):
            key = "ark_ec|SWUMap::map_to_curve|generic|%s" % label
            if is_qr not in fa:
                rule.undecided(key, "no returning path found on this arm", f.loc)
            else:
                probs = sorted({q for ps in fa[is_qr] for q in ps})
                (rule.bad if probs else rule.ok)(key, "; ".join(probs) if probs else "%d sign sub-paths: y^2 = g(x) identically%s" % (len(fa[is_qr]), ", x1 = (-B/A)(1 + 1/(Z^2u^4+Zu^2))" if is_qr else ", x2 = Z u^2 x1 with y2 = Z u^3 sqrt(Z g(x1))"), f.loc)
        # exceptional: u = 0, and Z u^2 = -1
        for label, consts, uval, Zv in (("u=0", {"COEFF_A": A, "COEFF_B": B, "ZETA": Z}, Q.const(0), Z),
                                        ("Z*u^2=-1", {"COEFF_A": A, "COEFF_B": B, "ZETA": Q.const(0) - Q.const(1) / (u * u)}, SX.Obj(name="u"), Q.const(0) - Q.const(1) / (u * u))):
            key = "ark_ec|SWUMap::map_to_curve|exceptional %s" % label
            paths = _run_map(facts, f, consts, uval)
            fa = arms(paths, Zv, None, B / (Zv * A))
            if True not in fa:
                rule.undecided(key, "no returning path on the square arm", f.loc)
            else:
                probs = sorted({q for ps in fa[True] for q in ps})
                (rule.bad if probs else rule.ok)(key, "; ".join(probs) if probs else "x1 = B/(Z*A), y^2 = g(x1) (the other arm is excluded by C16: g(B/(ZA)) is a square)", f.loc)
    # ---------------- Elligator 2 ----------------
    f = fns.get("elligator2")
    if f is None:
        rule.bad("ark_ec|Elligator2Map::map_to_curve", "anchor missing")
    else:
        J, K = Q.var("J"), Q.var("K")
        jk = J / K
        kinv2 = Q.const(1) / (K * K)
        g = lambda x: x * x * x + jk * x * x + x * kinv2

        def analyse(paths, Zv, want_x1):
            out = {}
            for p in paths:
                if len(p["points"]) != 1 or len(p["sqrt"]) != 1:
                    continue
                qr = [c for c in p["assume"] if c.kind == "qr"]
                if len(qr) != 1:
                    continue
                is_qr = not qr[0].neg
                gx1 = qr[0].a
                _, name, arg = p["sqrt"][0]
                _, v, w = p["points"][0]
                probs = []
                x1 = want_x1
                x2 = Q.const(0) - x1 - jk
                if not gx1.equals(g(x1)):
                    probs.append("g(x1) is evaluated at a different point than x1 = %s (tested value %s)" % (str(want_x1)[:60], str(gx1)[:80]))
                want_arg = g(x1) if is_qr else g(x2)
                if not arg.equals(want_arg):
                    probs.append("the square root on the %s arm is of %s, expected g(%s)" % ("square" if is_qr else "non-square", str(arg)[:80], "x1" if is_qr else "x2 = -x1 - J/K"))
                # RFC 9380 6.7.1 steps 6-7: the sign that is fixed is sgn0 of y itself (the root of g(x)), before the
                # change of model; sgn0(K*y) differs from sgn0(y) for half of the inputs whenever K != 1
                for _, pq in p.get("parity", ()):
                    if pq is None or not pq.equals(Q.var(name)):
                        probs.append("the sign test is applied to %s instead of y = sqrt(g(x)): the returned point is (-v, w) for the inputs where the two signs differ" % str(pq)[:60])
                # Montgomery (s, t) = (x K, y K) -> twisted Edwards (s/t, (s-1)/(s+1)); skip the tv2 = 0 sub-path
                if any(c.kind == "zero" and not c.neg and name in repr(c.a) for c in p["assume"]):
                    out.setdefault(is_qr, []).append(probs)
                    continue
                xx = x1 if is_qr else x2
                s_ = xx * K
                alpha_v = None
                if v is not None and w is not None:
                    # v = s / t with t = +-Y K  => v * t = s ;  w = (s - 1)/(s + 1)
                    if not w.equals((s_ - Q.const(1)) / (s_ + Q.const(1))):
                        probs.append("second Edwards coordinate is %s, expected (s-1)/(s+1) with s = x*K" % str(w)[:80])
                    Y = Q.var(name)
                    vt = v * Y * K
                    if not (vt.equals(s_) or vt.equals(Q.const(0) - s_)):
                        probs.append("first Edwards coordinate is %s, expected s/t with t = +-y*K" % str(v)[:80])
                else:
                    probs.append("output coordinates are not ring expressions")
                out.setdefault(is_qr, []).append(probs)
            return out
        consts = {"COEFF_A_OVER_COEFF_B": jk, "ONE_OVER_COEFF_B_SQUARE": kinv2, "COEFF_B": K, "COEFF_A": J, "Z": Z}
        paths = [p for p in _run_map(facts, f, consts, SX.Obj(name="u")) if not any(c.kind == "zero" and not c.neg and "u" in repr(c.a) and "Y" not in repr(c.a) for c in p["assume"])]
        fa = analyse(paths, Z, (Q.const(0) - jk) / (Q.const(1) + Z * u * u))
        # exactly one of g(x1), g(x2) is a square: g(x2) = Z u^2 g(x1) identically
        x1 = (Q.const(0) - jk) / (Q.const(1) + Z * u * u)
        ident = (g(Q.const(0) - x1 - jk) - Z * u * u * g(x1)).is_zero()
        for is_qr, label in ((True, "g(x1) square"), (False, "g(x1) non-square")):
            key = "ark_ec|Elligator2Map::map_to_curve|generic|%s" % label
            if is_qr not in fa:
                rule.undecided(key, "no returning path on this arm", f.loc)
            else:
                probs = sorted({q for ps in fa[is_qr] for q in ps})
                if not ident:
                    probs.append("g(x2) = Z u^2 g(x1) does not hold for the specified x1, x2")
                (rule.bad if probs else rule.ok)(key, "; ".join(probs) if probs else "x1 = -(J/K)/(1+Zu^2), x2 = -x1 - J/K, root of g(x) on the right candidate, (v, w) = (s/t, (s-1)/(s+1)); g(x2) = Z u^2 g(x1)", f.loc)
        # exceptional: 1 + Z u^2 = 0
        key = "ark_ec|Elligator2Map::map_to_curve|exceptional 1+Z*u^2=0"
        Zx = Q.const(0) - Q.const(1) / (u * u)
        consts = dict(consts, Z=Zx)
        paths = _run_map(facts, f, consts, SX.Obj(name="u"))
        fa = analyse(paths, Zx, Q.const(0) - jk)
        if not fa:
            rule.undecided(key, "no returning path", f.loc)
        else:
            probs = sorted({q for ps in fa.values() for pp in ps for q in pp}, key=lambda q: (not q.startswith(("g(x1)", "x1 =")), q))
            (rule.bad if probs else rule.ok)(key, "; ".join(probs[:3]) if probs else "x1 = -(J/K) (RFC 9380 6.7.1 step 2), x2 = 0", f.loc)


def check_mapsign(res, facts):
    """sign of y: SWU: sgn0(y) == sgn0(u);  Elligator 2: sgn0(y) == 1 on the square arm, 0 otherwise (enumeration of
    the parity / is_qr outcomes, observing whether y is negated after the parity test)"""
    from arklib import pathsim as PS
    rule = res.rule("R-MAPSIGN", "sign convention of the maps: SWU sgn0(y) = sgn0(u); Elligator 2 sgn0(y) = [g(x1) square]", 2)
    for tag, label in (("swu", "SWUMap"), ("elligator2", "Elligator2Map")):
        fs = [f for f in facts.fns(unit="ws", crate="ark_ec") if f.name == "map_to_curve" and f.kind != "Closure" and "curve_maps::" + tag in f.id]
        key = "ark_ec|%s::map_to_curve|sign" % label
        if not fs:
            rule.bad(key, "anchor missing")
            continue
        f = fs[0]
        table = {}
        for par_y in (False, True):
            for other in (False, True):
                def oracle(st, bb, t, par_y=par_y, other=other):
                    n = t["f"].get("name")
                    if n == "parity":
                        k = sum(1 for _, tt in st.calls if tt["f"].get("name") == "parity")
                        # the call being answered is already in st.calls
                        return par_y if k == 1 else other
                    if n == "is_qr":
                        return other if tag == "elligator2" else PS.UNKNOWN
                    if n == "is_zero":
                        return False
                    if n == "is_on_curve":
                        return True
                    return PS.UNKNOWN
                negs = set()
                for st, e in PS.explore(f, oracle, max_states=600):
                    if e != "return":
                        continue
                    names = [tt["f"].get("name") for _, tt in st.calls]
                    if "parity" not in names:
                        continue
                    last = max(i for i, n in enumerate(names) if n == "parity")
                    negs.add("neg" in names[last + 1:])
                table[(par_y, other)] = negs
        want = {(a, b): {a != b} for a in (False, True) for b in (False, True)}
        if table == want:
            rule.ok(key, "y is negated exactly when sgn0(y) differs from %s" % ("sgn0(u)" if tag == "swu" else "[g(x1) is a square]"), f.loc)
        else:
            rule.bad(key, "negation table (sgn0(y), %s) -> negated is %s; the specification negates exactly when the two differ" % ("sgn0(u)" if tag == "swu" else "g(x1) square", {k: sorted(v) for k, v in table.items()}), f.loc)


def check_isoexc(res, facts):
    """RFC 9380 6.6.3: the isogeny map is undefined where a denominator vanishes (the kernel points); there the
    identity must be returned.  Structurally: the construction of the image point is guarded by zero tests of BOTH
    evaluated denominators (C16 shows that the shipped denominators do have roots that are x-coordinates of
    rational points of the isogenous curve, so the case is reachable)."""
    from rules.c07 import E, show
    rule = res.rule("R-ISOEXC", "IsogenyMap::apply returns the identity when a denominator of the rational map vanishes", 1)
    fs = [f for f in facts.fns(unit="ws", crate="ark_ec") if f.kind != "Closure" and f.name == "apply" and "curve_maps::wb" in f.id]
    key = "ark_ec|IsogenyMap::apply|zero-denominator"
    if not fs:
        rule.bad(key, "anchor missing")
        return
    f = fs[0]
    cd = DF.control_deps(f)
    sites = [bb for bb, t in f.calls() if t["f"].get("name") == "new_unchecked"]
    if not sites:
        rule.undecided(key, "image point construction not found", f.loc)
        return
    covered = set()
    seen, st = set(), list(sites)
    guards = []
    while st:
        b = st.pop()
        for (sw, succ) in cd.get(b, ()):
            if sw in seen:
                continue
            seen.add(sw)
            st.append(sw)
            guards.append(E(f, f.bbs[sw]["t"]["o"]))
    clo_zero = any(t["f"].get("name") == "is_zero" for c in facts.closures_of(f) for _, t in c.calls())
    for g in guards:
        txt = show(g)
        # the zero test may be spelt over the pair of evaluations: [x_den(x), y_den(x)].iter().any(|d| d.is_zero())
        if "is_zero" in txt or (clo_zero and ("any(" in txt or "all(" in txt)):
            for d in ("x_map_denominator", "y_map_denominator"):
                if d in txt:
                    covered.add(d)
    # a test on the batch-inverted values / on the product also counts when it mentions both evaluations
    missing = [d for d in ("x_map_denominator", "y_map_denominator") if d not in covered]
    if missing:
        rule.bad(key, "the image point is built as (x_num(x)/x_den(x), y*y_num(x)/y_den(x)) with no zero test of %s: at a kernel point of the isogeny the batch inversion leaves 0 and the map returns (0, 0), which is neither on the target curve nor the identity (RFC 9380 6.6.3 requires the identity)" % " / ".join(missing), f.loc)
    else:
        rule.ok(key, "guarded by zero tests of both denominators", f.loc)


def check_xmd(res, facts):
    rule = res.rule("R-XMD", "expand_message_xmd / DST construction feed the hash in the order of RFC 9380 5.3.1 / 5.3.3", 3)
    fns = {}
    for f in facts.fns(unit="ws", crate="ark_ff"):
        if f.kind == "Closure":
            continue
        if f.name == "expand" and f.impl and "ExpanderXmd" in f.impl.get("self", ""):
            fns["expand"] = f
        if f.name == "update" and f.self_head == EXP + "DST":
            fns["dst_update"] = f
        if f.name == "new_xmd" and f.self_head == EXP + "DST":
            fns["new_xmd"] = f
    # expand
    f = fns.get("expand")
    if f is None:
        rule.bad("ark_ff|ExpanderXmd::expand", "anchor missing")
    else:
        ev = hasher_events(f, facts)
        # the b_i loop body's xor update may live in a closure (for_each) or an inner loop: both give XOR
        want = ["Z_PAD", "ARG2", "LEN2", "I(0)", "DST'", "FIN", "B0", "I(1)", "DST'", "FIN", "XOR", "I(i)", "DST'", "FIN"]
        names = [t["f"].get("name") for _, t in f.calls()]
        asserts = sum(1 for b in f.bbs if b["t"]["k"] == "call" and "panic" in (b["t"]["f"].get("name") or ""))
        lits = set()
        for bi, si, s in f.stmts():
            r = s.get("r")
            if r and r["k"] == "bin" and r["op"] in ("Le", "Lt", "Gt", "Ge"):
                for o in (r["a"], r["b"]):
                    if "k" in o and "v" in o["k"]:
                        lits.add((r["op"], o["k"]["v"]))
                    else:
                        e = root_def(f, o)
                        if e[0] == "rv" and e[1].get("k") == "bin" and e[1].get("op", "").startswith("Shl"):
                            a, b = e[1]["a"], e[1]["b"]
                            if "k" in a and "k" in b and "v" in a["k"] and "v" in b["k"]:
                                lits.add((r["op"], a["k"]["v"] << b["k"]["v"]))
        bound_ok = (("Le", 255) in lits or ("Lt", 256) in lits) and (("Lt", 65536) in lits or ("Le", 65535) in lits)
        trunc = "truncate" in names
        # Z_pad is exactly block_size zero bytes: the slice of the static zero block runs over 0..self.block_size
        from rules.c07 import E as _E, show as _show, A as _A
        zp = [_E(f, t["args"][-1]) for _, t in f.calls() if t["f"].get("name") == "update" and (t["f"].get("trait") or "").endswith("Update") and "Z_PAD" in _show(_E(f, t["args"][-1]))]
        zp_ok = zp == [("call", "index", ("Z_PAD", ("agg", "Range", (0, _A(1, "block_size")))))] or zp == [("call", "index", ("Z_PAD", ("agg", "RangeTo", (_A(1, "block_size"),))))]
        if ev == want and not zp_ok:
            rule.bad("ark_ff|ExpanderXmd::expand|z_pad", "Z_pad is fed as %s, expected exactly the first block_size bytes of the zero block: a clamped / differently computed length changes b_0 for hash functions whose block size it does not reproduce" % [_show(z)[:100] for z in zp], f.loc)
        if ev == want and bound_ok and trunc and asserts >= 2:
            rule.ok("ark_ff|ExpanderXmd::expand", "update sequence %s; ell <= 255 and n < 2^16 asserted; output truncated to n" % ev, f.loc)
        elif ev != want:
            rule.bad("ark_ff|ExpanderXmd::expand", "hash input order is %s, RFC 9380 requires %s" % (ev, want), f.loc)
        else:
            rule.bad("ark_ff|ExpanderXmd::expand", "bounds ell <= 255 / n < 2^16 (found %s) or the final truncation are missing" % sorted(lits), f.loc)
    f = fns.get("dst_update")
    if f is None:
        rule.bad("ark_ff|DST::update", "anchor missing")
    else:
        dep = DF.Dep(f)
        ups = [(bb, t) for bb, t in f.calls() if t["f"].get("name") == "update"]
        toks = []
        for bb, t in sorted(ups, key=lambda x: x[0]):
            tk = token(f, dep, t)
            toks.append("LEN1" if tk == "LEN1" else ("BYTES" if tk.startswith(("ARG1", "CALL:as_ref", "CALL:")) else tk))
        (rule.ok if toks == ["BYTES", "LEN1"] else rule.bad)("ark_ff|DST::update", "DST' = DST || I2OSP(len(DST), 1) (found %s)" % toks, f.loc)
    f = fns.get("new_xmd")
    if f is None:
        rule.bad("ark_ff|DST::new_xmd", "anchor missing")
    else:
        ev = hasher_events(f)
        lits = set()
        consts = set()
        for bi, si, s in f.stmts():
            r = s.get("r")
            if r and r["k"] == "bin" and r["op"] in ("Gt", "Ge", "Le", "Lt"):
                for o in (r["a"], r["b"]):
                    if "k" in o:
                        if "v" in o["k"]:
                            lits.add((r["op"], o["k"]["v"]))
                        if o["k"].get("def"):
                            consts.add((r["op"], o["k"]["def"].rsplit("::", 1)[-1]))
        maxlen = None
        prefix = None
        for c in facts.crates:
            if c.name == "ark_ff" and c.unit == "ws":
                for k in c.consts:
                    if k["name"] == "MAX_DST_LENGTH":
                        maxlen = k["val"]
                    if k["name"] == "LONG_DST_PREFIX":
                        prefix = k["val"]
        guard = ("Gt", 255) in lits or (("Gt", "MAX_DST_LENGTH") in consts and maxlen == 255)
        pre = prefix == [ord(ch) for ch in "H2C-OVERSIZE-DST-"] or prefix == "H2C-OVERSIZE-DST-"
        if ev == ["LONG_DST_PREFIX", "ARG1", "FIN"] and guard and pre:
            rule.ok("ark_ff|DST::new_xmd", "len > 255: DST := H(\"H2C-OVERSIZE-DST-\" || DST)", f.loc)
        else:
            rule.bad("ark_ff|DST::new_xmd", "oversize-DST handling deviates: events %s, guard on 255: %s, prefix constant ok: %s" % (ev, guard, pre), f.loc)


def check_zpad(res, facts):
    rule = res.rule("R-ZPAD", "Z_pad length (ExpanderXmd::block_size) is the hash's input block size", 1)
    for f in facts.fns(unit="ws", crate="ark_ff"):
        if f.name == "new" and f.impl and "DefaultFieldHasher" in f.impl.get("self", "") and (f.trait_impl or "").endswith("HashToField") and f.kind != "Closure":
            dep = DF.Dep(f)
            key = "ark_ff|DefaultFieldHasher::new|block_size"
            for bi, si, s in f.stmts():
                r = s.get("r")
                if r and r["k"] == "agg" and (r.get("adt") or "").endswith("ExpanderXmd"):
                    idx = r["fields"].index("block_size")
                    l = op_local(r["ops"][idx])
                    cs = [c for _, c in dep.calls_in_slice([l])] if l is not None else []
                    calls = [c["f"].get("name") for c in cs]
                    from_block = [c for c in cs if c["f"].get("name") == "block_size" and "BlockSizeUser" in (c["f"].get("trait") or c["f"].get("path") or "")]
                    if from_block and "get_len_per_elem" not in calls:
                        rule.ok(key, "block_size: <H as BlockSizeUser>::block_size()", f.loc)
                    elif "get_len_per_elem" in calls:
                        rule.bad(key, "block_size (the number of zero bytes Z_pad prepended to the message) is set to the per-element length L = ceil((log2 p + k)/8) instead of the hash function's input block size s_in_bytes: outputs differ from RFC 9380 whenever L != s_in_bytes", f.loc)
                    else:
                        rule.bad(key, "block_size (Z_pad length) does not come from the hash's BlockSizeUser::block_size() (derived from %s)" % (calls or "constants only"), f.loc)


def check_len(res, facts):
    rule = res.rule("R-LEN", "L = ceil((MODULUS_BIT_SIZE + SEC_PARAM)/8); hash_to_field requests N*m*L bytes and slices element (i, j) at L*(j + i*m), big-endian reduction", 3)
    g = [f for f in facts.fns(unit="ws", crate="ark_ff") if f.id.endswith("field_hashers::get_len_per_elem")]
    if not g:
        rule.bad("ark_ff|get_len_per_elem", "anchor missing")
    else:
        f = g[0]
        dep = DF.Dep(f)
        names = {(k.get("def") or "").rsplit("::", 1)[-1] for k in dep.consts_in_slice([0])} | {k.get("param") for k in dep.consts_in_slice([0])}
        calls = [t["f"].get("name") for _, t in f.calls()]
        lits = [k.get("v") for k in dep.consts_in_slice([0]) if "v" in k]
        adds = any(s.get("r", {}).get("k") == "bin" and s["r"]["op"].startswith("Add") for _, _, s in f.stmts())
        ok = "MODULUS_BIT_SIZE" in names and "SEC_PARAM" in names and "div_ceil" in calls and 8 in lits and adds
        (rule.ok if ok else rule.bad)("ark_ff|get_len_per_elem", "(MODULUS_BIT_SIZE + SEC_PARAM).div_ceil(8) (constants %s, calls %s)" % (sorted(n for n in names if n), calls), f.loc)
    h = [f for f in facts.fns(unit="ws", crate="ark_ff") if f.name == "hash_to_field" and f.impl and "DefaultFieldHasher" in f.impl.get("self", "") and f.kind != "Closure"]
    if not h:
        rule.bad("ark_ff|DefaultFieldHasher::hash_to_field", "anchor missing")
        return
    f = h[0]
    # requested length: product of N, m (extension_degree) and len_per_base_elem
    dep = DF.Dep(f)
    exp = [t for _, t in f.calls() if t["f"].get("name") == "expand"]
    ok_len = False
    if exp:
        l = op_local(exp[0]["args"][-1])
        sl = dep.slice([l]) if l is not None else set()
        muls = sum(1 for _, _, s in f.stmts() if s.get("r", {}).get("k") == "bin" and s["r"]["op"].startswith("Mul") and place_parts(s["d"])[0] in sl)
        calls = [c["f"].get("name") for _, c in dep.calls_in_slice([l])] if l is not None else []
        params = {k.get("param") for k in dep.consts_in_slice([l])} if l is not None else set()
        ok_len = muls >= 2 and "extension_degree" in calls and "N" in params
    (rule.ok if ok_len else rule.bad)("ark_ff|DefaultFieldHasher::hash_to_field|len_in_bytes", "requests N * m * L bytes", f.loc)
    # element (i, j) is the big-endian reduction of uniform[L*(j + i*m) .. +L].  Two accepted shapes of the start offset:
    # the closed form (any nesting of closures), or a running offset advanced by L once per reduction.
    from rules.c07 import norm, show
    from rules.c17 import to_q, NotPoly
    key = "ark_ff|DefaultFieldHasher::hash_to_field|slicing"
    hosts = [f] + [c for c in facts.fns(unit="ws", crate="ark_ff") if c.kind == "Closure" and c.id.startswith(f.id + "::{closure")]
    sites = [(h, bb, t) for h in hosts for bb, t in h.calls() if t["f"].get("name") == "from_be_bytes_mod_order"]
    if len(sites) != 1:
        rule.bad(key, "expected one big-endian reduction of the per-element bytes (from_be_bytes_mod_order), found %d" % len(sites), f.loc)
        return
    h, hbb, t = sites[0]
    term = norm(DF.lift_captures(facts, h, DF.expr(h, t["args"][0], depth=40)))
    L = ("arg", 1, ("len_per_base_elem",))
    names = {L: "L", ("call", "extension_degree", ()): "m"}

    def leaf(x):
        if x in names:
            return names[x]
        if isinstance(x, tuple) and x and x[0] == "cparam" and not x[3]:
            return "idx%d" % x[1]
        if isinstance(x, tuple) and x and x[0] == "phi" and not x[2]:
            return "phi%d" % x[1]
        return None
    start, length, base = Q.const(0), None, term
    try:
        while isinstance(base, tuple) and base[0] == "call" and base[1] == "index" and len(base[2]) == 2 and len(base) == 3:
            rg = base[2][1]
            if not (isinstance(rg, tuple) and rg[0] == "agg"):
                break
            if rg[1] == "RangeFrom":
                start = start + to_q(rg[2][0], leaf)
            elif rg[1] == "RangeTo":
                length = to_q(rg[2][0], leaf)
            elif rg[1] == "Range":
                start = start + to_q(rg[2][0], leaf)
                length = to_q(rg[2][1], leaf) - to_q(rg[2][0], leaf)
            else:
                break
            base = base[2][0]
    except NotPoly as e:
        rule.bad(key, "slice bounds are not index polynomials: %s" % e, h.loc)
        return
    problems = []
    if not (isinstance(base, tuple) and base[0] == "call" and base[1] == "expand"):
        problems.append("the reduced bytes are a window of %s, not of the expander output" % show(base)[:80])
    if length is None or not length.equals(Q.var("L")):
        problems.append("window length is %s, expected L = len_per_base_elem" % length)
    lv = h.id.count("::{closure#")
    closed = Q.var("L") * (Q.var("idx%d" % lv) + Q.var("idx%d" % (lv - 1)) * Q.var("m")) if lv >= 2 else None
    how = None
    if closed is not None and start.equals(closed):
        how = "uniform[L*(j + i*m)..][..L] (closed form)"
    else:
        phis = [v for v in start.vars() if v.startswith("phi")]
        run = None
        if len(phis) == 1 and start.equals(Q.var(phis[0])):
            l = int(phis[0][3:])
            ds = h.defs().get(l, [])
            inits = [d for d in ds if d[2] == "assign" and d[3]["r"]["k"] == "use" and "k" in d[3]["r"]["o"] and d[3]["r"]["o"]["k"].get("v") == 0]
            steps = []
            for d in ds:
                if d in inits or d[2] != "assign":
                    continue
                try:
                    q = to_q(norm(DF._from_def(h, d, (), 40, DF.TRANSPARENT, False)), leaf)
                except NotPoly:
                    q = None
                steps.append((d, q))
            loops = DF.sccs(h)
            inner = min((scc for scc in loops if hbb in scc), key=len, default=None)
            if len(inits) == 1 and len(steps) == 1 and steps[0][1] is not None and steps[0][1].equals(Q.var(phis[0]) + Q.var("L")) \
                    and inner is not None and steps[0][0][0] in inner and not any(inits[0][0] in scc for scc in loops):
                run = True
        if run:
            how = "running offset: starts at 0 outside the loops, advanced by L once per reduction in the same innermost loop"
        else:
            problems.append("start offset is %s: neither L*(j + i*m) nor a running offset advanced by L per element" % start)
    (rule.bad if problems else rule.ok)(key, "; ".join(problems) if problems else "element bytes = %s, reduced big-endian" % how, h.loc)


def check_xof(res, facts):
    """The XOF form of hash_to_field draws the coefficients of successive elements from ONE reader: each call has to consume
    exactly m * L bytes (L per base-prime-field coefficient), otherwise the next element drawn from the same reader is not
    the reduction of the next L bytes of the stream."""
    rule = res.rule("R-XOF", "hash_to_field over an XofReader consumes exactly L = get_len_per_elem bytes per coefficient (m*L per element): the view handed to read() is not rounded or padded", 0)
    allf = [f for f in facts.fns(unit="ws", crate="ark_ff") if f.id.startswith("ark_ff::fields::field_hashers::hash_to_field")]
    parent = [f for f in allf if f.kind != "Closure" and f.id == "ark_ff::fields::field_hashers::hash_to_field"]
    key = "ark_ff|field_hashers::hash_to_field(XofReader)"
    if not parent:
        rule.bad(key, "anchor missing")
        return
    fn = parent[0]
    reads = [(g, t) for g in allf for _, t in g.calls() if t["f"].get("name") in ("read", "read_exact")]
    views = [DF.show(DF.expr(fn, t["args"][1])) for _, t in fn.calls() if t["f"].get("name") in ("index_mut", "get_mut", "split_at_mut") and len(t["args"]) > 1]
    if not reads:
        rule.bad(key, "no read() from the XOF reader", fn.loc)
        return
    rounding = ("next_multiple_of", "div_ceil", "next_power_of_two", "Add", "Shl", "BitOr", "max(")
    badv = [v for v in views if any(r in v for r in rounding)]
    per_coeff = any(g.kind == "Closure" for g, _ in reads) and "Range{0, get_len_per_elem()}" in views
    if badv:
        rule.bad(key, "the buffer view handed to the reader is %s: more than L bytes per coefficient are consumed, so the reader is left advanced past the element and the next element drawn from it is wrong" % badv[0][:120], fn.loc)
    elif per_coeff:
        rule.ok(key, "read(&mut buf[0..L]) once per coefficient", fn.loc)
    else:
        rule.noverdict(key, "reader access has a shape the rule does not model (views %s)" % [v[:60] for v in views][:3], fn.loc)


def check_sgn0(res, facts):
    """sgn0 (RFC 9380 4.1): the low bit of the first non-zero base-prime-field coordinate, false for zero.  The
    coordinates are touched only through is_zero and the parity of their standard integer, so the result is a function
    of (zero?, odd?) per coordinate: all 3^k vectors for k = 1..3 coordinates are run on opaque coordinate tokens
    (closures / loops interpreted), independent of how the search is written."""
    from arklib import bvinterp as BI
    import itertools
    rule = res.rule("R-SGN0", "sgn0: low bit of the first non-zero base-prime-field coordinate", 1)
    fns = [f for f in facts.fns(unit="ws", crate="ark_ec") if f.id == "ark_ec::hashing::curve_maps::parity"]
    if not fns:
        rule.bad("ark_ec|parity", "anchor missing")
        return
    f = fns[0]

    def closure_of(t):
        cty = [a for a in (t["f"].get("targs") or []) if a.startswith("{closure@")]
        cands = [c for c in facts.fns(unit="ws", crate="ark_ec") if c.kind == "Closure" and c.id.startswith(f.id + "::{closure") and cty and cty[0] in (c.local_ty(1) or "")]
        return cands[0] if len(cands) == 1 else None

    def tok(v):
        while isinstance(v, BI.Ref):
            v = v.get()
        return v
    cases, verdict = 0, None
    for k in (1, 2, 3):
        for vec in itertools.product(("zero", "even", "odd"), repeat=k):
            def model(nm, argv, t, vec=vec, k=k):
                a0 = tok(argv[0]) if argv else None
                if nm == "to_base_prime_field_elements":
                    return BI.Iter([BI.Tok(("c", i)) for i in range(k)])
                if nm == "is_zero" and isinstance(a0, BI.Tok) and a0.label[0] == "c":
                    return vec[a0.label[1]] == "zero"
                if nm == "into_bigint" and isinstance(a0, BI.Tok) and a0.label[0] == "c":
                    return BI.Tok(("int", a0.label[1]))
                if nm in ("is_odd", "is_even") and isinstance(a0, BI.Tok) and a0.label[0] == "int":
                    if vec[a0.label[1]] == "zero":
                        return nm == "is_even"
                    return (vec[a0.label[1]] == "odd") == (nm == "is_odd")
                return NotImplemented
            try:
                vals, _ = BI.run(f, {1: BI.Ref({"x": BI.Tok("element")}, "x")}, call_model=model, closure_of=closure_of, max_steps=4000)
            except BI.Stop as e:
                verdict = verdict or ("undecided", "%d coordinates %s: %s" % (k, list(vec), e))
                break
            got = vals.get(0)
            first = next((v for v in vec if v != "zero"), None)
            want = first == "odd"
            cases += 1
            if got is not want:
                verdict = ("violation", "coordinates (zero? / parity) = %s in tower order: parity() answers %s, sgn0 is %s (the low bit of the first non-zero coordinate)" % (list(vec), got, want))
                break
        if verdict:
            break
    if verdict is None:
        rule.ok("ark_ec|parity", "%d (zero?, odd?) vectors over 1..3 coordinates: always the parity of the first non-zero coordinate" % cases, f.loc)
    elif verdict[0] == "violation":
        rule.bad("ark_ec|parity", verdict[1], f.loc)
    else:
        rule.undecided("ark_ec|parity", "interpretation stopped (%s)" % verdict[1], f.loc)


def check_cleared(res, facts):
    rule = res.rule("R-CLEARED", "hash-to-curve returns clear_cofactor(map(u0) + map(u1))", 1)
    fns = [f for f in facts.fns(unit="ws", crate="ark_ec") if f.name == "hash" and f.impl and "MapToCurveBasedHasher" in f.impl.get("self", "") and f.kind != "Closure"]
    if not fns:
        rule.bad("ark_ec|MapToCurveBasedHasher::hash", "anchor missing")
        return
    f = fns[0]
    dep = DF.Dep(f)
    maps = [(bb, t) for bb, t in f.calls() if t["f"].get("name") == "map_to_curve"]
    clear = [(bb, t) for bb, t in f.calls() if t["f"].get("name") == "clear_cofactor"]
    oks = [(bi, s) for bi, si, s in f.stmts() if s.get("r", {}).get("k") == "agg" and s["r"].get("variant") == "Ok"]
    problems = []
    if len(maps) != 2:
        problems.append("%d map_to_curve calls (random-oracle construction needs two)" % len(maps))
    if not clear:
        problems.append("no clear_cofactor")
    else:
        a = op_local(clear[0][1]["args"][0])
        feeding = [c for _, c in dep.calls_in_slice([a])] if a is not None else []
        if sum(1 for c in feeding if c["f"].get("name") == "map_to_curve") != 2 or not any(c["f"].get("name") == "add" for c in feeding):
            problems.append("the cleared point is not the sum of both mapped points")
        for bi, s in oks:
            pl = op_local(s["r"]["ops"][0])
            if pl is None or place_parts(clear[0][1]["d"])[0] not in dep.slice([pl]):
                problems.append("an Ok(..) result does not come from clear_cofactor")
    # index 0 and 1 of the field elements
    (rule.bad if problems else rule.ok)("ark_ec|MapToCurveBasedHasher::hash", "; ".join(problems) if problems else "Ok(clear_cofactor(Q0 + Q1))", f.loc)


def run(ctx, res):
    facts = ctx.facts(["ws"])
    res.analysed = facts.stats()
    check_xmd(res, facts)
    check_zpad(res, facts)
    check_len(res, facts)
    check_xof(res, facts)
    check_sgn0(res, facts)
    check_cleared(res, facts)
    check_maps(res, facts)
    check_mapsign(res, facts)
    check_isoexc(res, facts)
    return {
        "level": "other",
        "explanation": "Ordering / provenance rules over the MIR of the message expander, hash_to_field and the hash-to-curve wrapper: each hash `update` argument is abstracted to its provenance (Z_pad, message, length, counter, DST', b_0, xor) and the sequence between finalisations compared with RFC 9380; length and slicing expressions are checked by dataflow; the final result is shown to pass cofactor clearing. Equality with an independent RFC implementation on concrete messages (needs SHA-2) and that the SWU / Elligator / isogeny maps land on the curve for every field element are NOT decided here (map constants: C16).",
        "assumptions": ["the digest crate implements the named hash"],
    }
