#!/bin/bash
# scratch helper while developing
cd /repo && T=$(mktemp -d /tmp/af_XXXX) && mkdir -p /tmp/af_out && rm -f /tmp/af_out/* 
LD_LIBRARY_PATH=$(rustc +nightly --print sysroot)/lib ARKFACTS_OUT=/tmp/af_out RUSTFLAGS="-Zmir-opt-level=0 -Awarnings" RUSTC_WORKSPACE_WRAPPER=/verif/arkfacts/target/release/arkfacts CARGO_TARGET_DIR=$T cargo +nightly check --offline --workspace "$@" 2>&1 | tail -15
ls -la /tmp/af_out; du -sh $T; rm -rf $T
