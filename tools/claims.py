"""What each check claims (kept next to the rules so that MANIFEST.json never drifts from the code)."""
CLAIMS = {
 "C01": {
  "technique": "MIR dataflow + path-exhaustive truth tables (lost-carry / must-pass-through / comparison rules) per configuration arm; constant-table recomputation",
  "text": "Structural necessary conditions of C01 decided on all paths and all configuration arms: every conditional-subtraction helper (generic, const-fn twin, macro-generated for each of the ~40 shipped/derived fields) subtracts the configuration's modulus exactly when carry || value >= p; on every arm without a spare bit the final reduction of add/double/mul/square consumes the carry computed by the limb arithmetic; every path to the normal return passes a reduction; shape predicates equal their recomputation from the modulus; from_bigint is range-checked. The limb schedules themselves (CIOS/SOS compute a*b*R^-1) quantify over 64-bit values and are not decided.",
  "note": "Trusted: rustc MIR construction/trait resolution, the rule tables in /verif/rules/c01.py. Assumes mac/adc chains compute what they are named for. Decides the carry/reduction/predicate clauses, not the arithmetic result.",
 },
}
NOT_APPLICABLE = {}
