import hashlib
def xmd(H, msg, dst, n):
    b = H().digest_size; s = H().block_size
    ell = -(-n // b)
    if len(dst) > 255: dst = H(b"H2C-OVERSIZE-DST-" + dst).digest()
    dp = dst + bytes([len(dst)])
    b0 = H(bytes(s) + msg + n.to_bytes(2,'big') + b"\0" + dp).digest()
    bi = H(b0 + b"\1" + dp).digest(); out = bi
    for i in range(2, ell+1):
        bi = H(bytes(x^y for x,y in zip(b0,bi)) + bytes([i]) + dp).digest(); out += bi
    return out[:n]
def h2f(H, p, msg, dst, N):
    L = -(-(p.bit_length()+128)//8)
    u = xmd(H, msg, dst, N*L)
    return [int.from_bytes(u[i*L:(i+1)*L],'big') % p for i in range(N)]
q = 0x1a0111ea397fe69a4b1ba7b6434bacd764774b84f38512bf6730d2a0f6b0f6241eabfffeb153ffffb9feffffffffaaab
r = 0x73eda753299d7d483339d80809a1d80553bda402fffe5bfeffffffff00000001
dst=b"QUUX-V01-CS02-with-demo"
for name,H,p,w in (("fr_sha256",hashlib.sha256,r,32),("fq_sha512",hashlib.sha512,q,48),("fq_sha256",hashlib.sha256,q,48)):
    print(name, *[x.to_bytes(w,'big').hex() for x in h2f(H,p,b"abc",dst,2)])
