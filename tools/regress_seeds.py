#!/usr/bin/env python3
"""Apply every seeded change to /repo in turn and confirm that the check(s) expected to catch it still exit 1.
Run after any change that loosens a rule.  usage: regress_seeds.py [seed ...]"""
import sys, os, subprocess, glob, json

VERIF = "/verif"
WT = os.environ.get("REGRESS_WT", "/repo")      # tree the changes are applied to (a scratch worktree allows parallel runs)
ENV = dict(os.environ, ARK_REPO=WT)
ALT = {"C04-A": ["C15"], "C04-r2A": ["C15"], "C10-B": ["C12"], "C11-A": ["C16"], "C19-r2B": ["C03"], "C08-r2B": ["C14"],
       "C14-A": ["C07"], "C14-B": ["C07"], "C14-r2A": ["C01"], "C20-r2B": ["C16"], "C06-r3A": ["C14"], "C01-r3A": ["C14"], "C11-r3A": ["C16"], "C12-r3B": ["C03"], "C19-r3A": ["C01"], "C19-r3B": ["C08"], "C16-r3B": ["C12"],
       "C08-r4B": ["C16"], "C07-r4B": ["C16"], "C05-r4B": ["C03"], "C09-r4B": ["C01"], "C10-r4B": ["C03"], "C12-r4B": ["C03"], "C11-r4A": ["C10"], "C13-r4B": ["C03"], "C16-r4A": ["C07"], "C18-r4B": ["C14"], "C17-r4B": ["C19"], "C19-r4B": ["C20"],
       "C09-r5B": ["C03"], "C04-r5B": ["C03"]}


def main():
    seeds = sys.argv[1:] or sorted(os.path.basename(d) for d in glob.glob(os.path.join(VERIF, "seeded", "C*")))
    if subprocess.run(["git", "-C", WT, "status", "--porcelain"], capture_output=True, text=True).stdout.strip():
        print(WT + " not clean")
        sys.exit(2)
    missed, skipped = [], []
    touched = set()
    for s in seeds:
        patch = os.path.join(VERIF, "seeded", s, "patch.diff")
        if not os.path.exists(patch):
            continue
        if subprocess.run(["git", "-C", WT, "apply", "--check", patch], capture_output=True).returncode != 0:
            skipped.append(s)
            print("%-10s patch does not apply to the current tree" % s)
            continue
        subprocess.run(["git", "-C", WT, "apply", patch], check=True)
        caught = None
        try:
            for cid in [s[:3]] + ALT.get(s, []):
                touched.add(cid)
                r = subprocess.run(["python3", os.path.join(VERIF, "check.py"), cid], capture_output=True, text=True, env=ENV)
                if r.returncode != 0:
                    line = [l for l in r.stdout.splitlines() if l.startswith("FAIL")][:1]
                    caught = (cid, line[0][:150] if line else "")
                    break
        finally:
            subprocess.run(["git", "-C", WT, "checkout", "HEAD", "--", "."], check=True)
        if caught:
            print("%-10s caught by %s: %s" % (s, caught[0], caught[1]))
        else:
            missed.append(s)
            print("%-10s MISSED" % s)
    print("missed:", missed, "skipped:", skipped)
    if WT == "/repo":
        for cid in sorted(touched):
            subprocess.run(["python3", os.path.join(VERIF, "check.py"), cid], capture_output=True)


main()
