#![no_std]
#![allow(clippy::all)]
//! /verif/witness/shapes — our own configurations, compiled (never run) so that the derive macros and
//! the trait-default arithmetic are analysed for shapes the repository does not ship.
pub mod fields;
pub mod hand;
pub mod ser;
pub mod positive;
pub mod literals;
