"""Independent arithmetic for the constant checks: prime fields, binomial extension towers, affine
curve arithmetic (short Weierstrass, twisted Edwards) — plain Python integers, nothing from /repo."""
import random


def is_probable_prime(n, rounds=24):
    """deterministic small-prime sieve + Miller-Rabin with fixed bases and a few seeded random bases"""
    if n < 2:
        return False
    small = (2, 3, 5, 7, 11, 13, 17, 19, 23, 29, 31, 37, 41, 43, 47, 53, 59, 61, 67, 71)
    for p in small:
        if n % p == 0:
            return n == p
    d, s = n - 1, 0
    while d % 2 == 0:
        d //= 2
        s += 1
    rng = random.Random(0xA11CE)
    bases = list(small[:12]) + [rng.randrange(2, n - 1) for _ in range(rounds)]
    for a in bases:
        a %= n
        if a in (0, 1, n - 1):
            continue
        x = pow(a, d, n)
        if x in (1, n - 1):
            continue
        for _ in range(s - 1):
            x = x * x % n
            if x == n - 1:
                break
        else:
            return False
    return True


def limbs_to_int(l):
    return sum(x << (64 * i) for i, x in enumerate(l))


def two_adicity(n):
    s = 0
    while n % 2 == 0 and n:
        n //= 2
        s += 1
    return s


# ---- fields ---------------------------------------------------------------------------------------

class Prime:
    def __init__(self, p, name=""):
        self.p, self.name = p, name
        self.degree = 1
        self.char = p
        self.order = p

    def zero(self): return 0
    def one(self): return 1
    def add(self, a, b): return (a + b) % self.p
    def sub(self, a, b): return (a - b) % self.p
    def neg(self, a): return (-a) % self.p
    def mul(self, a, b): return a * b % self.p
    def sqr(self, a): return a * a % self.p
    def inv(self, a): return pow(a, -1, self.p)
    def is_zero(self, a): return a % self.p == 0
    def eq(self, a, b): return (a - b) % self.p == 0
    def from_int(self, n): return n % self.p
    def embed_prime(self, n): return n % self.p
    def flatten(self, a): return [a]

    def pow(self, a, e):
        return pow(a, e, self.p)

    def frob(self, a, k=1):
        return a

    def is_square(self, a):
        return a % self.p == 0 or pow(a, (self.p - 1) // 2, self.p) == 1

    def base_prime(self):
        return self

    def __repr__(self):
        return "F_p(%d bits)%s" % (self.p.bit_length(), self.name and " " + self.name)


class Ext:
    """base[X]/(X^d - beta), elements are tuples of d base elements"""

    def __init__(self, base, d, beta, name=""):
        self.base, self.d, self.beta, self.name = base, d, beta, name
        self.degree = d * base.degree
        self.char = base.char
        self.order = base.order ** d

    def zero(self): return tuple(self.base.zero() for _ in range(self.d))
    def one(self): return (self.base.one(),) + tuple(self.base.zero() for _ in range(self.d - 1))
    def add(self, a, b): return tuple(self.base.add(x, y) for x, y in zip(a, b))
    def sub(self, a, b): return tuple(self.base.sub(x, y) for x, y in zip(a, b))
    def neg(self, a): return tuple(self.base.neg(x) for x in a)
    def is_zero(self, a): return all(self.base.is_zero(x) for x in a)
    def eq(self, a, b): return all(self.base.eq(x, y) for x, y in zip(a, b))
    def from_int(self, n): return (self.base.from_int(n),) + tuple(self.base.zero() for _ in range(self.d - 1))
    def embed_prime(self, n): return self.from_int(n)
    def embed_base(self, x): return (x,) + tuple(self.base.zero() for _ in range(self.d - 1))
    def base_prime(self): return self.base.base_prime()

    def flatten(self, a):
        out = []
        for x in a:
            out += self.base.flatten(x)
        return out

    def mul(self, a, b):
        B, d = self.base, self.d
        t = [B.zero()] * (2 * d - 1)
        for i in range(d):
            if B.is_zero(a[i]):
                continue
            for j in range(d):
                t[i + j] = B.add(t[i + j], B.mul(a[i], b[j]))
        for k in range(2 * d - 2, d - 1, -1):
            t[k - d] = B.add(t[k - d], B.mul(self.beta, t[k]))
        return tuple(t[:d])

    def sqr(self, a):
        return self.mul(a, a)

    def pow(self, a, e):
        if e < 0:
            return self.pow(self.inv(a), -e)
        r = self.one()
        x = a
        while e:
            if e & 1:
                r = self.mul(r, x)
            x = self.mul(x, x)
            e >>= 1
        return r

    def inv(self, a):
        # a^(q-2) is too slow for big towers: use the norm to the base field
        B, d = self.base, self.d
        if d == 2:
            # (a0 + a1 X)^-1 = (a0 - a1 X) / (a0^2 - beta a1^2)
            n = B.sub(B.sqr(a[0]), B.mul(self.beta, B.sqr(a[1])))
            ni = B.inv(n)
            return (B.mul(a[0], ni), B.neg(B.mul(a[1], ni)))
        if d == 3:
            a0, a1, a2 = a
            be = self.beta
            t0 = B.sub(B.sqr(a0), B.mul(be, B.mul(a1, a2)))
            t1 = B.sub(B.mul(be, B.sqr(a2)), B.mul(a0, a1))
            t2 = B.sub(B.sqr(a1), B.mul(a0, a2))
            n = B.add(B.mul(a0, t0), B.mul(be, B.add(B.mul(a2, t1), B.mul(a1, t2))))
            ni = B.inv(n)
            return (B.mul(t0, ni), B.mul(t1, ni), B.mul(t2, ni))
        return self.pow(a, self.order - 2)

    def frob(self, a, k=1):
        return self.pow(a, self.char ** k)

    def is_square(self, a):
        return self.is_zero(a) or self.eq(self.pow(a, (self.order - 1) // 2), self.one())

    def __repr__(self):
        return "Ext%d(%r)%s" % (self.d, self.base, self.name and " " + self.name)


def f_pow_is_one(F, a, e):
    return F.eq(F.pow(a, e), F.one())


# ---- curves ---------------------------------------------------------------------------------------

class SW:
    """y^2 = x^3 + a x + b, affine points as (x, y) or None for infinity"""

    def __init__(self, F, a, b):
        self.F, self.a, self.b = F, a, b

    def on_curve(self, P):
        if P is None:
            return True
        F = self.F
        x, y = P
        return F.eq(F.sqr(y), F.add(F.add(F.mul(F.sqr(x), x), F.mul(self.a, x)), self.b))

    def neg(self, P):
        return None if P is None else (P[0], self.F.neg(P[1]))

    def add(self, P, Q):
        F = self.F
        if P is None:
            return Q
        if Q is None:
            return P
        x1, y1 = P
        x2, y2 = Q
        if F.eq(x1, x2):
            if F.eq(y1, y2) and not F.is_zero(y1):
                num = F.add(F.mul(F.from_int(3), F.sqr(x1)), self.a)
                lam = F.mul(num, F.inv(F.add(y1, y1)))
            else:
                return None
        else:
            lam = F.mul(F.sub(y2, y1), F.inv(F.sub(x2, x1)))
        x3 = F.sub(F.sub(F.sqr(lam), x1), x2)
        y3 = F.sub(F.mul(lam, F.sub(x1, x3)), y1)
        return (x3, y3)

    def mul(self, k, P):
        if k < 0:
            return self.mul(-k, self.neg(P))
        R = None
        Q = P
        while k:
            if k & 1:
                R = self.add(R, Q)
            Q = self.add(Q, Q)
            k >>= 1
        return R

    def eq(self, P, Q):
        if P is None or Q is None:
            return P is None and Q is None
        return self.F.eq(P[0], Q[0]) and self.F.eq(P[1], Q[1])


class TE:
    """a x^2 + y^2 = 1 + d x^2 y^2, identity (0, 1)"""

    def __init__(self, F, a, d):
        self.F, self.a, self.d = F, a, d

    def identity(self):
        return (self.F.zero(), self.F.one())

    def on_curve(self, P):
        F = self.F
        x, y = P
        x2, y2 = F.sqr(x), F.sqr(y)
        return F.eq(F.add(F.mul(self.a, x2), y2), F.add(F.one(), F.mul(self.d, F.mul(x2, y2))))

    def add(self, P, Q):
        F = self.F
        x1, y1 = P
        x2, y2 = Q
        t = F.mul(self.d, F.mul(F.mul(x1, x2), F.mul(y1, y2)))
        x3 = F.mul(F.add(F.mul(x1, y2), F.mul(y1, x2)), F.inv(F.add(F.one(), t)))
        y3 = F.mul(F.sub(F.mul(y1, y2), F.mul(self.a, F.mul(x1, x2))), F.inv(F.sub(F.one(), t)))
        return (x3, y3)

    def mul(self, k, P):
        R = self.identity()
        Q = P
        while k:
            if k & 1:
                R = self.add(R, Q)
            Q = self.add(Q, Q)
            k >>= 1
        return R

    def eq(self, P, Q):
        return self.F.eq(P[0], Q[0]) and self.F.eq(P[1], Q[1])

    def is_identity(self, P):
        return self.eq(P, self.identity())


def isqrt(n):
    import math
    return math.isqrt(n)


def hasse_ok(order, q):
    """|order - (q + 1)| <= 2 sqrt(q)"""
    t = order - (q + 1)
    return t * t <= 4 * q


def small_elements(F, limit=40):
    """a deterministic sequence of field elements: 1, 2, 3, ... embedded, then mixed-coordinate ones"""
    for k in range(1, limit):
        yield F.from_int(k)
    if isinstance(F, Ext):
        for k in range(1, limit):
            e = list(F.zero())
            e[0] = F.base.from_int(k)
            e[1] = F.base.from_int(1) if not isinstance(F.base, Ext) else F.base.from_int(1)
            yield tuple(e)


def f_sqrt(F, a):
    """a square root of a in the finite field F (odd characteristic), or None"""
    if F.is_zero(a):
        return a
    q = F.order
    if not F.eq(F.pow(a, (q - 1) // 2), F.one()):
        return None
    if q % 4 == 3:
        return F.pow(a, (q + 1) // 4)
    s = two_adicity(q - 1)
    t = (q - 1) >> s
    z = None
    for c in small_elements(F, 200):
        if not F.is_zero(c) and not F.eq(F.pow(c, (q - 1) // 2), F.one()):
            z = c
            break
    if z is None:
        return None
    c = F.pow(z, t)
    x = F.pow(a, (t + 1) // 2)
    b = F.pow(a, t)
    m = s
    while not F.eq(b, F.one()):
        i, b2 = 0, b
        while not F.eq(b2, F.one()):
            b2 = F.sqr(b2)
            i += 1
        e = F.pow(c, 1 << (m - i - 1))
        x = F.mul(x, e)
        c = F.sqr(e)
        b = F.mul(b, c)
        m = i
    return x
