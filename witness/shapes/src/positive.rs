//! Tiny positive examples for rules whose expected number of matches in the repository is zero:
//! each rule must find its example here on every run (otherwise the rule has gone blind).

/// R-TAIL: exact chunking whose remainder is never looked at.
pub fn tail_dropper(v: &[u64]) -> u64 {
    v.chunks_exact(4).map(|c| c[0]).sum()
}

/// R-TAIL twin that consumes the remainder (must NOT match).
pub fn tail_keeper(v: &[u64]) -> u64 {
    let it = v.chunks_exact(4);
    let r: u64 = it.remainder().iter().sum();
    r + it.map(|c| c[0]).sum::<u64>()
}

/// R-INFCANON (C19): a write to the `infinity` flag of a short-Weierstrass affine point outside its constructors.
pub fn infinity_writer<P: ark_ec::short_weierstrass::SWCurveConfig>(p: &mut ark_ec::short_weierstrass::Affine<P>) {
    p.infinity = true;
}

/// R-LAZY (C17): a mutating closure in a lazy adaptor that is pulled once.
pub fn lazy_writer(src: &[(usize, u64)], dst: &mut [u64]) {
    src.iter().map(|&(i, v)| dst[i] = v).next_back();
}

/// R-AFFLIFT (C03): a projective point built from the raw coordinates of an affine value without a look at its
/// infinity flag.
pub fn affine_lifter<P: ark_ec::short_weierstrass::SWCurveConfig>(
    a: &ark_ec::short_weierstrass::Affine<P>,
) -> ark_ec::short_weierstrass::Projective<P> {
    ark_ec::short_weierstrass::Projective::new_unchecked(a.x, a.y, <P::BaseField as ark_ff::Field>::ONE)
}

/// R-AFFLIFT twin that tests the flag first (must NOT match).
pub fn affine_lifter_checked<P: ark_ec::short_weierstrass::SWCurveConfig>(
    a: &ark_ec::short_weierstrass::Affine<P>,
) -> ark_ec::short_weierstrass::Projective<P> {
    if a.infinity {
        <ark_ec::short_weierstrass::Projective<P> as ark_std::Zero>::zero()
    } else {
        ark_ec::short_weierstrass::Projective::new_unchecked(a.x, a.y, <P::BaseField as ark_ff::Field>::ONE)
    }
}

/// R-ZIPREM (C15): `src.by_ref().zip(dst)` pulls one more item from `src` before it notices that `dst` is exhausted;
/// asking `src` afterwards whether anything is left misses exactly one item.
pub fn zip_by_ref_leftover(src: &[u64], dst: &mut [u64; 2]) -> bool {
    let mut it = src.iter();
    for (s, d) in it.by_ref().zip(dst.iter_mut()) {
        *d = *s;
    }
    it.next().is_some()
}

/// R-ZIPREM twin with the short side first (must NOT match): the source is only pulled while a slot is free.
pub fn zip_by_ref_leftover_ok(src: &[u64], dst: &mut [u64; 2]) -> bool {
    let mut it = src.iter();
    for (d, s) in dst.iter_mut().zip(it.by_ref()) {
        *d = *s;
    }
    it.next().is_some()
}

/// R-TEMPINPLACE (C02): an `_in_place` operation applied to a temporary clone whose result is discarded leaves the
/// receiver unchanged although the function reports success.
pub fn in_place_on_temporary<F: ark_ff::Field>(x: &mut F) -> Option<&mut F> {
    x.clone().square_in_place();
    Some(x)
}

/// R-TEMPINPLACE twin (must NOT match): the temporary is stored back.
pub fn in_place_on_temporary_ok<F: ark_ff::Field>(x: &mut F) -> Option<&mut F> {
    let mut t = x.clone();
    t.square_in_place();
    *x = t;
    Some(x)
}

/// R-ITEROVERRIDE (C07 / C15): an overridden `Iterator::nth` has to agree with n + 1 calls of `next`, also on an iterator
/// that has already been advanced.  Positive example: the end guard ignores the current position.
pub struct CountUp {
    pub cur: u64,
    pub end: u64,
}

impl Iterator for CountUp {
    type Item = u64;
    fn next(&mut self) -> Option<u64> {
        if self.cur == self.end {
            None
        } else {
            let c = self.cur;
            self.cur += 1;
            Some(c)
        }
    }
    fn nth(&mut self, n: usize) -> Option<u64> {
        if n as u64 >= self.end {
            return None;
        }
        self.cur += n as u64;
        self.next()
    }
}

/// R-ITEROVERRIDE twin (must NOT match): the guard counts the remaining items and an overshoot exhausts the iterator.
pub struct CountUpOk {
    pub cur: u64,
    pub end: u64,
}

impl Iterator for CountUpOk {
    type Item = u64;
    fn next(&mut self) -> Option<u64> {
        if self.cur == self.end {
            None
        } else {
            let c = self.cur;
            self.cur += 1;
            Some(c)
        }
    }
    fn nth(&mut self, n: usize) -> Option<u64> {
        if n as u64 >= self.end - self.cur {
            self.cur = self.end;
            return None;
        }
        self.cur += n as u64;
        self.next()
    }
}

/// R-SCALARCARRY (C05): a scalar kept as a big integer is summed with `add_with_carry` and the carry flag is dropped.
pub fn dropped_bigint_carry(a: &mut ark_ff::BigInt<4>, b: &ark_ff::BigInt<4>) {
    use ark_ff::BigInteger;
    a.add_with_carry(b);
}

/// R-SCALARCARRY twin (must NOT match): the flag is handed back to the caller.
pub fn dropped_bigint_carry_ok(a: &mut ark_ff::BigInt<4>, b: &ark_ff::BigInt<4>) -> bool {
    use ark_ff::BigInteger;
    a.add_with_carry(b)
}
