"""Result collection, known-findings handling, evidence writing."""
import json, os, sys, time

VERIF = os.path.dirname(os.path.dirname(os.path.abspath(__file__)))


class Rule:
    def __init__(self, res, name, desc, floor):
        self.res, self.name, self.desc, self.floor = res, name, desc, floor
        self.instances = []   # (key, status, msg, loc)

    def ok(self, key, msg="", loc=""):
        self.instances.append((key, "ok", msg, loc))

    def bad(self, key, msg, loc=""):
        self.instances.append((key, "violation", msg, loc))

    def undecided(self, key, msg, loc=""):
        self.instances.append((key, "undecided", msg, loc))

    def noverdict(self, key, msg, loc=""):
        """a SUPPLEMENTARY clause whose anchor exists but whose code has a shape the rule does not model: no verdict is
        given (neither counted as discharged nor reported).  Only for rules declared with floor 0 whose property is
        carried by other rules; the rule still reports a violation whenever it positively identifies a wrong expression."""
        self.instances.append((key, "no-verdict", msg, loc))

    def count(self, status=None):
        return sum(1 for i in self.instances if status is None or i[1] == status)


class Result:
    def __init__(self, pid, tier):
        self.pid, self.tier = pid, tier
        self.rules = []
        self.notes = []
        self.analysed = {}
        self.t0 = time.time()

    def rule(self, name, desc, floor):
        r = Rule(self, name, desc, floor)
        self.rules.append(r)
        return r

    def violations(self):
        out = []
        for r in self.rules:
            for key, st, msg, loc in r.instances:
                if st == "violation":
                    out.append({"rule": r.name, "key": "%s|%s" % (r.name, key), "msg": msg, "loc": loc})
                elif st == "undecided":
                    # on the pinned tree every instance of every rule is decided; an instance the analysis can no longer
                    # decide is reported (fail closed), not silently dropped from the count
                    out.append({"rule": r.name, "key": "%s|%s|undecided" % (r.name, key), "loc": loc,
                                "msg": "UNDECIDED (failing closed: this instance is decided on the pinned tree): %s" % msg})
            n = r.count() - r.count("undecided") - r.count("no-verdict")
            if n < r.floor:
                out.append({"rule": r.name, "key": "%s|floor" % r.name, "loc": "",
                            "msg": "rule matched %d decided instances, below the confirmed floor of %d (anchor missing or code reshaped beyond what the rule understands) — failing closed" % (n, r.floor)})
        return out


def load_known():
    p = os.path.join(VERIF, "known_findings.json")
    if not os.path.exists(p):
        return {"findings": [], "fixed": []}
    return json.load(open(p))


def finish(res, level="other", explanation="", assumptions=(), trusted_base=(), checker_cmd=""):
    pid = res.pid
    known = {f["key"]: f for f in load_known().get("findings", []) if f.get("property") == pid}
    viol = res.violations()
    new = [v for v in viol if v["key"] not in known]
    hit = [v for v in viol if v["key"] in known]
    for v in hit:
        print("KNOWN-FINDING: property=%s %s -- %s" % (pid, v["key"], known[v["key"]].get("what", v["msg"])))
    ev_dir = os.path.join(VERIF, "evidence")
    dev = os.environ.get("ARK_REPO")
    if dev and os.path.realpath(dev) != "/repo":
        # development run against a scratch worktree: the committed evidence must only ever come from /repo itself
        ev_dir = os.path.join("/tmp/ark_dev_evidence", os.path.basename(os.path.realpath(dev)))
    os.makedirs(ev_dir, exist_ok=True)
    obligations = sum(r.count() for r in res.rules)
    discharged = sum(r.count("ok") for r in res.rules)
    undec = [{"rule": r.name, "key": k, "why": m} for r in res.rules for (k, s, m, l) in r.instances if s == "undecided"]
    samples = []
    for r in res.rules:
        for (k, s, m, l) in r.instances[:3]:
            samples.append({"rule": r.name, "instance": k, "status": s, "at": l, "detail": m[:300]})
    distinct = len({(r.name, i[0]) for r in res.rules for i in r.instances})
    cov = {
        "explanation": explanation,
        "obligations": obligations,
        "discharged": discharged,
        "evaluations": max(obligations, 1),
        "distinct_nontrivial": distinct,
        "rule": "one obligation per (rule, code site / configuration / table entry) found in the compiler IR of /repo's working tree; distinct = distinct (rule, instance-key) pairs",
        "samples": samples or [{"note": "no instances"}],
        "rules": [{"name": r.name, "what": r.desc, "instances": r.count(), "floor": r.floor, "ok": r.count("ok"),
                   "violations": r.count("violation"), "undecided": r.count("undecided"), "no_verdict": r.count("no-verdict")} for r in res.rules],
        "undecided": undec[:60],
        "analysed": res.analysed,
        "known_findings_hit": [v["key"] for v in hit],
        "checker_cmd": checker_cmd or ("python3 /verif/check.py %s" % pid),
        "trusted_base": list(trusted_base) or ["rustc MIR construction and trait resolution (nightly)", "cargo building what the real build builds", "rule tables in /verif/rules"],
        "notes": res.notes,
        "exhaustive": False,
    }
    ev = {
        "property_id": pid, "tier": res.tier, "seed": int(os.environ.get("VERIF_SEED", "0") or 0), "level": level,
        "coverage": cov, "assumptions": list(assumptions), "wall_s": round(time.time() - res.t0, 2),
        "violations": len(new),
    }
    json.dump(ev, open(os.path.join(ev_dir, pid + ".json"), "w"), indent=1)
    if new:
        rp_dir = os.path.join(ev_dir, "replay")
        os.makedirs(rp_dir, exist_ok=True)
        rp = os.path.join(rp_dir, pid + ".json")
        json.dump({"property": pid, "violations": new}, open(rp, "w"), indent=1)
        for v in new:
            print("FAIL %s: %s  [%s] at %s" % (pid, v["msg"], v["key"], v["loc"]))
        print("VIOLATION property=%s replay=%s" % (pid, rp))
        return 1
    stale = os.path.join(ev_dir, "replay", pid + ".json")
    if os.path.exists(stale):
        os.remove(stale)          # the replay file describes the violations of the latest run only
    print("OK %s: %d obligations, %d discharged, %d undecided, %d known findings (%.1fs)" % (
        pid, obligations, discharged, len(undec), len(hit), time.time() - res.t0))
    return 0
