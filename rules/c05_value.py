"""C05 R-MSM.value -- the two bucket kernels (msm_bigint, msm_bigint_wnaf) return sum_i k_i * P_i, decided in the exponent
domain.

The group is a Z-module: the bases are symbols P_0 .. P_{n-1}; `zero()` is 0, `+=` / `-=` add and subtract, `double_in_place`
doubles.  The scalars are concrete big integers and the scalar-field bit size a small concrete constant, so the window width,
the digit extraction (make_digits with its carries, or `>>= w_start` and the `% 2^c` mask), the bucket indexing, the
running-sum flush and the window recombination all unroll along the MIR.  The result is an integer combination of the P_i and
must equal sum k_i P_i:

  * 5-bit scalars, window c = 3 (two windows, a carry between them on the signed path): every single scalar, all 1024
    scalar pairs, triples with zeros and ones in every position (thorough: a grid of 216 triples, all 7-bit singles);
  * 6-bit scalars (a bit size divisible by the window: the top signed digit reaches 2^c and needs the last bucket);
  * 33 bases (c = ln(33) + 2 = 6) with 12- and 13-bit scalars: windows of the wider width;
  * two-limb scalars (70-bit field): windows that straddle the limb boundary.

Independent of how the kernels are organised (helpers, closures, iterator chains).  The structural rules (R-WINDOW, R-DIGITS,
R-BUCKETS, R-FLUSH, R-DIGITALIGN) stay; this clause adds the value.  The `parallel` cfg twins are evaluated as well: rayon's order-preserving adaptors are read as their serial namesakes.
Supplementary: no verdict when a body cannot be followed; a missing anchor fails closed."""
from arklib import symex as SX
from arklib.poly import Q
from rules import c07_dft, c08_arith

BIG = "ark_ff::biginteger::BigInt"
M64 = (1 << 64) - 1


def _isbig(v):
    return isinstance(v, SX.Obj) and v.adt == BIG and isinstance(v.fields.get(0), SX.Obj)


def _limbs(v):
    return [v.fields[0].fields[i] for i in sorted(v.fields[0].fields)]


def mkbig(k, n):
    return SX.Obj(adt=BIG, fields={0: SX.Obj(adt="array", fields={i: (k >> (64 * i)) & M64 for i in range(n)})})


def _first(nlimbs):
    def first(md, H):
        def as_ref(ex, st, fr, t, a):
            d = ex.deref(a[0]) if len(a) == 1 else None
            if _isbig(d):
                r = H["base"](a[0], ex)
                return SX.Ref(r.cell, tuple(r.projs) + (("f", 0, "0"),))
            return NotImplemented
        md.on(SX.by(None, "as_ref"), as_ref)

        def is_zero(ex, st, fr, t, a):
            d = ex.deref(a[0]) if len(a) == 1 else None
            return all(x == 0 for x in _limbs(d)) if _isbig(d) else NotImplemented
        md.on(SX.by(None, "is_zero"), is_zero)

        def eq(neg):
            def h(ex, st, fr, t, a):
                x, y = (ex.deref(a[0]), ex.deref(a[1])) if len(a) == 2 else (None, None)
                if _isbig(x) and _isbig(y):
                    return (_limbs(x) == _limbs(y)) != neg
                return NotImplemented
            return h
        md.on(SX.by(None, "eq"), eq(False))
        md.on(SX.by(None, "ne"), eq(True))

        def shr_assign(ex, st, fr, t, a):
            d = ex.deref(a[0])
            k = ex.deref(a[1]) if len(a) == 2 else None
            if _isbig(d) and isinstance(k, int) and not isinstance(k, bool):
                ls = _limbs(d)
                v = sum(x << (64 * i) for i, x in enumerate(ls)) >> k
                for i in range(len(ls)):
                    d.fields[0].fields[i] = (v >> (64 * i)) & M64
                return SX.Obj(adt="()")
            return NotImplemented
        md.on(SX.by(None, "shr_assign"), shr_assign)

        def into_bigint(ex, st, fr, t, a):
            q = SX.q_of(ex.deref(a[0])) if len(a) == 1 else None
            if q is not None and q.is_poly() and q.n.is_const():
                return mkbig(q.n.const_value(), nlimbs)       # ScalarField::one().into_bigint()
            return NotImplemented
        md.on(SX.by(None, "into_bigint"), into_bigint)

        def num_bits(ex, st, fr, t, a):
            d = ex.deref(a[0]) if len(a) == 1 else None
            if _isbig(d):
                return sum(x << (64 * i) for i, x in enumerate(_limbs(d))).bit_length()
            return NotImplemented
        md.on(SX.by(None, "num_bits"), num_bits)

        def cmp(ex, st, fr, t, a):
            x, y = (ex.deref(a[0]), ex.deref(a[1])) if len(a) == 2 else (None, None)
            unwrap = lambda v: v.fields[0] if isinstance(v, SX.Obj) and v.adt == "array" and len(v.fields) == 1 else v
            x, y = unwrap(x), unwrap(y)
            if isinstance(x, int) and isinstance(y, int) and not isinstance(x, bool) and not isinstance(y, bool):
                r = (x > y) - (x < y)
                return SX.Obj(adt="core::cmp::Ordering", variant={-1: "Less", 0: "Equal", 1: "Greater"}[r], vidx=r, fields={})
            return NotImplemented
        md.on(SX.by(None, "cmp"), cmp)

        def flat_map(ex, st, fr, t, a):
            items = H["elems"](ex, a[0]) if len(a) == 2 else None
            if items is None:
                return NotImplemented
            out = []
            for it in items:
                r = H["call_value"](ex, st, a[1], [it])
                sub = H["elems"](ex, r) if r is not SX.TOP else None
                if sub is None:
                    return NotImplemented
                out += list(sub)
            return H["pyiter"](out)
        md.on(SX.by(None, ("flat_map", "flat_map_iter")), flat_map)

        def clone(ex, st, fr, t, a):
            d = ex.deref(a[0]) if len(a) == 1 else None
            if isinstance(d, SX.Obj) and d.adt == "pyiter":
                return SX.Obj(adt="pyiter", fields={"items": list(d.fields["items"])})
            return NotImplemented
        md.on(SX.by(None, "clone"), clone)

        def step_by(ex, st, fr, t, a):
            d = ex.deref(a[0]) if len(a) == 2 else None
            k = ex.deref(a[1]) if len(a) == 2 else None
            if (isinstance(d, SX.Obj) and d.adt not in ("pyiter", "array", "tuple") and set(d.fields) >= {0, 1}
                    and all(isinstance(d.fields[i], int) for i in (0, 1)) and isinstance(k, int) and k > 0):
                return H["pyiter"](list(range(d.fields[0], d.fields[1], k)))
            return NotImplemented
        md.on(SX.by(None, "step_by"), step_by)
        def index_oob(ex, st, fr, t, a):
            # an index past the end of a concrete-length table is a panic of the real code, not an unknown
            if len(a) == 2:
                arr, i = ex.deref(a[0]), ex.deref(a[1])
                if isinstance(arr, SX.Obj) and arr.adt == "array" and isinstance(i, int) and not isinstance(i, bool) and not (0 <= i < len(arr.fields)):
                    st.flags.add("oob-panic:index %d of a table of %d" % (i, len(arr.fields)))
                    return SX.TOP
            return NotImplemented
        md.on(SX.by(None, ("index", "index_mut")), index_oob)
        md.on(SX.by(None, "div_ceil"), lambda ex, st, fr, t, a: -(-ex.deref(a[0]) // ex.deref(a[1])) if len(a) == 2 and all(isinstance(ex.deref(x), int) and not isinstance(ex.deref(x), bool) for x in a) and ex.deref(a[1]) else NotImplemented)
        # rayon's data-parallel adaptors denote the same sequence as their serial namesakes (order-preserving map / collect;
        # the reductions used here are over commutative monoids, C14 R-REDUCE): the parallel cfg twins are evaluated too
        def alias(name):
            def h(ex, st, fr, t, a):
                t2 = dict(t)
                t2["f"] = dict(t["f"], name=name)
                return ex.models.apply(ex, st, fr, t2, a)
            return h
        for par, ser in (("into_par_iter", "into_iter"), ("par_iter", "iter"), ("par_iter_mut", "iter_mut"), ("par_chunks", "chunks"),
                         ("par_chunks_mut", "chunks_mut"), ("par_chunks_exact", "chunks_exact")):
            md.on(SX.by(None, par), alias(ser))

        def into_iter_range(ex, st, fr, t, a):
            d = ex.deref(a[0]) if len(a) == 1 else None
            if isinstance(d, SX.Obj) and isinstance(d.adt, str) and d.adt.endswith("ops::range::Range") and all(isinstance(d.fields.get(i), int) for i in (0, 1)):
                return H["pyiter"](list(range(d.fields[0], d.fields[1])))
            return NotImplemented
        md.on(SX.by(None, "into_par_iter"), into_iter_range)
        c08_arith._first(md, H)
    return first


def evaluate(facts, fn, unit, bits, scalars, nlimbs=1):
    ex = SX.Engine(facts, unit, c07_dft._models(_first(nlimbs)), env={"MODULUS_BIT_SIZE": bits}, max_paths=4, max_depth=10, inline_limit=800, max_visits=400000)
    ex.strict_flow = True
    n = len(scalars)
    bases = SX.Obj(adt="array", fields={i: Q.var("P%d" % i) for i in range(n)})
    sc = SX.Obj(adt="array", fields={i: mkbig(k, nlimbs) for i, k in enumerate(scalars)})
    try:
        paths = [p for p in ex.run(fn, [SX.Ref(SX.Cell(bases)), SX.Ref(SX.Cell(sc))]) if "panic" not in p.flags]
    except RecursionError:
        return None, "recursion limit"
    oob = [f for p in paths for f in p.flags if f.startswith("oob-panic")]
    if oob:
        return "panic", oob[0][10:]
    if len(paths) != 1 or paths[0].flags:
        return None, "not evaluable (%s)" % (sorted(paths[0].flags)[:4] if paths else "no path")
    q = SX.q_of(paths[0].ret)
    return (q, None) if q is not None else (None, "result is not a module value")


def cases(tier):
    out = []
    out += [(5, [k], 1) for k in range(32)]
    out += [(5, [a, b], 1) for a in range(32) for b in range(32)]          # every pair of 5-bit scalars
    if tier == "thorough":
        g3 = [0, 1, 7, 8, 16, 31]
        out += [(5, [a, b, c], 1) for a in g3 for b in g3 for c in g3]
        out += [(7, [k], 1) for k in range(128)]
    out += [(5, t, 1) for t in ([0, 0, 0], [1, 1, 1], [0, 31, 0], [31, 0, 31], [1, 0, 30], [4, 28, 12], [7, 7, 7], [16, 16, 1], [3, 5, 0, 9, 31])]
    # a bit size that is a multiple of the window: the top signed digit can reach 2^c (needs the last bucket)
    out += [(6, [k], 1) for k in range(64)]
    out += [(6, [a, b], 1) for a in (0, 1, 31, 32, 59, 60, 63) for b in (0, 7, 36, 63)]
    out.append((12, [4095] * 33, 1))
    out.append((13, [(2654435761 * (i + 1)) % 8192 for i in range(33)], 1))
    out.append((13, [8191] * 33, 1))
    out.append((13, [0] * 16 + [1] * 17, 1))
    big = [(1 << 64) - 1, (1 << 69) + 5, (1 << 70) - 1, 1 << 63, (1 << 64), 0, 1, (0x5A5A5A5A5A5A5A5A << 5) | 3]
    out.append((70, big, 2))
    out.append((70, big[:3], 2))
    return out


def check_msm_value(res, facts, tier):
    rule = res.rule("R-MSM.value", "msm_bigint / msm_bigint_wnaf return sum k_i P_i: all 5-bit scalars and all 1024 pairs with window 3, 33 bases with window 6, two-limb scalars [evaluation in the exponent domain: bases symbols, scalars concrete]", 0)
    proved = set()
    units = [u for u in ("ws", "par") if any(True for _ in facts.fns(unit=u, crate="ark_ec"))]
    for unit, name in [(u, nm) for u in units for nm in ("msm_bigint", "msm_bigint_wnaf")]:
        fns = [f for f in facts.fns(unit=unit, crate="ark_ec") if f.name == name and f.kind != "Closure" and not f.default_of and not f.impl]
        key = "ark_ec|%s|value" % name if unit == "ws" else "ark_ec|%s|%s|value" % (unit, name)
        if not fns:
            rule.bad(key, "anchor missing")
            continue
        fn = fns[0]
        verdict, n = None, 0
        for bits, scalars, nl in cases(tier):
            got, why = evaluate(facts, fn, unit, bits, scalars, nl)
            if got == "panic":
                verdict = ("bad", "scalars %s over a %d-bit scalar field: the kernel panics (%s)" % (scalars[:6], bits, why))
                break
            if got is None:
                verdict = ("noverdict", "scalars %s (%d-bit field): %s" % (scalars[:4], bits, why))
                break
            want = Q.const(0)
            for i, k in enumerate(scalars):
                want = want + Q.const(k) * Q.var("P%d" % i)
            if not got.equals(want):
                verdict = ("bad", "scalars %s over a %d-bit scalar field: the kernel returns %s, not sum k_i P_i = %s" % (scalars[:6], bits, str(got)[:100], str(want)[:100]))
                break
            n += 1
        if verdict is None:
            rule.ok(key, "%d scalar vectors: result = sum k_i P_i" % n, fn.loc)
            if unit == "ws":
                proved.add(name)
        elif verdict[0] == "bad":
            rule.bad(key, verdict[1], fn.loc)
        else:
            rule.noverdict(key, "shape not modelled (%s)" % verdict[1], fn.loc)
    return proved
