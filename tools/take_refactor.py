#!/usr/bin/env python3
"""take_refactor.py <ID>: collect behaviour-preserving refactorings produced in /tmp/w3_<ID>/SEED/R*, store them under
/verif/refactors/<ID>-R<k>/, apply each to /repo, run every check whose property is anchored in a touched file (plus the
refactoring's own property) and report alarms (= false alarms of the machinery).  /repo is restored after each."""
import sys, os, json, subprocess, shutil, re, glob

VERIF = "/verif"
props = [json.loads(l) for l in open(os.path.join(VERIF, "properties.jsonl"))]
byfile = {}
for p in props:
    for f in p["anchors"]["files"]:
        byfile.setdefault(f, set()).add(p["id"])


def touched(patch):
    return sorted(set(re.findall(r"^\+\+\+ b/(\S+)", open(patch).read(), re.M)))


def main():
    cid = sys.argv[1]
    src = "/tmp/w3_%s/SEED" % cid
    results = []
    all_ids = {cid}
    for d in sorted(glob.glob(src + "/R*")):
        k = os.path.basename(d)
        dst = os.path.join(VERIF, "refactors", "%s-%s" % (cid, k))
        os.makedirs(dst, exist_ok=True)
        for fn in os.listdir(d):
            if os.path.isfile(os.path.join(d, fn)):
                shutil.copy(os.path.join(d, fn), dst)
    subprocess.run(["git", "-C", "/repo", "worktree", "remove", "--force", "/tmp/w3_%s" % cid], capture_output=True)
    for dst in sorted(glob.glob(os.path.join(VERIF, "refactors", cid + "-R*"))):
        patch = os.path.join(dst, "patch.diff")
        if not os.path.exists(patch):
            continue
        files = touched(patch)
        ids = {cid}
        for f in files:
            ids |= byfile.get(f, set())
        all_ids |= ids
        chk = subprocess.run(["git", "-C", "/repo", "apply", "--check", patch], capture_output=True, text=True)
        if chk.returncode != 0:
            print("== %s: patch does not apply (%s)" % (os.path.basename(dst), chk.stderr.strip()[:120]))
            continue
        subprocess.run(["git", "-C", "/repo", "apply", patch], check=True)
        alarms = {}
        try:
            for i in sorted(ids):
                r = subprocess.run(["python3", os.path.join(VERIF, "check.py"), i], capture_output=True, text=True)
                lines = [l for l in r.stdout.splitlines() if l.startswith(("FAIL", "VIOLATION"))]
                if r.returncode != 0:
                    alarms[i] = [l[:400] for l in lines[:4]]
        finally:
            subprocess.run(["git", "-C", "/repo", "checkout", "HEAD", "--", "."], check=True)
        json.dump({"refactoring": os.path.basename(dst), "files": files, "checks_run": sorted(ids), "alarms": alarms}, open(os.path.join(dst, "result.json"), "w"), indent=1)
        print("== %s files=%s checks=%s -> %s" % (os.path.basename(dst), files, sorted(ids), "ALARMS " + json.dumps(alarms)[:900] if alarms else "quiet"))
    # evidence must come from the unchanged tree
    for i in sorted(all_ids):
        subprocess.run(["python3", os.path.join(VERIF, "check.py"), i], capture_output=True)


main()
