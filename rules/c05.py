"""C05 — multi-scalar multiplication: structural clauses.

  R-PAIR    the two buffers handed together to an msm kernel are mutated in lock-step: every
            push/clear/extend/... on one has a same-named partner on the other that executes on
            exactly the same paths (dominance + post-dominance).  Covers ChunkedPippenger::add/finalize
            and any reusable chunk buffers in msm_chunks.
  R-LEN     checked entry points (`msm` of VariableBaseMSM / SWCurveConfig / TECurveConfig) test
            bases.len() == scalars.len() and report min(len, len); both bucket kernels truncate
            *both* inputs to the common length before use.
  R-FLUSH   Pippenger accumulators: the full-buffer arm of `add` folds an msm of the buffers into
            `result`; `finalize` folds again on the non-empty arm and returns `result`.
  R-WINDOW  both bucket methods recombine windows high-to-low with a doubling loop whose trip count is
            the same variable `c` that sized the buckets / digits.
"""
from arklib import dataflow as DF
from arklib.facts import closure_args, op_local, op_place, place_parts
from rules import chunk

KERNELS = {"msm_bigint", "msm_bigint_wnaf", "msm_unchecked", "msm"}
MUTATORS = {"push", "clear", "extend", "extend_from_slice", "truncate", "append", "resize", "pop", "drain", "insert", "remove", "push_back", "retain", "reserve"}
VIEW = {"as_slice", "deref", "as_ref", "borrow", "as_mut_slice", "index", "deref_mut", "as_mut", "iter"}


def root_key(fn, operand, depth=10):
    """identity of the container an operand views: (local, field-name-path) following view adapters"""
    defs = fn.defs()
    o = operand
    for _ in range(depth):
        p = op_place(o)
        if p is None:
            return None
        l, projs = place_parts(p)
        fields = tuple(pr[2] for pr in projs if isinstance(pr, (list, tuple)) and pr[0] == "f")
        if fields:
            return (l, fields)
        ds = defs.get(l, [])
        if len(ds) != 1:
            return (l, ())
        d = ds[0]
        if d[2] == "assign":
            r = d[3]["r"]
            if r["k"] in ("ref", "raw"):
                pl, pp = place_parts(r["p"])
                f2 = tuple(pr[2] for pr in pp if isinstance(pr, (list, tuple)) and pr[0] == "f")
                if f2:
                    return (pl, f2)
                o = {"c": pl}
                continue
            if r["k"] in ("use", "cast"):
                o = r["o"]
                if "k" in o:
                    return None
                continue
            return (l, ())
        if d[2] == "call":
            t = d[3]
            if t["f"].get("name") in VIEW and t["args"]:
                o = t["args"][0]
                continue
            return (l, ())
    return None


def check_pair(res, facts):
    rule = res.rule("R-PAIR", "buffers passed together to an msm kernel are mutated in lock-step on every path", 1)
    n_sites = 0
    for fn in facts.fns(unit="ws", crate="ark_ec"):
        if "::tests::" in fn.id:
            continue
        sites = [(bb, t) for bb, t in fn.calls() if t["f"].get("name") in KERNELS and len(t["args"]) >= 2]
        for bb, t in sites:
            ra, rb = root_key(fn, t["args"][0]), root_key(fn, t["args"][1])
            if ra is None or rb is None or ra == rb:
                continue
            n_sites += 1
            muts = {ra: [], rb: []}
            for b2, t2 in fn.calls():
                if t2["f"].get("name") in MUTATORS and t2["args"]:
                    r2 = root_key(fn, t2["args"][0])
                    if r2 in muts:
                        muts[r2].append((b2, t2["f"]["name"]))
            key = "ark_ec|%s|%s" % (fn.id[-100:], t["f"]["name"])
            if not muts[ra] and not muts[rb]:
                rule.ok(key, "buffers are built fresh, no in-place mutation", fn.loc)
                continue
            unmatched = []
            for x, y in ((ra, rb), (rb, ra)):
                for (b1, n1) in muts[x]:
                    partner = [b2 for (b2, n2) in muts[y] if n2 == n1 and ((fn.dominates(b1, b2) and fn.postdominates(b2, b1)) or (fn.dominates(b2, b1) and fn.postdominates(b1, b2)))]
                    if not partner:
                        unmatched.append((n1, x))
            if unmatched:
                rule.bad(key, "buffers %s and %s feed one msm call but are not updated in lock-step: %s has no partner on the other buffer on the same paths (bases and scalars drift out of alignment)" % (
                    ra[1] or ra[0], rb[1] or rb[0], ", ".join("%s() on %s" % (n, (x[1] or x[0])) for n, x in unmatched)), fn.loc)
            else:
                rule.ok(key, "mutators paired: %s" % sorted({n for _, n in muts[ra]}), fn.loc)
    if n_sites == 0:
        rule.bad("ark_ec|anchor", "no msm kernel call with two distinct buffers found")


def lens_of(fn, dep, local):
    """parameter locals whose slice length feeds `local`"""
    out = set()
    sl = dep.slice([local])
    for bi, si, s in fn.stmts():
        r = s.get("r")
        if r and r["k"] == "un" and r["op"] == "PtrMetadata" and place_parts(s["d"])[0] in sl:
            src = op_local(r["o"])
            if src is not None:
                out |= dep.args_in_slice([src])
    # len() calls
    for bb, t in fn.calls():
        if t["f"].get("name") == "len" and place_parts(t["d"])[0] in sl and t["args"]:
            src = op_local(t["args"][0])
            if src is not None:
                out |= dep.args_in_slice([src])
    return out


def check_len(res, facts):
    rule = res.rule("R-LEN", "checked msm compares both lengths and reports the minimum; bucket kernels truncate both inputs to the common length", 5)
    for fn in facts.fns(unit="ws", crate="ark_ec"):
        if fn.kind == "Closure" or "::tests::" in fn.id:
            continue
        if fn.name == "msm" and fn.d["argc"] == 2 and fn.local_ty(0).startswith("core::result::Result<"):
            key = "ark_ec|%s" % fn.id[-110:]
            if len(fn.bbs) <= 3 and any(t["f"].get("name") == "msm" for _, t in fn.calls()):
                rule.ok(key, "delegates to the configuration's msm", fn.loc)
                continue
            dep = DF.Dep(fn)
            eqs = []
            partial = []
            for bi, si, s in fn.stmts():
                r = s.get("r")
                if r and r["k"] == "bin" and r["op"] in ("Eq", "Ne"):
                    la, lb = op_local(r["a"]), op_local(r["b"])
                    if la is None or lb is None:
                        continue
                    from rules.c07 import E as _E
                    ea, eb = _E(fn, r["a"]), _E(fn, r["b"])
                    L1, L2 = ("call", "len", (("arg", 1, ()),)), ("call", "len", (("arg", 2, ()),))
                    # exactly the two lengths: `scalars.len() == min(bases.len(), scalars.len())` only tests one direction
                    if (ea, eb) in ((L1, L2), (L2, L1)):
                        eqs.append(bi)
                    elif (1 in lens_of(fn, dep, la) and 2 in lens_of(fn, dep, lb)) or (2 in lens_of(fn, dep, la) and 1 in lens_of(fn, dep, lb)):
                        partial.append((ea, eb))
            clos = [facts.get(c, fn.unit) for _, t in fn.calls() if t["f"].get("name") in ("ok_or_else", "map_err", "unwrap_or_else") for c in closure_args(fn, t)]
            mins = [c for c in clos if c is not None and any(t["f"].get("name") == "min" for _, t in c.calls())]
            inline_min = any(t["f"].get("name") == "min" for _, t in fn.calls())
            if not eqs and partial:
                from rules.c07 import show as _show
                rule.bad(key, "the guard compares %s, not bases.len() with scalars.len(): a length mismatch in one direction passes and the checked entry point silently truncates" % ["%s with %s" % (_show(a_)[:50], _show(b_)[:50]) for a_, b_ in partial], fn.loc)
            elif not eqs:
                rule.bad(key, "no comparison bases.len() == scalars.len(): mismatched lengths are not reported", fn.loc)
            elif not (mins or inline_min):
                rule.bad(key, "the error value is not the minimum of the two lengths", fn.loc)
            else:
                rule.ok(key, "length equality guards the result; Err carries min(len, len)", fn.loc)
        if fn.name in ("msm_bigint", "msm_bigint_wnaf") and not fn.default_of and not fn.impl:
            key = "ark_ec|%s" % fn.id[-110:]
            dep = DF.Dep(fn)
            mins = [(bb, t) for bb, t in fn.calls() if t["f"].get("name") == "min"]
            if not mins:
                rule.bad(key, "inputs are not truncated to min(bases.len(), scalars.len())", fn.loc)
                continue
            size_local = place_parts(mins[0][1]["d"])[0]
            sliced = set()
            for bb, t in fn.calls():
                if t["f"].get("name") == "index" and len(t["args"]) == 2:
                    rng = op_local(t["args"][1])
                    base = op_local(t["args"][0])
                    if rng is not None and base is not None and size_local in dep.slice([rng]):
                        sliced |= dep.args_in_slice([base])
            if {1, 2} <= sliced:
                rule.ok(key, "both inputs sliced to [..min]", fn.loc)
            else:
                rule.bad(key, "only argument(s) %s are truncated to the common length: the other is used at full length (index misalignment / out-of-bounds zip)" % sorted(sliced), fn.loc)


def _flush_body(fn):
    """(kernel call blocks, flows-into-result?, clears-buffer?) of a function that folds the buffer into self.result"""
    ks = [(bb, t) for bb, t in fn.calls() if t["f"].get("name") in KERNELS]
    dep = DF.Dep(fn)
    flows = True
    for bb, t in ks:
        dl = place_parts(t["d"])[0]
        f_ = False
        for b2, t2 in fn.calls():
            if t2["f"].get("name") in ("add_assign", "add") and t2["args"]:
                if any(op_local(a) is not None and dl in dep.slice([op_local(a)]) for a in t2["args"][1:]):
                    r0 = root_key(fn, t2["args"][0])
                    if r0 and "result" in (r0[1] or ()):
                        f_ = True
        flows &= f_
    clears = any(t["f"].get("name") == "clear" for _, t in fn.calls())
    return ks, flows, clears


def check_flush(res, facts):
    """Pippenger accumulators: `add` folds an msm of the buffer into `result` (and clears the buffer) when the buffer is
    full, `finalize` folds the rest when it is non-empty.  The fold may be written in place or in a helper method."""
    rule = res.rule("R-FLUSH", "Pippenger accumulators fold an msm of the buffer into `result` on the full-buffer arm and on finalize's non-empty arm", 4)
    for fn in facts.fns(unit="ws", crate="ark_ec"):
        if fn.kind == "Closure" or not fn.self_head or "stream_pippenger" not in fn.self_head:
            continue
        if fn.name not in ("add", "finalize"):
            continue
        key = "ark_ec|%s::%s" % (fn.self_head.rsplit("::", 1)[-1], fn.name)
        cd = DF.control_deps(fn)
        sites = []          # (guarding block in fn, flows, clears)
        ks, flows, clears = _flush_body(fn)
        for bb, t in ks:
            sites.append((bb, flows, clears))
        for bb, t, callee in DF.local_callees(facts, fn):
            if callee.self_head != fn.self_head:
                continue
            ks2, flows2, clears2 = _flush_body(callee)
            if ks2:
                sites.append((bb, flows2, clears2))
        if not sites:
            rule.bad(key, "no msm kernel call (directly or through a helper of the same type): buffered pairs are never folded into the result", fn.loc)
            continue
        why = []
        for bb, fl, cl in sites:
            if not fl:
                why.append("msm result is not added to self.result")
            if not cd.get(bb):
                why.append("the fold is not guarded by the buffer-state test")
            if fn.name == "add" and not (cl or any(t["f"].get("name") == "clear" for _, t in fn.calls())):
                why.append("buffer is not cleared after the flush (pairs would be counted twice)")
        (rule.bad if why else rule.ok)(key, "; ".join(sorted(set(why))) if why else "guarded msm folded into result", fn.loc)


def check_window(res, facts):
    """window recombination (Horner, high to low): between two windows the running total is doubled exactly c times, c
    being the very window width used to cut the scalars (the `c` handed to make_digits, resp. the step of the window
    starts).  Form-independent: the doubling loop may sit in a `fold` closure or in a plain nested loop."""
    from rules.c07 import E, show
    rule = res.rule("R-WINDOW", "window recombination doubles exactly c times between windows, c being the window width that cut the scalars", 2)
    for fn in facts.fns(unit="ws", crate="ark_ec"):
        if fn.name not in ("msm_bigint", "msm_bigint_wnaf") or fn.default_of or fn.impl or fn.kind == "Closure":
            continue
        key = "ark_ec|%s" % fn.id[-100:]
        # the window width: argument of make_digits / step_by of the window starts (possibly inside closures or in a
        # helper of the same crate the function hands its window sums to)
        import re as _re
        from rules.c07 import norm
        widths = []
        tops = {fn.id: (fn, None)}
        for bb_, t_, callee in DF.local_callees(facts, fn):
            tops[callee.id] = (callee, {j + 1: E(fn, a) for j, a in enumerate(t_["args"])})
        hosts = []
        for top, amap in tops.values():
            hosts.append(top)
            hosts += [c for c in facts.fns(unit=fn.unit, crate=fn.crate) if c.kind == "Closure" and c.id.startswith(top.id + "::{closure")]

        def lifted(h, operand):
            """the operand of host h expressed in fn's own terms (captures resolved, helper parameters substituted)"""
            raw = DF.expr(h, operand, depth=40)
            top_id = _re.sub(r"(::\{closure#\d+\})+$", "", h.id)
            if h.kind == "Closure":
                raw = DF.lift_captures(facts, h, raw)
            t2 = norm(raw)
            amap = tops.get(top_id, (None, None))[1]
            return DF.subst_args(t2, amap) if amap else t2
        for h in hosts:
            for bb, t in h.calls():
                n = t["f"].get("name")
                if n == "make_digits" and len(t["args"]) >= 2:
                    widths.append(lifted(h, t["args"][1]))
                if n == "step_by" and len(t["args"]) == 2:
                    widths.append(lifted(h, t["args"][1]))
        widths = [w for w in widths if w is not None]
        if not widths:
            rule.bad(key, "window width not found (no make_digits / step_by over the scalar bits)", fn.loc)
            continue
        # doubling loops: an SCC containing a double call and the `next` of a Range 0..T
        trips = []
        for h in hosts:
            for scc in DF.sccs(h):
                dbl = [bb for bb, t in h.calls() if bb in scc and t["f"].get("name") in ("double_in_place", "double")]
                if not dbl:
                    continue
                for bb, t in h.calls():
                    if bb in scc and t["f"].get("name") == "next":
                        r = lifted(h, t["args"][0])
                        if isinstance(r, tuple) and r[0] == "agg" and r[1] == "Range" and r[2][0] == 0:
                            # innermost loop only: the range whose SCC is the smallest containing the doubling
                            trips.append((len(scc), r[2][1], h))
        if not trips:
            rule.bad(key, "no loop that doubles the running total between windows", fn.loc)
            continue
        trips.sort(key=lambda x: x[0])
        n_min = trips[0][0]
        inner = [tr for tr in trips if tr[0] == n_min]
        T = inner[0][1]
        if T in widths and all(w == widths[0] for w in widths):
            # an accumulation of the window sum next to the doubling loop
            h = inner[0][2]
            acc = any(t["f"].get("name") in ("add_assign", "add") for _, t in h.calls())
            (rule.ok if acc else rule.bad)(key, "total doubled %s times between windows, the width that cut the scalars" % show(T)[:60] if acc else "no accumulation of the window sums next to the doubling loop", fn.loc)
        else:
            rule.bad(key, "the running total is doubled %s times between windows but the scalars are cut into windows of width %s: the window sums are combined with the wrong weights" % (show(T)[:80], [show(w)[:60] for w in widths]), fn.loc)


def serorigin(fn, operand):
    """parent local a by-ref/by-value capture operand refers to"""
    defs = fn.defs()
    p = op_place(operand)
    if p is None:
        return None
    l, projs = place_parts(p)
    for _ in range(5):
        ds = [d for d in defs.get(l, []) if d[2] == "assign"]
        if len(ds) != 1:
            return l
        r = ds[0][3]["r"]
        if r["k"] == "ref":
            l = place_parts(r["p"])[0]
        elif r["k"] == "use" and op_local(r["o"]) is not None:
            l = op_local(r["o"])
        else:
            return l
    return l


# ---- R-DIGITS ---------------------------------------------------------------------------------------------

def check_digits(res, facts, tier):
    """make_digits: (1) the window read returns exactly bits [i*w, i*w + w) of the scalar (zero beyond its end) for
    every limb content -- proof by abstract interpretation of the closure's MIR over GF(2)-affine bit vectors, for a
    grid of (w, i, number of limbs); (2) the signed recoding is coef = carry + window, carry' = (coef + 2^(w-1)) >> w,
    digit = coef - carry'*2^w, with the last digit absorbing the final carry (expression rule)."""
    from arklib import bvinterp as BI
    from rules.c07 import E, show, A, C
    rule = res.rule("R-DIGITS", "make_digits reads window i as bits [i*w, (i+1)*w) of the scalar for every limb content [GF(2)-affine abstract interpretation]; signed recoding identities", 3)
    clos = [f for f in facts.fns(unit="ws", crate="ark_ec") if f.kind == "Closure" and (f.d.get("parent") or "").endswith("variable_base::make_digits")]
    parents = [f for f in facts.fns(unit="ws", crate="ark_ec") if f.kind != "Closure" and f.id.endswith("variable_base::make_digits")]
    if len(clos) != 1 or len(parents) != 1:
        rule.bad("ark_ec|make_digits", "anchor missing (closures: %d)" % len(clos))
        return
    clo, par = clos[0], parents[0]
    # captured environment as built by the parent: which capture is what
    maps = [t for _, t in par.calls() if t["f"].get("name") == "map"]
    env_t = E(par, maps[0]["args"][1]) if maps else None
    key = "ark_ec|make_digits|captures"
    w_t = A(2)
    radix = ("bin", "Shl", 1, w_t)
    roles = {}
    if isinstance(env_t, tuple) and env_t[0] == "agg":
        for i, op in enumerate(env_t[2]):
            if op == w_t:
                roles["w"] = i
            elif op == ("bin", "Sub", radix, 1):
                roles["mask"] = i
            elif op == radix:
                roles["radix"] = i
            elif op == 0:
                roles["carry"] = i
            elif isinstance(op, tuple) and op[0] == "call" and op[1] == "div_ceil" and op[2][1] == w_t:
                roles["count"] = i
            elif op == A(1) or (isinstance(op, tuple) and op[0] in ("arg", "call")):
                roles.setdefault("scalar", i)
    # radix = 1 << w may be captured itself, or only through radix / 2 (a hoisted half-radix)
    halves = []
    if isinstance(env_t, tuple) and env_t[0] == "agg":
        for i, op in enumerate(env_t[2]):
            if op in (("bin", "Div", radix, 2), ("bin", "Shr", radix, 1), ("bin", "Shl", 1, ("bin", "Sub", w_t, 1))):
                halves.append(i)
    if set(roles) >= {"w", "mask", "carry", "count", "scalar"} and ("radix" in roles or halves):
        rule.ok(key, "captures: w, scalar, carry = 0, window_mask = (1 << w) - 1, radix = 1 << w (or radix / 2), digits_count = ceil(num_bits / w)", par.loc)
    else:
        rule.bad(key, "closure environment is %s: expected w, the scalar, carry = 0, (1 << w) - 1, 1 << w and ceil(num_bits / w) (recognised: %s)" % (show(env_t) if env_t else None, sorted(roles)), par.loc)
        return
    # (1) window extraction
    key = "ark_ec|make_digits|window-bits"
    masked_local = None
    for bi, si, s in clo.stmts():
        r = s.get("r")
        if r and r["k"] == "bin" and r["op"] == "BitAnd":
            masked_local = (bi, place_parts(s["d"])[0], si)
    if masked_local is None:
        rule.bad(key, "no `bit_buf & window_mask` found", clo.loc)
        return
    stop_bb = None
    # stop right after the block that computes the masked window: run until its terminator target
    mb = masked_local[0]
    t = clo.bbs[mb]["t"]
    stop_bb = {t.get("t")} if t["k"] in ("assert", "goto", "call") else None
    ws = list(range(1, 64)) if tier == "thorough" else [1, 2, 3, 4, 5, 7, 8, 11, 13, 15, 16, 17, 21, 31, 32, 33, 47, 63]
    lens = (1, 2, 3, 4, 6) if tier == "thorough" else (1, 2, 4)
    n_cases = 0
    for w in ws:
        for nl in lens:
            nbits = 64 * nl
            count = -(-nbits // w)
            for i in range(count):
                n_cases += 1
                fields = {roles["w"]: w, roles["scalar"]: BI.Ref(BI.Slice([BI.BV.word(k) for k in range(nl)])), roles["carry"]: 0,
                          roles["mask"]: (1 << w) - 1, roles["count"]: count}
                if "radix" in roles:
                    fields[roles["radix"]] = 1 << w
                for hi_ in halves:
                    fields[hi_] = (1 << w) // 2
                # any further capture: evaluate its defining integer expression from the parent
                from rules.c01 import ieval
                scal_t = env_t[2][roles["scalar"]]
                for ci, op in enumerate(env_t[2]):
                    if ci not in fields:
                        try:
                            fields[ci] = ieval(op, {w_t: w, ("call", "len", (scal_t,)): nl})
                        except Exception:
                            pass
                try:
                    vals, end = BI.run(clo, {1: BI.Ref(BI.Struct(fields)), 2: i}, stop_after=(masked_local[0], masked_local[2]))
                except BI.Stop as e:
                    msg = str(e)
                    if "out of bounds" in msg or "assertion fails" in msg:
                        rule.bad(key, "window %d of width %d over a %d-limb scalar: %s (the digit extraction panics)" % (i, w, nl, msg), clo.loc)
                    else:
                        rule.undecided(key, "abstract interpretation stopped at (w, i, limbs) = (%d, %d, %d): %s" % (w, i, nl, msg), clo.loc)
                    return
                v = vals.get(masked_local[1])
                if isinstance(v, int):
                    v = BI.BV([0] * 64, v)
                if not isinstance(v, BI.BV):
                    rule.undecided(key, "masked window is not a bit vector at (w, i, limbs) = (%d, %d, %d)" % (w, i, nl), clo.loc)
                    return
                for j in range(64):
                    src = i * w + j
                    want = (1 << src) if (j < w and src < nbits) else 0
                    row, c = v.bit(j)
                    if row != want or c:
                        rule.bad(key, "window %d of width %d over a %d-limb scalar: result bit %d is %s, expected %s: the digit does not hold bits [%d, %d) of the scalar" % (
                            i, w, nl, j, _bitname(row, c), ("scalar bit %d" % src) if want else "0", i * w, i * w + w), clo.loc)
                        return
    rule.ok(key, "window = bits [i*w, i*w+w) of the scalar (zero past the end) for all limb contents, %d (w, i, limbs) cases" % n_cases, clo.loc)
    # (2) recoding identities (expression level)
    key = "ark_ec|make_digits|recoding"
    U = lambda i: ("arg", 1, (str(i),))
    problems = []
    coef = None
    for bi, si, s in clo.stmts():
        r = s.get("r")
        if r and r["k"] == "bin" and r["op"].startswith("Add"):
            e = E(clo, {"c": place_parts(s["d"])[0]})
            if isinstance(e, tuple) and e[0] == "bin" and e[1] == "Add" and e[2] == U(roles["carry"]) and isinstance(e[3], tuple) and e[3][0] == "bin" and e[3][1] == "BitAnd":
                coef = e
    if coef is None:
        problems.append("coef = carry + (bit_buf & window_mask) not found")
    else:
        half_forms = [U(h_) for h_ in halves]
        if "radix" in roles:
            half_forms += [("bin", "Div", U(roles["radix"]), 2), ("bin", "Shr", U(roles["radix"]), 1)]
        newcs = [("bin", "Shr", ("bin", "Add", coef, hf), U(roles["w"])) for hf in half_forms]
        newc = newcs[0] if newcs else None
        stores = []
        for bi, si, s in clo.stmts():
            if "d" in s:
                l, projs = place_parts(s["d"])
                if l == 1 and DF._fields(projs) == (str(roles["carry"]),):
                    rr = s["r"]
                    if rr["k"] == "use":
                        stores.append(E(clo, rr["o"]))
                    elif rr["k"] == "bin":
                        from rules.c07 import norm
                        stores.append(norm(("bin", rr["op"], DF.expr(clo, rr["a"], depth=40), DF.expr(clo, rr["b"], depth=40))))
        if not (len(stores) == 1 and stores[0] in newcs):
            problems.append("carry update is %s, expected (coef + radix/2) >> w" % [show(x)[:120] for x in stores])
        # digit = coef - (carry' << w); MIR reads the updated capture, i.e. the same place
        subs = []
        for bi, si, s in clo.stmts():
            r = s.get("r")
            if r and r["k"] == "bin" and r["op"].startswith("Sub"):
                e = E(clo, {"c": place_parts(s["d"])[0]})
                if isinstance(e, tuple) and e[0] == "bin" and e[1] == "Sub" and e[2] == coef:
                    subs.append(e[3])
        if subs != [("bin", "Shl", U(roles["carry"]), U(roles["w"]))]:
            problems.append("digit is coef - %s, expected coef - (carry << w)" % [show(x)[:80] for x in subs])
        last = [E(clo, b["t"]["o"]) for b in clo.bbs if b["t"]["k"] == "switch"]
        if ("bin", "Eq", A(2), ("bin", "Sub", U(roles["count"]), 1)) not in last:
            problems.append("the final carry is not folded into the last digit (i == digits_count - 1)")
    (rule.bad if problems else rule.ok)(key, "; ".join(problems) if problems else "coef = carry + window; carry' = (coef + radix/2) >> w; digit = coef - (carry' << w); last digit += carry' << w", clo.loc)


def _bitname(row, c):
    xs = ["scalar bit %d" % i for i in range(row.bit_length()) if (row >> i) & 1]
    return (" ^ ".join(xs) if xs else "0") + (" ^ 1" if c else "")


# ---- R-STREAM ---------------------------------------------------------------------------------------------

def check_stream(res, facts):
    """msm_chunks consumes the two streams in lock step: the alignment (`skip` of the surplus bases) happens once, before
    the chunk loop; inside the loop both streams are advanced by exactly `take(step)` with the same step and nothing else
    consumes or skips elements"""
    from rules.c07 import E, show
    rule = res.rule("R-STREAM", "msm_chunks: streams aligned once before the loop, then advanced in lock step by take(step)", 1)
    fs = [f for f in facts.fns(unit="ws", crate="ark_ec") if f.kind != "Closure" and f.name == "msm_chunks"]
    key = "ark_ec|VariableBaseMSM::msm_chunks"
    if not fs:
        rule.bad(key, "anchor missing")
        return
    f = fs[0]
    loops = DF.sccs(f)
    inloop = set().union(*loops) if loops else set()
    problems = []
    consuming = {"skip", "step_by", "skip_while", "nth", "advance_by", "next", "take_while", "last", "count", "peekable"}
    inside = [(bb, t["f"].get("name")) for bb, t in f.calls() if bb in inloop and not t.get("mac")]
    bad_in = [n for bb, n in inside if n in consuming and not (n == "next" and any(t["f"].get("name") == "next" and "Range" in show(E(f, t["args"][0])) for b2, t in f.calls() if b2 == bb))]
    if bad_in:
        problems.append("inside the chunk loop the streams are additionally consumed by %s: from the second chunk on bases and scalars are no longer paired (b_i with k_i)" % sorted(set(bad_in)))
    takes = [(bb, E(f, t["args"][1])) for bb, t in f.calls() if t["f"].get("name") == "take" and bb in inloop]
    if len(takes) != 2 or takes[0][1] != takes[1][1]:
        problems.append("the two streams are advanced by %s per chunk, expected take(step) on both with the same step" % [show(x) for _, x in takes])
    skips = [bb for bb, t in f.calls() if t["f"].get("name") == "skip" and bb not in inloop]
    if len(skips) != 1:
        problems.append("the surplus bases are not skipped exactly once before the loop")
    else:
        sk = [t for bb, t in f.calls() if t["f"].get("name") == "skip"][0]
        amt = E(f, sk["args"][1])
        if not (isinstance(amt, tuple) and amt[0] == "bin" and amt[1] == "Sub" and "len" in show(amt[2]) and "len" in show(amt[3]) and amt[2] != amt[3]):
            problems.append("alignment skips %s, expected bases.len() - scalars.len()" % show(amt))
    (rule.bad if problems else rule.ok)(key, "; ".join(problems) if problems else "skip(bases.len() - scalars.len()) once, then take(step) on both streams per chunk", f.loc)


def check_buckets(res, facts):
    """the bucket table must have room for the largest digit magnitude: the signed-digit kernel's digits come from
    make_digits, whose last digit keeps the final carry and can reach 2^c (index 2^c - 1, so 2^c buckets); the plain
    kernel's digits are k mod 2^c in 1 .. 2^c - 1 (index k - 1, so 2^c - 1 buckets suffice).  The width c in the table
    size is the c that cut the scalars."""
    from rules.c07 import E, show, norm, qeq
    from rules.c17 import to_q, NotPoly
    from arklib.poly import Q
    rule = res.rule("R-BUCKETS", "bucket table size covers the largest digit: 2^c for signed digits (last digit carries), >= 2^c - 1 for plain windows; same c as the digit extraction", 2)
    for unit in ("ws", "par"):
        for fn in facts.fns(unit=unit, crate="ark_ec"):
            if fn.name not in ("msm_bigint", "msm_bigint_wnaf") or fn.default_of or fn.impl or fn.kind == "Closure":
                continue
            key = "ark_ec|%s|%s" % (unit, fn.name)
            hosts = [fn] + [c for c in facts.fns(unit=unit, crate="ark_ec") if c.kind == "Closure" and c.id.startswith(fn.id + "::{closure")]

            def lifted(h, o):
                return norm(DF.lift_captures(facts, h, DF.expr(h, o, depth=40)))
            sizes = [lifted(h, t["args"][1]) for h in hosts for _, t in h.calls() if t["f"].get("name") == "from_elem" and len(t["args"]) == 2]
            widths = [lifted(h, t["args"][1]) for h in hosts for _, t in h.calls() if t["f"].get("name") in ("make_digits", "step_by") and len(t["args"]) >= 2]
            # a table allocated / a scalar cut in a same-crate helper (`new_buckets(c)`), in the caller's terms
            for h in hosts:
                for _, ct, callee in DF.local_callees(facts, h, exclude=("make_digits",)):
                    amap = {j + 1: lifted(h, a) for j, a in enumerate(ct["args"])}
                    for _, t in callee.calls():
                        n_ = t["f"].get("name")
                        if n_ == "from_elem" and len(t["args"]) == 2 and "alloc::vec::Vec<V" in callee.local_ty(0).replace(" ", ""):
                            sizes.append(DF.subst_args(norm(DF.expr(callee, t["args"][1], depth=40)), amap))
            widths = list(dict.fromkeys(widths))
            if len(sizes) != 1 or len(widths) != 1:
                rule.undecided(key, "expected one bucket table and one window width, found sizes %s, widths %s" % ([show(x)[:50] for x in sizes], [show(x)[:50] for x in widths]), fn.loc)
                continue
            c = widths[0]

            def leaf(t, c=c):
                if t == c:
                    return "c"
                if isinstance(t, tuple) and t[:3] == ("bin", "Shl", 1) and t[3] == c:
                    return "P"        # 2^c
                return None
            try:
                q = to_q(sizes[0], leaf)
            except NotPoly as e:
                rule.undecided(key, "bucket table size %s is not an expression of 2^c (%s)" % (show(sizes[0])[:80], e), fn.loc)
                continue
            P = Q.var("P")
            signed = fn.name.endswith("wnaf")
            ok = qeq(q, P) or (not signed and qeq(q, P - Q.const(1)))
            if ok:
                rule.ok(key, "%s buckets for %s" % (q, "signed digits up to 2^c" if signed else "windows 1 .. 2^c - 1"), fn.loc)
            else:
                rule.bad(key, "the bucket table has %s entries (P = 2^c) but %s: the largest digit indexes past the table" % (q, "the last signed digit keeps the final carry and can equal 2^c, which needs index 2^c - 1" if signed else "window values reach 2^c - 1, which needs index 2^c - 2"), fn.loc)


def check_digitalign(res, facts):
    """msm_bigint_wnaf cuts every scalar into digit rows up front and later pairs row i (scalar_digits.chunks(digits_count))
    with base i BY POSITION.  So the traversal of `scalars` that feeds make_digits must visit every scalar, in order: any
    adaptor that drops, reorders or stops early (filter, skip, rev, take_while, step_by ..) on that side alone shifts the
    rows against the bases -- each base is then multiplied by a later scalar.  Decided in the serial and in the parallel
    build (the two digit extractions are separate cfg twins)."""
    from rules.c07 import E, show
    rule = res.rule("R-DIGITALIGN", "the scalar traversal feeding make_digits in msm_bigint_wnaf visits every scalar in order (digit rows are paired with bases by position), serial and parallel twins", 2)
    PURE = {"iter", "into_iter", "par_iter", "into_par_iter", "copied", "cloned", "by_ref", "deref", "as_ref", "borrow"}
    for unit in ("ws", "par"):
        for fn in facts.fns(unit=unit, crate="ark_ec"):
            if fn.name != "msm_bigint_wnaf" or fn.default_of or fn.impl or fn.kind == "Closure":
                continue
            key = "ark_ec|%s|msm_bigint_wnaf" % unit
            sites = []
            for bb, t in fn.calls():
                if t["f"].get("name") not in ("flat_map", "flat_map_iter", "map", "for_each") or len(t["args"]) != 2:
                    continue
                for cid in closure_args(fn, t):
                    clo = facts.get(cid, unit)
                    if clo is not None and any(ct["f"].get("name") == "make_digits" for _, ct in clo.calls()):
                        sites.append((bb, t))
            if not sites:
                rule.bad(key, "no adaptor over the scalars whose closure calls make_digits (anchor missing)", fn.loc)
                continue
            problems = []
            for bb, t in sites:
                e = E(fn, t["args"][0])
                chain = []
                while isinstance(e, tuple) and e and e[0] == "call" and e[2] and (e[1] in PURE or (e[1] == "index" and len(e[2]) == 2 and show(e[2][1]).startswith("RangeTo"))):
                    chain.append(e[1])      # a prefix `[..k]` keeps every remaining scalar at its position
                    e = e[2][0]
                if not (isinstance(e, tuple) and e and e[0] == "arg" and fn.local_ty(e[1]).startswith("&[")):
                    head = e[1] if isinstance(e, tuple) and len(e) > 1 and e[0] == "call" else show(e)[:40]
                    problems.append("the scalars reach make_digits through `%s` (%s)" % (head, show(E(fn, t["args"][0]))[:90]))
            if problems:
                rule.bad(key, "; ".join(problems) + ": digit rows are paired with the bases by position, so an adaptor that drops or reorders scalars on this side alone pairs every later base with the wrong scalar", fn.loc)
            else:
                rule.ok(key, "plain traversal of the scalar slice", fn.loc)


def check_mapalign(res, facts):
    """HashMapPippenger hands msm_bigint two vectors collected from ONE map, `keys()` and `values()`, which are paired by
    position.  Any selective adaptor (filter, skip, take, rev ...) has to act on both sides alike (`retain` on the map before
    both collections does); a helper that collects one side is followed into its body."""
    from rules.c07 import E, show
    rule = res.rule("R-MAPALIGN", "HashMapPippenger: the base vector and the scalar vector handed to msm_bigint are collected from the same map with the same selection (paired by position)", 1)
    SEL = {"filter", "filter_map", "skip", "skip_while", "take", "take_while", "step_by", "rev", "map_while", "dedup", "chunks", "sorted", "sort"}
    HEAD = "ark_ec::scalar_mul::variable_base::stream_pippenger::HashMapPippenger"
    fns = [f for f in facts.fns(unit="ws", crate="ark_ec") if f.kind != "Closure" and f.self_head == HEAD]
    byname = {f.name: f for f in fns}

    def names(term, depth=0):
        out = set()
        if isinstance(term, tuple):
            if term and term[0] == "call" and len(term) > 1 and isinstance(term[1], str):
                out.add(term[1])
                h = byname.get(term[1])
                if h is not None and depth < 2:
                    out |= {t["f"].get("name") for _, t in h.calls()}
            for c in term:
                out |= names(c, depth)
        elif isinstance(term, list):
            for c in term:
                out |= names(c, depth)
        return out
    n = 0
    for fn in fns:
        for bb, t in fn.calls():
            if t["f"].get("name") not in ("msm_bigint", "msm", "msm_unchecked") or len(t["args"]) != 2:
                continue
            n += 1
            key = "ark_ec|HashMapPippenger::%s" % fn.name
            both = {"filter"} if any(ct["f"].get("name") == "retain" and ct.get("ln", 0) < t.get("ln", 1 << 30) for _, ct in fn.calls()) else set()
            nb, ns = names(E(fn, t["args"][0])), names(E(fn, t["args"][1]))
            sb, ss = (nb & SEL) | both, (ns & SEL) | both
            if "keys" not in nb and "values" not in ns:
                rule.noverdict(key, "the two vectors are not collected through keys() / values() (shape not modelled)", fn.loc)
            elif sb != ss:
                rule.bad(key, "bases are selected by %s but scalars by %s: the vectors are paired by position, so every entry after a dropped one meets the wrong partner (msm_bigint truncates to the shorter side)" % (sorted(sb) or "nothing", sorted(ss) or "nothing"), fn.loc)
            else:
                rule.ok(key, "keys() and values() of the same map, same selection (%s)" % (sorted(sb) or "none"), fn.loc)
    if n == 0:
        rule.bad("ark_ec|HashMapPippenger", "anchor missing: no msm call in HashMapPippenger")


def check_scalarcarry(res, facts, shapes):
    """The MSM entry points take scalars as canonical big integers (< r) and decompose exactly MODULUS_BIT_SIZE bits.  Code in
    the MSM layer that does big-integer arithmetic on buffered scalars (merging, accumulating) and drops the carry / borrow
    flag can leave a value >= 2^bits(r) or a wrapped one: bits above the decomposed width are lost.  Expected matches: none."""
    from rules.c02 import _local_uses
    rule = res.rule("R-SCALARCARRY", "MSM layer (ark_ec::scalar_mul::variable_base): no big-integer addition / subtraction / doubling of scalars whose carry or borrow flag is discarded", 2)
    NAMES = ("add_with_carry", "sub_with_borrow", "mul2", "muln")

    def hits(fn):
        out, uses = [], None
        for bb, t in fn.calls():
            n = t["f"].get("name")
            if n not in NAMES:
                continue
            uses = uses or _local_uses(fn)
            d = t["d"] if isinstance(t.get("d"), int) else None
            flagged = n in ("add_with_carry", "sub_with_borrow", "mul2")
            if flagged and d != 0 and (d is None or uses[d] == 0):
                out.append(n)
        return out
    w = {}
    for fn in shapes.fns(unit="shapes"):
        if fn.name in ("dropped_bigint_carry", "dropped_bigint_carry_ok"):
            w[fn.name] = bool(hits(fn))
    n_fns = 0
    for fn in facts.fns(unit="ws", crate="ark_ec"):
        if "scalar_mul::variable_base" not in fn.id or "::tests::" in fn.id:
            continue
        n_fns += 1
        for n in hits(fn):
            rule.bad("ark_ec|%s|%s" % (fn.id[-90:], n), "`%s` on a buffered scalar with the carry flag dropped: the sum of two canonical scalars can reach 2^bits(r), above the MODULUS_BIT_SIZE bits the bucket method decomposes -- the top bit is lost" % n, fn.loc)
    if w.get("dropped_bigint_carry") is True and w.get("dropped_bigint_carry_ok") is False:
        rule.ok("witness|dropped_bigint_carry", "positive example matched, flag-returning twin accepted")
        rule.ok("witness|scan", "%d functions of the MSM layer scanned" % n_fns)
    else:
        rule.bad("witness|dropped_bigint_carry", "the positive example in /verif/witness/shapes was not matched (or its twin was): rule has gone blind (%s)" % w)


def _defer(res, rule_name, proved, why):
    """template rules on the kernels' shape: once R-MSM.value has proved both kernels on its scalar families, a body that no
    longer matches the template (or can no longer be followed) is not a violation by itself -- the value is decided"""
    orig = res.rule

    def rule_factory(name, *a, **kw):
        r = orig(name, *a, **kw)
        if name == rule_name and proved:
            _bad, _und = r.bad, r.undecided

            def soft(key, msg, loc=""):
                if "anchor missing" in msg:
                    _bad(key, msg, loc)
                else:
                    r.ok(key, "template not matched (%s); %s" % (msg[:100], why), loc)
            r.bad = soft
            r.undecided = soft
            r.floor = 0          # the value rule stands behind this property clause; the template only documents the pinned shape
        return r
    return rule_factory


def run(ctx, res):
    facts = ctx.facts(["ws", "par"])
    res.analysed = facts.stats()
    from rules import c05_value
    proved = c05_value.check_msm_value(res, facts, ctx.tier)
    both = {"msm_bigint", "msm_bigint_wnaf"} <= set(proved or ())
    check_pair(res, facts)
    check_len(res, facts)
    check_flush(res, facts)
    _orig_rule = res.rule
    res.rule = _defer(res, "R-WINDOW", both, "both kernels return sum k_i P_i on the evaluated scalar families (R-MSM.value)")
    check_window(res, facts)
    res.rule = _orig_rule
    res.rule = _defer(res, "R-DIGITS", both, "the signed-digit kernel, which consumes these digits, returns sum k_i P_i on the evaluated scalar families (R-MSM.value)")
    check_digits(res, facts, ctx.tier)
    res.rule = _orig_rule
    check_stream(res, facts)
    res.rule = _defer(res, "R-BUCKETS", both, "an index past the bucket table is reported as a panic by R-MSM.value, which found none on the evaluated scalar families")
    check_buckets(res, facts)
    res.rule = _orig_rule
    check_digitalign(res, facts)
    check_mapalign(res, facts)
    check_scalarcarry(res, facts, ctx.facts(["shapes"]))
    return {
        "level": "other",
        "explanation": "Typestate / pairing rules over the MIR of ark-ec's variable-base MSM and streaming Pippenger code (serial and parallel configurations): lock-step mutation of paired buffers, length policy of checked and unchecked entry points, flush/finalize structure, window recombination. Does NOT decide that any entry point returns the sum (digit extraction and bucket indexing are run-time index arithmetic).",
        "assumptions": ["msm kernels truncate to the shorter input (checked by R-LEN on the two kernels)"],
    }
