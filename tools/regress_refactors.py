#!/usr/bin/env python3
"""Apply every behaviour-preserving refactoring under /verif/refactors to /repo in turn and confirm that the checks
anchored in the touched files stay quiet (exit 0).  Run after any change that tightens a rule.
usage: regress_refactors.py [refactoring ...]"""
import sys, os, subprocess, glob, json

VERIF = "/verif"
WT = os.environ.get("REGRESS_WT", "/repo")      # tree the changes are applied to (a scratch worktree allows parallel runs)
ENV = dict(os.environ, ARK_REPO=WT)


def main():
    names = sys.argv[1:] or sorted(os.path.basename(d) for d in glob.glob(os.path.join(VERIF, "refactors", "C*")))
    if subprocess.run(["git", "-C", WT, "status", "--porcelain"], capture_output=True, text=True).stdout.strip():
        print(WT + " not clean")
        sys.exit(2)
    alarms, skipped, touched = [], [], set()
    for n in names:
        d = os.path.join(VERIF, "refactors", n)
        patch = os.path.join(d, "patch.diff")
        meta = json.load(open(os.path.join(d, "result.json")))
        if subprocess.run(["git", "-C", WT, "apply", "--check", patch], capture_output=True).returncode != 0:
            skipped.append(n)
            print("%-8s patch does not apply to the current tree" % n)
            continue
        subprocess.run(["git", "-C", WT, "apply", patch], check=True)
        bad = {}
        try:
            for cid in meta["checks_run"]:
                touched.add(cid)
                r = subprocess.run(["python3", os.path.join(VERIF, "check.py"), cid], capture_output=True, text=True, env=ENV)
                if r.returncode != 0:
                    bad[cid] = [l[:300] for l in r.stdout.splitlines() if l.startswith(("FAIL", "VIOLATION"))]
        finally:
            subprocess.run(["git", "-C", WT, "checkout", "HEAD", "--", "."], check=True)
        meta["alarms"] = bad
        json.dump(meta, open(os.path.join(d, "result.json"), "w"), indent=1)
        if bad:
            alarms.append(n)
            print("%-8s FALSE ALARM %s" % (n, json.dumps(bad)[:400]))
        else:
            print("%-8s quiet (%s)" % (n, " ".join(meta["checks_run"])))
    print("false alarms:", alarms, "skipped:", skipped)
    if WT == "/repo":
        for cid in sorted(touched):
            subprocess.run(["python3", os.path.join(VERIF, "check.py"), cid], capture_output=True)
    sys.exit(1 if alarms else 0)


main()
