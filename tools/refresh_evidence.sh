#!/bin/bash
# Re-run every registered quick check on the UNCHANGED /repo tree so that the committed evidence files come from it.
cd /verif
if [ -n "$(git -C /repo status --porcelain)" ]; then echo "/repo working tree is not clean"; exit 2; fi
rc=0
for i in $(seq -w 1 20); do
  out=$(python3 check.py C$i 2>&1 | grep -E "^(OK|FAIL|VIOLATION)" | head -2)
  echo "$out" | cut -c1-160
  echo "$out" | grep -q "^OK" || rc=1
done
exit $rc
