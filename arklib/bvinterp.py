"""Abstract interpretation of small integer MIR bodies in the domain of GF(2)-affine bit vectors.

A value is a concrete integer / bool, a tuple, an Opt (Option), a Slice (list of values; arrays and `&[u64]`), a
Struct (fields by index; closure environments, Range, BigInt), an Iter (slice iterators), a Ref (pointer to a local, a
heap object, or an element / field of one) or a BV: 64 result bits, bit j = XOR of a set of *input bits* (numbered
globally: input word k contributes bits 64k .. 64k+63) xor a constant bit.  Shifts by concrete amounts, AND with
concrete masks, XOR, and OR of bit-disjoint values are exact in this domain, so one abstract run covers all
2^(64*words) inputs.  Anything else stops the run with a reason (the caller reports 'undecided', never 'ok').
"""
from .facts import place_parts, op_place

W = 64
MASK = (1 << W) - 1


class BV:
    __slots__ = ("rows", "const")

    def __init__(self, rows, const=0):
        self.rows, self.const = rows, const

    @staticmethod
    def word(k=0):
        return BV([1 << (W * k + j) for j in range(W)])

    def bit(self, j):
        """(mask of input bits XORed into result bit j, constant bit)"""
        return self.rows[j], (self.const >> j) & 1

    def is_zero_bit(self, j):
        return self.rows[j] == 0 and not (self.const >> j) & 1


class Slice:
    def __init__(self, items):
        self.items = list(items)


class SubSlice(Slice):
    """a window of another slice: reads and writes go through to the parent"""
    def __init__(self, parent, lo, hi):
        self.parent, self.lo, self.hi = parent, lo, hi

    @property
    def items(self):
        return _Window(self.parent, self.lo, self.hi)


class _Window:
    def __init__(self, parent, lo, hi):
        self.p, self.lo, self.hi = parent, lo, hi

    def __len__(self):
        return self.hi - self.lo

    def __getitem__(self, i):
        if isinstance(i, slice):
            return [self.p.items[k] for k in range(self.lo, self.hi)][i]
        if not 0 <= i < self.hi - self.lo:
            raise IndexError(i)
        return self.p.items[self.lo + i]

    def __setitem__(self, i, v):
        self.p.items[self.lo + i] = v

    def __iter__(self):
        return iter([self.p.items[k] for k in range(self.lo, self.hi)])


class Struct:
    def __init__(self, fields):
        self.fields = dict(fields)


class Opt:
    def __init__(self, v=None, some=False):
        self.v, self.some = v, some


class Enum:
    """field-less enum value (e.g. core::cmp::Ordering), by variant name"""
    DISC = {"Equal": 0, "Less": 255, "Greater": 1}

    def __init__(self, name):
        self.name = name


class Tok:
    """opaque scalar identified by a label (used for order-only reasoning: values are touched only through comparisons
    answered by the caller's model)"""
    def __init__(self, label):
        self.label = label


class Iter:
    """iterator holding the list of items still to be produced (element references, sub-slices, tuples ...)"""
    def __init__(self, items):
        self.items = list(items)


class Ref:
    """pointer: to a heap object (Slice / Struct: key None), to one of its elements / fields (key), or to a local of
    the running frame (obj = ('local', frame-dict), key = local index)"""
    def __init__(self, obj, key=None):
        self.obj, self.key = obj, key

    @property
    def target(self):
        return self.get()

    def get(self):
        if self.key is None:
            return self.obj
        if isinstance(self.obj, Slice):
            return self.obj.items[self.key]
        if isinstance(self.obj, Struct):
            return self.obj.fields[self.key]
        if isinstance(self.obj, dict):
            return self.obj[self.key]
        raise Stop("dangling reference")

    def set(self, v):
        if self.key is None:
            raise Stop("store through a whole-object pointer")
        if isinstance(self.obj, Slice):
            self.obj.items[self.key] = v
        elif isinstance(self.obj, Struct):
            self.obj.fields[self.key] = v
        elif isinstance(self.obj, dict):
            self.obj[self.key] = v
        else:
            raise Stop("store through unknown pointer")


class Stop(Exception):
    pass


def _bin(op, x, y):
    ovf = op.endswith("WithOverflow")
    base = op.replace("WithOverflow", "").replace("Unchecked", "")
    if isinstance(x, bool):
        x = int(x)
    if isinstance(y, bool):
        y = int(y)
    if isinstance(x, int) and isinstance(y, int):
        o_ = False
        if base == "Add":
            v, o_ = x + y, x + y > MASK
        elif base == "Sub":
            v, o_ = x - y, x < y
        elif base == "Mul":
            v, o_ = x * y, x * y > MASK
        elif base == "Div":
            if y == 0:
                raise Stop("division by zero")
            v = x // y
        elif base == "Rem":
            if y == 0:
                raise Stop("remainder by zero")
            v = x % y
        elif base == "Shl":
            v, o_ = (x << y) & MASK, y >= W
        elif base == "Shr":
            v, o_ = x >> y, y >= W
        elif base == "BitAnd":
            v = x & y
        elif base == "BitOr":
            v = x | y
        elif base == "BitXor":
            v = x ^ y
        elif base in ("Lt", "Le", "Gt", "Ge", "Eq", "Ne"):
            return {"Lt": x < y, "Le": x <= y, "Gt": x > y, "Ge": x >= y, "Eq": x == y, "Ne": x != y}[base]
        else:
            raise Stop("operator %s" % op)
        return (v & MASK, o_) if ovf else v & MASK
    if isinstance(x, BV) and isinstance(y, int) and base in ("Shl", "Shr"):
        if y >= W:
            raise Stop("shift amount %d out of range" % y)
        if base == "Shr":
            return BV(x.rows[y:] + [0] * y, x.const >> y)
        return BV([0] * y + x.rows[:W - y], (x.const << y) & MASK)
    if base == "BitAnd" and (isinstance(x, BV) != isinstance(y, BV)):
        v, m = (x, y) if isinstance(x, BV) else (y, x)
        if not isinstance(m, int):
            raise Stop("mask is not concrete")
        return BV([v.rows[j] if (m >> j) & 1 else 0 for j in range(W)], v.const & m)
    if base == "BitXor" and isinstance(x, BV) and isinstance(y, BV):
        return BV([p ^ q for p, q in zip(x.rows, y.rows)], x.const ^ y.const)
    if base == "BitXor" and (isinstance(x, BV) != isinstance(y, BV)):
        v, m = (x, y) if isinstance(x, BV) else (y, x)
        if not isinstance(m, int):
            raise Stop("xor with unknown")
        return BV(list(v.rows), v.const ^ m)
    if base == "BitOr" and isinstance(x, BV) and isinstance(y, BV):
        rows = []
        for j in range(W):
            if not (x.is_zero_bit(j) or y.is_zero_bit(j)):
                raise Stop("bitwise OR of overlapping symbolic bits")
            rows.append(x.rows[j] | y.rows[j])
        return BV(rows, x.const | y.const)
    if base == "BitOr" and (isinstance(x, BV) != isinstance(y, BV)):
        v, m = (x, y) if isinstance(x, BV) else (y, x)
        if isinstance(m, int) and m == 0:
            return v
        if isinstance(m, int):
            # OR with a constant is exact where the symbolic bits are zero
            rows = list(v.rows)
            for j in range(W):
                if (m >> j) & 1 and not v.is_zero_bit(j):
                    raise Stop("bitwise OR of a constant onto symbolic bits")
            return BV(rows, v.const | m)
        raise Stop("bitwise OR with unknown")
    if base == "Add" and isinstance(x, BV) and isinstance(y, BV) and all(x.is_zero_bit(j) or y.is_zero_bit(j) for j in range(W)):
        v = BV([p | q for p, q in zip(x.rows, y.rows)], x.const | y.const)
        return (v, False) if ovf else v
    if base == "Add" and (isinstance(x, BV) != isinstance(y, BV)):
        v, m = (x, y) if isinstance(x, BV) else (y, x)
        if isinstance(m, int) and all(not ((m >> j) & 1) or v.is_zero_bit(j) for j in range(W)):
            r_ = BV(list(v.rows), v.const | m)
            return (r_, False) if ovf else r_
    if base in ("Ne", "Eq") and (isinstance(x, BV) != isinstance(y, BV)):
        v, m = (x, y) if isinstance(x, BV) else (y, x)
        if m == 0 and all(v.is_zero_bit(j) for j in range(1, W)):
            # a value that is 0 or 1: `v != 0` is its low bit (kept as a symbolic bit), `v == 0` its complement
            return v if base == "Ne" else BV(list(v.rows), v.const ^ 1)
    raise Stop("operator %s on symbolic operands" % op)


def run(fn, args, stop_before=None, max_steps=4000, call_model=None, stop_after=None, params=None, closure_of=None, const_of=None):
    """Run fn's MIR from bb0.  args: {local: value}.  Returns (locals dict, end) where end is 'return' or ('stop', bb).
    Raises Stop(reason) when the domain cannot represent a step or an assertion (overflow / bounds check) fails."""
    vals = dict(args)
    params = params or {}

    def step(v, p):
        """apply one projection to a value (read)"""
        if p == "*":
            return v.get() if isinstance(v, Ref) else v
        if isinstance(p, (list, tuple)):
            if p[0] == "f":
                if isinstance(v, tuple):
                    return v[int(p[1])]
                if isinstance(v, Struct):
                    if int(p[1]) not in v.fields:
                        raise Stop("unknown field %s" % p[1])
                    return v.fields[int(p[1])]
                if isinstance(v, Opt):
                    return v.v
                raise Stop("field of non-aggregate")
            if p[0] == "dc":
                return v
            if p[0] == "i":
                idx = vals.get(p[1])
                if not isinstance(v, Slice) or not isinstance(idx, int):
                    raise Stop("index into non-slice / symbolic index")
                if idx >= len(v.items):
                    raise Stop("index %d out of bounds (len %d)" % (idx, len(v.items)))
                return v.items[idx]
            if p[0] == "ci":
                if not isinstance(v, Slice):
                    raise Stop("index into non-slice")
                return v.items[-p[1] if p[2] else p[1]]
        raise Stop("projection %s" % (p,))

    def locate(place):
        """place -> Ref to its storage"""
        l, projs = place_parts(place)
        cur = Ref(vals, l)
        for p in projs:
            if p == "*":
                v = cur.get()
                if not isinstance(v, Ref):
                    raise Stop("deref of non-pointer")
                cur = v
                continue
            v = cur.get()
            if isinstance(p, (list, tuple)):
                if p[0] == "f":
                    if isinstance(v, Struct):
                        cur = Ref(v, int(p[1]))
                        continue
                    if isinstance(v, tuple):
                        raise Stop("store into tuple field")
                    if isinstance(v, Opt):
                        raise Stop("store into option payload")
                if p[0] == "i":
                    idx = vals.get(p[1])
                    if isinstance(v, Slice) and isinstance(idx, int):
                        if idx >= len(v.items):
                            raise Stop("index %d out of bounds (len %d)" % (idx, len(v.items)))
                        cur = Ref(v, idx)
                        continue
                if p[0] == "dc":
                    continue
            raise Stop("place projection %s" % (p,))
        return cur

    def read(place):
        l, projs = place_parts(place)
        if l not in vals:
            raise Stop("read of undefined local _%d" % l)
        v = vals[l]
        for p in projs:
            v = step(v, p)
        return v

    def operand(o):
        if "k" in o:
            k = o["k"]
            v = k.get("v")
            if isinstance(v, (bool, int)):
                return v
            if "param" in k and k["param"] in params:
                return params[k["param"]]
            if k.get("zst"):
                return ()
            if k.get("variant"):
                return Enum(k["variant"])
            if "str" in k:
                return k["str"]
            if k.get("ty") == "char" and isinstance(k.get("v"), int):
                return chr(k["v"])
            if const_of is not None and (k.get("def") or k.get("static")) and k.get("promoted") is None:
                cv = const_of(k)
                if cv is not None:
                    return cv
            pd = k.get("pdefs") or []
            if k.get("promoted") is not None and len(pd) == 1 and pd[0].startswith("variant:"):
                # promoted `&Enum::Variant` (e.g. the right-hand side of `order != Ordering::Equal`)
                e = Enum(pd[0][8:].split("#")[0].rsplit("::", 1)[-1])
                return Ref({"c": e}, "c") if str(k.get("ty", "")).startswith("&") else e
            raise Stop("non-integer constant")
        return read(op_place(o))

    def as_iter(v):
        d = v.get() if isinstance(v, Ref) else v
        if isinstance(d, Iter):
            return d
        if isinstance(d, Slice):
            return Iter([Ref(d, i) for i in range(len(d.items))])
        if isinstance(d, Struct) and set(d.fields) == {0, 1} and all(isinstance(d.fields[i], int) for i in (0, 1)):
            return Iter(list(range(d.fields[0], d.fields[1])))
        raise Stop("not iterable")

    def default_call(name, argv, t):
        a0 = argv[0] if argv else None
        d0 = a0.get() if isinstance(a0, Ref) else a0
        if name == "len" and isinstance(d0, Slice):
            return len(d0.items)
        if name in ("index", "index_mut") and len(argv) == 2 and isinstance(d0, Slice) and isinstance(argv[1], Struct):
            # slicing by a range value: the range type is in the call's generic arguments
            rty = " ".join(t["f"].get("targs") or []) + " " + (t["f"].get("path") or "")
            fs = argv[1].fields
            lo_, hi_ = 0, len(d0.items)
            if "RangeTo<" in rty and set(fs) == {0} and isinstance(fs[0], int):
                hi_ = fs[0]
            elif "RangeFrom<" in rty and set(fs) == {0} and isinstance(fs[0], int):
                lo_ = fs[0]
            elif "Range<" in rty and set(fs) == {0, 1} and all(isinstance(fs[i], int) for i in (0, 1)):
                lo_, hi_ = fs[0], fs[1]
            else:
                raise Stop("slicing by %s" % rty[:40])
            if not (0 <= lo_ <= hi_ <= len(d0.items)):
                raise Stop("slice bounds %d..%d out of range %d" % (lo_, hi_, len(d0.items)))
            return Ref(SubSlice(d0, lo_, hi_))
        if name in ("min", "max") and len(argv) == 2 and all(isinstance(x, int) and not isinstance(x, bool) for x in argv):
            return min(argv) if name == "min" else max(argv)
        if name == "abs_diff" and len(argv) == 2 and all(isinstance(x, int) and not isinstance(x, bool) for x in argv):
            return abs(argv[0] - argv[1])
        if name == "into_iter" and isinstance(d0, (Iter,)):
            return d0
        if name == "into_iter" and isinstance(a0, Struct):
            return a0
        if name == "into_iter" and isinstance(a0, Slice):
            return Iter(list(a0.items))          # array / Vec by value: the items themselves
        if name == "into_iter" and isinstance(d0, Slice):
            return as_iter(d0)
        if name in ("iter_mut", "iter") and isinstance(d0, Slice):
            return as_iter(d0)
        if name in ("deref", "deref_mut", "as_slice", "as_mut_slice", "as_ref", "as_mut", "borrow") and isinstance(d0, Slice):
            return Ref(d0)
        if name == "to_vec" and isinstance(d0, Slice):
            return Slice(list(d0.items))
        if name == "reverse" and isinstance(d0, Slice):
            d0.items.reverse()
            return ()
        if name == "rev" and isinstance(d0, Iter):
            return Iter(list(reversed(d0.items)))
        if name in ("eq", "ne") and len(argv) == 2:
            x, y = d0, (argv[1].get() if isinstance(argv[1], Ref) else argv[1])
            while isinstance(x, Ref):
                x = x.get()
            while isinstance(y, Ref):
                y = y.get()
            if isinstance(x, Enum) and isinstance(y, Enum):
                return (x.name == y.name) == (name == "eq")
        if name in ("copied", "cloned") and isinstance(d0, Iter):
            return Iter([x.get() if isinstance(x, Ref) else x for x in d0.items])
        if name in ("collect", "from_iter") and isinstance(d0, Iter):
            return Slice(list(d0.items))
        if name in ("to_be_bytes", "to_le_bytes") and len(argv) == 1 and (isinstance(a0, BV) or (isinstance(a0, int) and not isinstance(a0, bool))):
            if isinstance(a0, int):
                bs = [(a0 >> (8 * k)) & 0xFF for k in range(8)]
            else:
                bs = [BV(a0.rows[8 * k:8 * k + 8] + [0] * (W - 8), (a0.const >> (8 * k)) & 0xFF) for k in range(8)]
            return Slice(bs if name == "to_le_bytes" else bs[::-1])
        if name in ("from_le_bytes", "from_be_bytes") and len(argv) == 1 and isinstance(d0, Slice) and len(d0.items) == 8:
            bs = list(d0.items) if name == "from_le_bytes" else list(reversed(d0.items))
            rows, const = [], 0
            for k, b_ in enumerate(bs):
                if isinstance(b_, bool):
                    b_ = int(b_)
                if isinstance(b_, int):
                    rows += [0] * 8
                    const |= (b_ & 0xFF) << (8 * k)
                elif isinstance(b_, BV):
                    if any(b_.rows[j] for j in range(8, W)) or (b_.const >> 8):
                        raise Stop("byte value wider than 8 bits")
                    rows += b_.rows[:8]
                    const |= (b_.const & 0xFF) << (8 * k)
                else:
                    raise Stop("from_bytes of a non-byte value")
            return BV(rows, const)
        if name == "filter" and len(argv) == 2 and isinstance(d0, Iter) and closure_of is not None:
            clo = closure_of(t)
            if clo is None:
                raise Stop("closure of filter not resolved")
            byref = (clo.local_ty(1) or "").startswith("&")
            keep = []
            for item in d0.items:
                env = {"env": argv[1], "i": item}
                v2, _ = run(clo, {1: Ref(env, "env") if byref else argv[1], 2: Ref(env, "i")}, max_steps=max_steps, call_model=call_model, params=params, closure_of=closure_of, const_of=const_of)
                if not isinstance(v2.get(0), bool):
                    raise Stop("predicate of filter is not decided")
                if v2.get(0):
                    keep.append(item)
            return Iter(keep)
        if name == "last" and len(argv) == 1 and isinstance(d0, Iter):
            return Opt(d0.items[-1], True) if d0.items else Opt()
        if name in ("find", "any", "all", "position") and len(argv) == 2 and isinstance(d0, Iter) and closure_of is not None:
            clo = closure_of(t)
            if clo is None:
                raise Stop("closure of %s not resolved" % name)
            byref = (clo.local_ty(1) or "").startswith("&")
            idx = 0
            while d0.items:
                item = d0.items.pop(0)
                env = {"env": argv[1], "i": item}
                arg2 = Ref(env, "i") if name == "find" else item       # find's predicate takes &Item
                v2, _ = run(clo, {1: Ref(env, "env") if byref else argv[1], 2: arg2}, max_steps=max_steps, call_model=call_model, params=params, closure_of=closure_of, const_of=const_of)
                r2 = v2.get(0)
                if not isinstance(r2, bool):
                    raise Stop("predicate of %s is not decided" % name)
                if name == "find" and r2:
                    return Opt(item, True)
                if name == "position" and r2:
                    return Opt(idx, True)
                if name == "any" and r2:
                    return True
                if name == "all" and not r2:
                    return False
                idx += 1
            return Opt() if name in ("find", "position") else (name == "all")
        if name in ("is_some_and", "map_or") and isinstance(a0, Opt) and closure_of is not None:
            clo = closure_of(t)
            if clo is None:
                raise Stop("closure of %s not resolved" % name)
            if not a0.some:
                return False if name == "is_some_and" else argv[1]
            cl_arg = argv[-1]
            env = {"env": cl_arg}
            byref = (clo.local_ty(1) or "").startswith("&")
            v2, _ = run(clo, {1: Ref(env, "env") if byref else cl_arg, 2: a0.v}, max_steps=max_steps, call_model=call_model, params=params, closure_of=closure_of, const_of=const_of)
            return v2.get(0)
        if name in ("is_some", "is_none") and isinstance(a0, Opt):
            return a0.some == (name == "is_some")
        if name == "try_for_each" and len(argv) == 2 and isinstance(d0, Iter) and closure_of is not None:
            # results are Option-like values whose discriminant 0 means "continue / Ok" (the caller's call model decides
            # what the fallible operation returns); the first non-zero discriminant ends the traversal
            clo = closure_of(t)
            if clo is None:
                raise Stop("closure of try_for_each not resolved")
            while d0.items:
                item = d0.items.pop(0)
                env = {"env": argv[1]}
                byref = (clo.local_ty(1) or "").startswith("&")
                v2, _ = run(clo, {1: Ref(env, "env") if byref else argv[1], 2: item}, max_steps=max_steps, call_model=call_model, params=params, closure_of=closure_of, const_of=const_of)
                r2 = v2.get(0)
                if isinstance(r2, Opt) and r2.some:
                    return r2
            return Opt()
        if name == "for_each" and len(argv) == 2 and isinstance(d0, Iter) and closure_of is not None:
            clo = closure_of(t)
            if clo is None:
                raise Stop("closure of for_each not resolved")
            for item in d0.items:
                env = {"env": argv[1]}
                byref = (clo.local_ty(1) or "").startswith("&")
                run(clo, {1: Ref(env, "env") if byref else argv[1], 2: item}, max_steps=max_steps, call_model=call_model, params=params, closure_of=closure_of, const_of=const_of)
            return ()
        if name == "fold" and len(argv) == 3 and isinstance(d0, Iter) and closure_of is not None:
            clo = closure_of(t)
            if clo is None:
                raise Stop("closure of fold not resolved")
            acc = argv[1]
            for item in d0.items:
                env = {"env": argv[2]}
                byref = (clo.local_ty(1) or "").startswith("&")
                v2, _ = run(clo, {1: Ref(env, "env") if byref else argv[2], 2: acc, 3: item}, max_steps=max_steps, call_model=call_model, params=params, closure_of=closure_of, const_of=const_of)
                acc = v2.get(0)
            return acc
        if name in ("map", "flat_map") and len(argv) == 2 and isinstance(d0, Iter) and closure_of is not None:
            clo = closure_of(t)
            if clo is None:
                raise Stop("closure of %s not resolved" % name)
            out = []
            for item in d0.items:
                env = {"env": argv[1]}
                byref = (clo.local_ty(1) or "").startswith("&")
                v2, _ = run(clo, {1: Ref(env, "env") if byref else argv[1], 2: item}, max_steps=max_steps, call_model=call_model, params=params, closure_of=closure_of, const_of=const_of)
                r2 = v2.get(0)
                if name == "flat_map":
                    out.extend(as_iter(r2).items if not isinstance(r2, Slice) else list(r2.items))
                else:
                    out.append(r2)
            return Iter(out)
        if name == "enumerate" and isinstance(d0, Iter):
            return Iter([(i, x) for i, x in enumerate(d0.items)])
        if name == "zip" and len(argv) == 2 and isinstance(d0, Iter):
            b = as_iter(argv[1])
            return Iter(list(zip(d0.items, b.items)))
        if name in ("take", "skip") and isinstance(d0, Iter) and isinstance(argv[1], int):
            return Iter(d0.items[:argv[1]] if name == "take" else d0.items[argv[1]:])
        if name in ("chunks", "chunks_mut") and isinstance(d0, Slice) and isinstance(argv[1], int) and argv[1] > 0:
            if name == "chunks_mut":
                raise Stop("mutable chunk views")
            n_ = argv[1]
            return Iter([Ref(Slice(d0.items[i:i + n_])) for i in range(0, len(d0.items), n_)])
        if name in ("next",) and isinstance(d0, Iter):
            if d0.items:
                return Opt(d0.items.pop(0), True)
            return Opt()
        if name == "next" and isinstance(d0, Struct) and set(d0.fields) == {0, 1}:
            s_, e_ = d0.fields[0], d0.fields[1]
            if not (isinstance(s_, int) and isinstance(e_, int)):
                raise Stop("symbolic range")
            if s_ < e_:
                d0.fields[0] = s_ + 1
                return Opt(s_, True)
            return Opt()
        if name == "checked_sub" and len(argv) == 2 and all(isinstance(x, int) and not isinstance(x, bool) for x in argv):
            return Opt(argv[0] - argv[1], True) if argv[0] >= argv[1] else Opt()
        if name in ("unwrap_or",) and isinstance(a0, Opt) and len(argv) == 2:
            return a0.v if a0.some else argv[1]
        if name in ("unwrap", "expect") and isinstance(a0, Opt):
            if not a0.some:
                raise Stop("unwrap of None")
            return a0.v
        if name == "swap" and len(argv) == 2 and isinstance(argv[0], Ref) and isinstance(argv[1], Ref):
            x, y = argv[0].get(), argv[1].get()
            argv[0].set(y)
            argv[1].set(x)
            return ()
        return NotImplemented
    bb = 0
    for _ in range(max_steps):
        if stop_before is not None and bb in stop_before:
            return vals, ("stop", bb)
        blk = fn.bbs[bb]
        for si_, s in enumerate(blk["s"]):
            if stop_after is not None and stop_after[0] == bb and si_ > stop_after[1]:
                return vals, ("stop", bb)
            if "d" not in s:
                continue
            r = s["r"]
            k = r["k"]
            if k in ("use", "cast"):
                v = operand(r["o"])
                if k == "cast":
                    if isinstance(v, bool):
                        v = int(v)
                    ty = r.get("ty")
                    bits = {"u8": 8, "u16": 16, "u32": 32}.get(ty)
                    if bits and isinstance(v, int):
                        v &= (1 << bits) - 1
            elif k == "bin":
                v = _bin(r["op"], operand(r["a"]), operand(r["b"]))
            elif k == "un":
                v = operand(r["o"])
                if r["op"] == "Not":
                    if isinstance(v, bool):
                        v = not v
                    elif isinstance(v, int):
                        v = (~v) & MASK
                    elif isinstance(v, BV):
                        v = BV(list(v.rows), v.const ^ MASK)
                    else:
                        raise Stop("not of aggregate")
                elif r["op"] == "PtrMetadata":
                    t_ = v.get() if isinstance(v, Ref) else v
                    if not isinstance(t_, Slice):
                        raise Stop("metadata of non-slice")
                    v = len(t_.items)
                else:
                    raise Stop("unary %s" % r["op"])
            elif k in ("ref", "raw", "addr"):
                pl, pp = place_parts(r["p"])
                if pl not in vals:
                    raise Stop("reference to undefined local")
                # &*p is p
                if pp and pp[-1] != "*" or not pp:
                    v = locate(r["p"])
                    # a pointer to a heap object itself (whole slice / struct) is represented with key None
                    tv = v.get()
                    if isinstance(tv, (Slice, Struct, Iter)):
                        v = Ref(tv)
                else:
                    inner = read([pl, pp[:-1]]) if pp[:-1] else vals[pl]
                    v = inner if isinstance(inner, Ref) else Ref(inner)
            elif k == "agg" and r.get("ak") == "tuple":
                v = tuple(operand(o) for o in r["ops"])
            elif k == "agg" and r.get("ak") == "adt":
                ops = [operand(o) for o in r["ops"]]
                if r.get("adt") == "core::option::Option":
                    v = Opt(ops[0], True) if r.get("variant") == "Some" else Opt()
                elif not ops and r.get("variant") and r.get("adt") != r.get("variant"):
                    v = Enum(r["variant"])
                else:
                    v = Struct({i: x for i, x in enumerate(ops)})
            elif k == "agg" and r.get("closure"):
                v = Struct({i: operand(o) for i, o in enumerate(r["ops"])})
            elif k == "agg" and r.get("ak") == "array":
                v = Slice([operand(o) for o in r["ops"]])
            elif k == "repeat":
                x = operand(r["o"])
                n = r["n"]
                try:
                    cnt = int(str(n).split("_")[0])
                except ValueError:
                    cnt = params.get(str(n))
                if not isinstance(cnt, int):
                    raise Stop("array length %s unknown" % n)
                v = Slice([x] * cnt)
            elif k == "discr":
                dv = read(r["p"])
                if isinstance(dv, Ref):
                    dv = dv.get()
                if isinstance(dv, Opt):
                    v = 1 if dv.some else 0
                elif isinstance(dv, Enum) and dv.name in Enum.DISC:
                    v = Enum.DISC[dv.name]
                else:
                    raise Stop("discriminant of non-option")
            else:
                raise Stop("statement kind %s" % k)
            locate(s["d"]).set(v)
        t = blk["t"]
        tk = t["k"]
        if tk == "goto":
            bb = t["t"]
        elif tk == "assert":
            c = operand(t["c"])
            if isinstance(c, (BV, Slice, Struct, tuple)):
                raise Stop("assertion on a symbolic value")
            if bool(c) != bool(t.get("exp", True)):
                raise Stop("assertion fails: %s" % t.get("msg", "?"))
            bb = t["t"]
        elif tk == "switch":
            v = operand(t["o"])
            if isinstance(v, bool):
                v = int(v)
            if not isinstance(v, int):
                raise Stop("branch on a symbolic value")
            bb = t["else"]
            for val, tgt in zip(t["vals"], t["tgts"]):
                if v == val:
                    bb = tgt
        elif tk == "return":
            return vals, "return"
        elif tk == "call":
            name = t["f"].get("name")
            argv = [operand(a) for a in t["args"]]
            out = call_model(name, argv, t) if call_model is not None else NotImplemented
            if out is NotImplemented:
                out = default_call(name, argv, t)
            if out is NotImplemented:
                raise Stop("call to %s" % name)
            locate(t["d"]).set(out)
            if t.get("t") is None:
                raise Stop("diverging call")
            bb = t["t"]
        elif tk == "drop":
            bb = t["t"]
        elif tk == "unreachable":
            raise Stop("unreachable reached")
        else:
            raise Stop("terminator %s" % tk)
    raise Stop("too many steps")
